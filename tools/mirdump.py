#!/usr/bin/env python3
"""pretty-print a function's MIR facts: tools/mirdump.py <config> <fn path substring>"""
import sys, os
V = os.path.dirname(os.path.dirname(os.path.abspath(__file__)))
sys.path.insert(0, V + "/engines"); sys.path.insert(0, V + "/engines/rules")
import extract
from mirlib import *

def pl(p):
    s = "_%d" % p["l"]
    for x in p["p"]:
        if x == "deref": s = "(*%s)" % s
        elif "f" in x: s += "." + x["f"]
        elif "idx" in x: s += "[_%d]" % x["idx"]
        elif "down" in x: s += " as " + x["down"]
        elif "cidx" in x: s += "[%d]" % x["cidx"]
        else: s += str(x)
    return s
def op(o):
    if o["k"] == "const":
        if "fn" in o: return "fn:" + o["fn"]
        if "name" in o: return o["name"] + "=" + str(o.get("val"))
        if "static" in o: return "static:" + o["static"]
        v = o.get("val")
        if v is None and "bytes" in o: v = bytes(o["bytes"][:24])
        return "const %s:%s%s" % (v, o["ty"], (" variant=" + o["variant"]) if "variant" in o else "")
    if o["k"] in ("copy", "move"): return o["k"] + " " + pl(o["place"])
    return str(o)
def rv(r):
    k = r["k"]
    if k == "use": return op(r["op"])
    if k in ("ref", "rawptr"): return ("&mut " if r["mut"] else "&") + pl(r["place"])
    if k == "bin": return "%s(%s, %s)" % (r["op"], op(r["a"]), op(r["b"]))
    if k == "un": return "%s(%s)" % (r["op"], op(r["a"]))
    if k == "cast": return "%s as %s [%s]" % (op(r["op"]), r["ty"], r["kind"])
    if k == "agg": return "%s%s{%s}" % (r.get("adt", r["agg"]), "::" + r["variant"] if "variant" in r else "", ", ".join(op(o) for o in r["ops"]))
    if k == "discr": return "discr(%s)" % pl(r["place"])
    if k == "repeat": return "[%s; %s]" % (op(r["op"]), r["n"])
    return str(r)
F = Facts(extract.extract(sys.argv[1]), sys.argv[1])
for p, f in F.fns.items():
    if sys.argv[2] in p and f.has_body:
        print("fn", p, f.loc, "argc", f.argc)
        for i, l in enumerate(f.locals): print("   _%d: %s %s" % (i, l["ty"], f.names.get(i, "")))
        for bi, b in enumerate(f.blocks):
            print(" bb%d%s:" % (bi, " (cleanup)" if b["cleanup"] else ""))
            for s in b["stmts"]:
                if s["k"] == "assign": print("    %s = %s   // %s" % (pl(s["place"]), rv(s["rv"]), s["s"]))
                else: print("    ", s)
            t = b["term"]
            if t["k"] == "call": print("    %s = CALL %s(%s) -> bb%s   // %s" % (pl(t["dest"]), callee_name(t["callee"]), ", ".join(op(a) for a in t["args"]), t["t"], t["s"]))
            elif t["k"] == "switch": print("    SWITCH %s %s else bb%d" % (op(t["op"]), ["%d->bb%d" % (v, b2) for v, b2 in t["targets"]], t["otherwise"]))
            elif t["k"] == "assert": print("    ASSERT %s == %s [%s] -> bb%d" % (op(t["cond"]), t["expected"], t["kind"], t["t"]))
            else: print("    %s %s" % (t["k"].upper(), {k: v for k, v in t.items() if k not in ("k", "s", "x")}))
