#!/bin/bash
# usage: tools/confirm_seed.sh <worktree> [extra cargo args for the demo, e.g. --features rayon]
# Confirms: (1) with the change the existing suite passes and the demo FAILS; (2) without it the demo PASSES.
W=$1; shift
export CARGO_NET_OFFLINE=true RUST_BACKTRACE=0
cd "$W" || exit 2
echo "--- with change: existing lib tests"
cargo test --offline --lib 2>&1 | grep -E "^test result" | head -3
echo "--- with change: demo (expected to FAIL)"
cargo test --offline --test seed_demo "$@" 2>&1 | grep -E "^test result|panicked|FAILED|error(\[|:)" | head -6
echo "--- without change: demo (expected to PASS)"
git diff -- . ":!tests/seed_demo.rs" > /tmp/_confirm.diff; git apply -R /tmp/_confirm.diff
cargo test --offline --test seed_demo "$@" 2>&1 | grep -E "^test result|FAILED|error(\[|:)" | head -4
git apply /tmp/_confirm.diff
git diff --stat | tail -1
