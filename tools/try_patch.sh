#!/bin/bash
# usage: tools/try_patch.sh <patch.diff> <scratch-repo> <Cxx> [<Cxx> ...]
# Applies a (supposedly behaviour-preserving) patch to a scratch worktree and runs the given quick checks against it.
# Prints one line per property: SILENT or ALARM with the failing obligations.  Never touches /repo.
P=$1; R=$2; shift 2
V=$(cd "$(dirname "$0")/.." && pwd)
head=$(git -C /repo rev-parse HEAD)
if [ ! -e "$R/.git" ]; then git -C /repo worktree prune; git -C /repo worktree add -q --detach "$R" "$head"; fi
git -C "$R" checkout -q --detach "$head" && git -C "$R" checkout -q -- . && git -C "$R" clean -fdq
if ! git -C "$R" apply "$P"; then echo "PATCH-DOES-NOT-APPLY $P"; exit 2; fi
export VERIF_REPO=$R VERIF_NO_EVIDENCE=1
for c in "$@"; do
  out=$(cd "$V" && ./check "$c" 2>&1)
  if echo "$out" | grep -q "VIOLATION property=$c"; then
    echo "ALARM  $c  $(basename "$P")"; echo "$out" | grep -A1 "FAIL" | cut -c1-260 | head -12
  elif echo "$out" | grep -q " 0 violation"; then echo "SILENT $c  $(basename "$P")"
  else echo "ERROR  $c  $(basename "$P")"; echo "$out" | tail -5 | cut -c1-260; fi
done
git -C "$R" checkout -q -- . && git -C "$R" clean -fdq
