#!/usr/bin/env python3
"""tools/keep_seed.py <id> <outdir> <property> <detected-by> "<needs>" "<ran>"  -- file a confirmed seeded change"""
import json, os, shutil, sys
sid, out, prop, det, needs, ran = sys.argv[1:7]
d = os.path.join(os.path.dirname(os.path.dirname(os.path.abspath(__file__))), "seeded", sid)
os.makedirs(d, exist_ok=True)
shutil.copy(os.path.join(out, "patch.diff"), os.path.join(d, "patch.diff"))
for f in os.listdir(out):
    if f.startswith("demo"):
        shutil.copy(os.path.join(out, f), os.path.join(d, f))
if os.path.exists(os.path.join(out, "notes.md")):
    shutil.copy(os.path.join(out, "notes.md"), os.path.join(d, "notes.md"))
json.dump(dict(id=sid, property=prop, breaks=open(os.path.join(out, "notes.md")).read()[:600] if os.path.exists(os.path.join(out, "notes.md")) else "",
               needs_to_manifest=needs, confirmed_by=ran, detected_by=det), open(os.path.join(d, "meta.json"), "w"), indent=1)
print("kept", d)
