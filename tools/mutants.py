#!/usr/bin/env python3
"""Self-test of the checker: apply each scratch mutation of selftest/mutants.json to /repo's
working tree, run the named check, require that it fires and names the expected instance, then
restore the tree (git checkout).  Not part of any verdict; run by hand / in the thorough tier's
self-test.  usage: tools/mutants.py [name-substring ...]"""
import json
import os as _os
_os.environ["VERIF_NO_EVIDENCE"] = "1"
import os
import subprocess
import sys

VERIF = os.path.dirname(os.path.dirname(os.path.abspath(__file__)))
REPO = os.environ.get("SELFTEST_REPO", "/tmp/verif_selftest_repo")   # a scratch worktree: /repo itself is never touched


def prepare_repo():
    """detached worktree of /repo at its current HEAD (plus nothing else); created on first use"""
    head = subprocess.run("git -C /repo rev-parse HEAD", shell=True, capture_output=True, text=True).stdout.strip()
    if not os.path.isdir(os.path.join(REPO, ".git")) and not os.path.isfile(os.path.join(REPO, ".git")):
        subprocess.run("git -C /repo worktree prune; git -C /repo worktree add --detach %s %s" % (REPO, head), shell=True, capture_output=True)
    subprocess.run("git -C %s checkout -q --detach %s && git -C %s checkout -- ." % (REPO, head, REPO), shell=True, capture_output=True)
    os.environ["VERIF_REPO"] = REPO


def sh(cmd, **kw):
    return subprocess.run(cmd, shell=True, capture_output=True, text=True, **kw)


def main():
    muts = json.load(open(os.path.join(VERIF, "selftest", "mutants.json")))
    sel = sys.argv[1:]
    prepare_repo()
    dirty = sh("git -C %s status --porcelain --untracked-files=no" % REPO).stdout.strip()
    if dirty:
        raise SystemExit("refusing: /repo has uncommitted changes:\n" + dirty)
    res = []
    for m in muts:
        if sel and not any(s in m["name"] for s in sel):
            continue
        try:
            for ed in m["edits"]:
                p = os.path.join(REPO, ed["file"])
                t = open(p).read()
                if (t.count(ed["old"]) != 1 and not ed.get("all")) or t.count(ed["old"]) == 0:
                    raise RuntimeError("mutant %s: pattern occurs %d times in %s" % (m["name"], t.count(ed["old"]), ed["file"]))
                open(p, "w").write(t.replace(ed["old"], ed["new"]))
            outs = []
            ok = True
            for prop in m["props"]:
                r = sh("./check %s --tier %s" % (prop, m.get("tier", "quick")), cwd=VERIF)
                fired = "VIOLATION property=%s" % prop in r.stdout
                named = all(k in r.stdout for k in m.get("expect", []))
                extraction_failed = "EXTRACTION-FAILED" in (r.stdout + r.stderr)
                outs.append((prop, fired, named, extraction_failed))
                ok = ok and fired and named and not extraction_failed
            res.append((m["name"], ok, outs))
            print("%-50s %s %s" % (m["name"], "DETECTED" if ok else "MISSED", outs))
            if not ok and os.environ.get("MUT_VERBOSE"):
                print(r.stdout[-3000:], r.stderr[-2000:])
        finally:
            sh("git -C %s checkout -- ." % REPO)
    bad = [r for r in res if not r[1]]
    print("%d mutants, %d detected, %d missed" % (len(res), len(res) - len(bad), len(bad)))
    sys.exit(1 if bad else 0)


if __name__ == "__main__":
    main()
