#!/bin/bash
# usage: tools/seedtest.sh <patch.diff> <prop> [prop...]   -- apply to /repo, run checks, revert
P=$1; shift
git -C /repo status --porcelain --untracked-files=no | grep -q . && { echo "repo dirty"; exit 2; }
git -C /repo apply "$P" || { echo "patch does not apply"; exit 2; }
for p in "$@"; do (cd /verif && VERIF_NO_EVIDENCE=1 ./check $p 2>&1 | cut -c1-220 | head -8); done
git -C /repo checkout -- .
