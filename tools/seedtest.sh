#!/bin/bash
# usage: tools/seedtest.sh <patch.diff> <prop> [prop...]   -- apply to a scratch worktree of /repo, run checks there, revert
P=$1; shift
R=${SELFTEST_REPO:-/tmp/verif_selftest_repo}
H=$(git -C /repo rev-parse HEAD)
[ -e "$R/.git" ] || { git -C /repo worktree prune; git -C /repo worktree add --detach "$R" "$H" >/dev/null 2>&1; }
git -C "$R" checkout -q --detach "$H" && git -C "$R" checkout -- . || exit 2
git -C "$R" apply "$P" || { echo "patch does not apply"; exit 2; }
for p in "$@"; do (cd /verif && VERIF_REPO="$R" VERIF_NO_EVIDENCE=1 ./check $p 2>&1 | cut -c1-220 | head -8); done
git -C "$R" checkout -- .
