#!/usr/bin/env python3
"""Write engines/rules/baseline_fns.json: the function inventory (per crate, union over all configurations) of the tree the
rules were written against.  Run on the CLEAN pinned tree only; inliner.py treats functions outside it as transparent helpers."""
import json, os, sys
V = os.path.dirname(os.path.dirname(os.path.abspath(__file__)))
sys.path.insert(0, os.path.join(V, "engines"))
import extract
out = {}
cfgs = extract.ALL_BLAKE3 + ["refimpl", "testvec", "b3sum"]
extract.extract_many(cfgs)
for c in cfgs:
    d = json.load(open(extract.extract(c)))
    s = out.setdefault(d["crate"], set())
    for f in d["fns"]:
        s.add(f["path"])
json.dump({k: sorted(v) for k, v in out.items()}, open(os.path.join(V, "engines/rules/baseline_fns.json"), "w"), indent=0)
print({k: len(v) for k, v in out.items()})
