#!/usr/bin/env python3
"""Write engines/rules/baseline_fns.json: the function inventory (per crate, union over all configurations) of the tree the
rules were written against.  Run on the CLEAN pinned tree only; inliner.py treats functions outside it as transparent helpers."""
import json, os, sys
V = os.path.dirname(os.path.dirname(os.path.abspath(__file__)))
sys.path.insert(0, os.path.join(V, "engines"))
import extract
out = {}
cfgs = extract.ALL_BLAKE3 + ["refimpl", "testvec", "b3sum"]
extract.extract_many(cfgs)
for c in cfgs:
    d = json.load(open(extract.extract(c)))
    s = out.setdefault(d["crate"], set())
    for f in d["fns"]:
        s.add(f["path"])
# C inventory: function names per translation unit (union over the TBB define); an empty inventory disables C inlining while it is built
bp = os.path.join(V, "engines/rules/baseline_fns.json")
json.dump({k: sorted(v) for k, v in out.items()}, open(bp, "w"), indent=0)
sys.path.insert(0, os.path.join(V, "engines", "rules"))
sys.path.insert(0, os.path.join(V, "engines", "cfront"))
import r_c
ISA = {"c/blake3_sse2.c": ("-msse2",), "c/blake3_sse41.c": ("-msse4.1",), "c/blake3_avx2.c": ("-mavx2",), "c/blake3_avx512.c": ("-mavx512f", "-mavx512vl")}
for path in ("c/blake3.c", "c/blake3_dispatch.c", "c/blake3_portable.c", "c/blake3_sse2.c", "c/blake3_sse41.c", "c/blake3_avx2.c", "c/blake3_avx512.c"):
    names = set()
    for defs in ((), ("BLAKE3_USE_TBB",)) if path == "c/blake3.c" else ((),):
        t = r_c.tu(path, defs, extra_args=ISA.get(path, ()))
        names |= set(n for n in t.funcs if not n.startswith("_"))
    out["c:" + path] = names
json.dump({k: sorted(v) for k, v in out.items()}, open(bp, "w"), indent=0)
print({k: len(v) for k, v in out.items()})
