#!/usr/bin/env python3
"""Regenerate /verif/MANIFEST.json from the property modules (keeps claims and code in step)."""
import importlib
import json
import os
import sys

VERIF = os.path.dirname(os.path.dirname(os.path.abspath(__file__)))
sys.path.insert(0, os.path.join(VERIF, "engines", "rules"))
sys.path.insert(0, os.path.join(VERIF, "engines"))

NOT_APPLICABLE = {
}
PENDING = "machinery for this property is still under construction in this session (DESIGN.md section 7)"

props = [json.loads(l)["id"] for l in open(os.path.join(VERIF, "properties.jsonl"))]
checks = []
na = []
for pid in props:
    try:
        m = importlib.import_module("props." + pid.lower())
    except ModuleNotFoundError:
        na.append(dict(property_id=pid, reason=NOT_APPLICABLE.get(pid, PENDING)))
        continue
    checks.append(dict(
        property_id=pid,
        quick_cmd="./check %s --tier quick" % pid,
        thorough_cmd="./check %s --tier thorough" % pid,
        evidence_file="/verif/evidence/%s.json" % pid,
        replay_cmd_template="./check %s --replay {path}" % pid,
        engine=getattr(m, "ENGINE", "mirfacts+rules"),
        level_claimed=dict(category=m.LEVEL, text=m.EXPLANATION, design_ref=getattr(m, "DESIGN_REF", "DESIGN.md section 4")),
        level_note="; ".join(m.TRUSTED + ["assumes: " + a for a in m.ASSUMPTIONS]),
        technique=getattr(m, "TECHNIQUE", "static analysis over rustc MIR"),
    ))
man = dict(
    version=1,
    setup_cmd="cd /verif && ./setup.sh",
    hooks=dict(guard="blake3_team_blake3_verif",
               enable="no hooks: every engine reads compiler IR (rustc MIR, clang AST, assembled objects) of the unmodified tree",
               baseline_off_cmd="cd /repo && cargo test --workspace --no-fail-fast --offline",
               source_commits=[], add_only=True),
    engines=[
        dict(name="mirfacts", path="engines/mirfacts", serves_properties=props,
             kind_free_text="rustc_private driver: resolved items, ADTs, statics, evaluated consts, span-tagged MIR as JSON"),
        dict(name="rules", path="engines/rules", serves_properties=props,
             kind_free_text="Python: CFG/dominators, value-flow expressions, write summaries, call graph; rule families of DESIGN.md section 2"),
    ],
    checks=checks,
    not_applicable=na,
    notes="Static analysis only: nothing of /repo is executed by a deciding step. Repository fixes: see known_findings.json (fixed: lines).",
)
json.dump(man, open(os.path.join(VERIF, "MANIFEST.json"), "w"), indent=1)
print("checks:", [c["property_id"] for c in checks], "n/a:", [n["property_id"] for n in na])
