#!/usr/bin/env python3
"""Run every kept seeded change (seeded/<id>/patch.diff) against the check of the property it breaks, in a scratch
worktree of /repo (never /repo itself).  usage: tools/run_seeds.py [id-substring ...]"""
import json
import os
import subprocess
import sys

os.environ["VERIF_NO_EVIDENCE"] = "1"
V = os.path.dirname(os.path.dirname(os.path.abspath(__file__)))
R = os.environ.get("SELFTEST_REPO", "/tmp/verif_selftest_repo")


def sh(c, **k):
    return subprocess.run(c, shell=True, capture_output=True, text=True, **k)


head = sh("git -C /repo rev-parse HEAD").stdout.strip()
if not os.path.exists(os.path.join(R, ".git")):
    sh("git -C /repo worktree prune; git -C /repo worktree add --detach %s %s" % (R, head))
sh("git -C %s checkout -q --detach %s && git -C %s checkout -- ." % (R, head, R))
os.environ["VERIF_REPO"] = R
res = []
for sid in sorted(os.listdir(os.path.join(V, "seeded"))):
    if sys.argv[1:] and not any(s in sid for s in sys.argv[1:]):
        continue
    meta = json.load(open(os.path.join(V, "seeded", sid, "meta.json")))
    props = [meta["property"]] + meta.get("also_check", [])
    try:
        r = sh("git -C %s apply %s" % (R, os.path.join(V, "seeded", sid, "patch.diff")))
        if r.returncode:
            print("%-58s PATCH-DOES-NOT-APPLY (the tree has moved on: %s)" % (sid, r.stderr.strip()[:80]))
            res.append((sid, None))
            continue
        hit = []
        for p in props:
            o = sh("./check %s" % p, cwd=V)
            if "VIOLATION property=%s" % p in o.stdout:
                fails = [l.strip().split()[1] for l in o.stdout.splitlines() if l.strip().startswith("FAIL ")]
                hit.append((p, fails[:3]))
        print("%-58s %s %s" % (sid, "DETECTED" if hit else "MISSED", hit))
        res.append((sid, bool(hit)))
    finally:
        sh("git -C %s checkout -- ." % R)
print("%d seeds, %d detected, %d missed, %d not applicable" % (len(res), sum(1 for _, ok in res if ok), sum(1 for _, ok in res if ok is False), sum(1 for _, ok in res if ok is None)))
