#!/usr/bin/env python3
"""Run every kept seeded change (seeded/<id>/patch.diff) against the check of the property it breaks.
usage: tools/run_seeds.py [id-substring ...]"""
import json
import os as _os
_os.environ["VERIF_NO_EVIDENCE"] = "1", os, subprocess, sys
V = os.path.dirname(os.path.dirname(os.path.abspath(__file__)))
def sh(c, **k): return subprocess.run(c, shell=True, capture_output=True, text=True, **k)
if sh("git -C /repo status --porcelain --untracked-files=no").stdout.strip():
    raise SystemExit("refusing: /repo dirty")
res = []
for sid in sorted(os.listdir(os.path.join(V, "seeded"))):
    if sys.argv[1:] and not any(s in sid for s in sys.argv[1:]):
        continue
    meta = json.load(open(os.path.join(V, "seeded", sid, "meta.json")))
    props = [meta["property"]] + meta.get("also_check", [])
    try:
        r = sh("git -C /repo apply %s" % os.path.join(V, "seeded", sid, "patch.diff"))
        if r.returncode:
            print("%-55s PATCH-DOES-NOT-APPLY" % sid); res.append((sid, False)); continue
        hit = []
        for p in props:
            o = sh("./check %s" % p, cwd=V)
            if "VIOLATION property=%s" % p in o.stdout:
                fails = [l.strip().split()[1] for l in o.stdout.splitlines() if l.strip().startswith("FAIL ")]
                hit.append((p, fails[:3]))
        print("%-55s %s %s" % (sid, "DETECTED" if hit else "MISSED", hit))
        res.append((sid, bool(hit)))
    finally:
        sh("git -C /repo checkout -- .")
print("%d seeds, %d detected" % (len(res), sum(1 for _, ok in res if ok)))
