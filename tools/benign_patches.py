#!/usr/bin/env python3
"""Run the corpus of behaviour-preserving refactorings (selftest/benign_patches/*.diff, written by independent sub-agents
that saw only the repository) through the checks listed for each in index.json; every check must stay silent.
usage: tools/benign_patches.py [-j N] [name-substring ...]   (scratch worktrees /tmp/verif_bn_w<i>, never /repo)"""
import json, os, subprocess, sys
from concurrent.futures import ThreadPoolExecutor
V = os.path.dirname(os.path.dirname(os.path.abspath(__file__)))
D = os.path.join(V, "selftest", "benign_patches")
args = sys.argv[1:]
J = 3
if args[:1] == ["-j"]:
    J = int(args[1]); args = args[2:]
idx = json.load(open(os.path.join(D, "index.json")))
known = idx.pop("known_false_alarms", {})
todo = [(p, props) for p, props in sorted(idx.items()) if not args or any(a in p for a in args)]
slots = list(range(J))
import queue
q = queue.Queue()
for s in slots:
    q.put(s)
def run(item):
    p, props = item
    s = q.get()
    try:
        r = subprocess.run([os.path.join(V, "tools/try_patch.sh"), os.path.join(D, p), "/tmp/verif_bn_w%d" % s] + props, capture_output=True, text=True)
        return p, r.stdout + r.stderr
    finally:
        q.put(s)
bad = 0
with ThreadPoolExecutor(J) as ex:
    for p, out in ex.map(run, todo):
        al = [l for l in out.splitlines() if l.startswith(("ALARM", "ERROR", "PATCH-DOES"))]
        print("%-18s %s%s" % (p, "SILENT" if not al else "FALSE-ALARM " + " ".join(sorted(set(l.split()[1] for l in al))), "  (known residual, DESIGN 9.15)" if al and p in known else ""))
        if al:
            bad += 1
            for l in out.splitlines():
                if l.startswith("  FAIL"):
                    print("      " + l.strip()[:150])
        sys.stdout.flush()
print("%d patches, %d silent, %d with false alarms" % (len(todo), len(todo) - bad, bad))
