// Demonstration for C07: the AVX-512 / AVX2 assembly hash_many kernels read past the end of input 0 in their
// 4-input and 2-input tail stages.  Input 0 is placed flush against an inaccessible page.
#include <stdio.h>
#include <stdlib.h>
#include <string.h>
#include <stdint.h>
#include <signal.h>
#include <setjmp.h>
#include <sys/mman.h>
#include <unistd.h>
#include "blake3_impl.h"

static sigjmp_buf jb;
static void on_segv(int sig) { (void)sig; siglongjmp(jb, 1); }

typedef void (*many_fn)(const uint8_t *const *, size_t, size_t, const uint32_t[8], uint64_t, bool, uint8_t, uint8_t, uint8_t, uint8_t *);

static int probe(const char *name, many_fn f, size_t n, size_t blocks) {
  long ps = sysconf(_SC_PAGESIZE);
  uint8_t *region = mmap(NULL, 2 * ps, PROT_READ | PROT_WRITE, MAP_PRIVATE | MAP_ANONYMOUS, -1, 0);
  mprotect(region + ps, ps, PROT_NONE);
  size_t len = blocks * 64;
  uint8_t *in0 = region + ps - len;          // input 0 ends exactly at the inaccessible page
  uint8_t *others = malloc(8 * len + 64);
  for (size_t i = 0; i < len; i++) in0[i] = (uint8_t)(i * 7 + 1);
  for (size_t i = 0; i < 8 * len; i++) others[i] = (uint8_t)(i * 13 + 5);
  const uint8_t *inputs[8];
  inputs[0] = in0;
  for (size_t i = 1; i < 8; i++) inputs[i] = others + (i - 1) * len;
  uint8_t out[8 * 32], want[8 * 32];
  blake3_hash_many_portable(inputs, n, blocks, IV, 0, true, 0, CHUNK_START, CHUNK_END, want);
  struct sigaction sa; memset(&sa, 0, sizeof sa); sa.sa_handler = on_segv; sigaction(SIGSEGV, &sa, NULL);
  if (sigsetjmp(jb, 1)) { printf("FAIL %s: n=%zu blocks=%zu: SIGSEGV reading past the end of input 0\n", name, n, blocks); return 1; }
  f(inputs, n, blocks, IV, 0, true, 0, CHUNK_START, CHUNK_END, out);
  if (memcmp(out, want, n * 32)) { printf("FAIL %s: wrong output\n", name); return 1; }
  printf("ok   %s: n=%zu blocks=%zu\n", name, n, blocks);
  munmap(region, 2 * ps); free(others);
  return 0;
}

int main(void) {
  int bad = 0;
  for (size_t n = 1; n <= 7; n++) {
    bad += probe("blake3_hash_many_avx512", blake3_hash_many_avx512, n, 1);
    bad += probe("blake3_hash_many_avx2", blake3_hash_many_avx2, n, 1);
    bad += probe("blake3_hash_many_sse41", blake3_hash_many_sse41, n, 1);
    bad += probe("blake3_hash_many_sse2", blake3_hash_many_sse2, n, 1);
  }
  bad += probe("blake3_hash_many_avx512", blake3_hash_many_avx512, 4, 16);
  printf("%d failing probe(s)\n", bad);
  return bad ? 1 : 0;
}
