#!/bin/sh
# usage: demo.sh [path-to-BLAKE3-checkout]
set -e
ROOT=${1:-/repo}
W=$(mktemp -d); trap 'rm -rf "$W"' EXIT
C=$ROOT/c
gcc -O1 -I"$C" -o "$W/demo" "$(dirname "$0")/demo.c" "$C/blake3_portable.c" \
  "$C/blake3_sse2_x86-64_unix.S" "$C/blake3_sse41_x86-64_unix.S" "$C/blake3_avx2_x86-64_unix.S" "$C/blake3_avx512_x86-64_unix.S"
"$W/demo"
