// Checker-side stand-in for the `wild` crate (not in the offline cargo cache).
// b3sum only calls `wild::args_os()`; on Unix the real crate is `std::env::args_os()`.
pub fn args_os() -> std::env::ArgsOs { std::env::args_os() }
