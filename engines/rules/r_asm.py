"""A rules (assembly ABI), asm constant pools (K1-asm) and object sections (G1-asm)."""
import os
import re
import struct
import sys
VERIF = os.path.dirname(os.path.dirname(os.path.dirname(os.path.abspath(__file__))))
sys.path.insert(0, os.path.join(VERIF, "engines", "asmabi"))
sys.path.insert(0, os.path.join(VERIF, "engines", "specmodel"))
import asmabi
import blake3_spec as spec
from mirlib import MissingAnchor

# stack arguments per (operation, flavour): entry-relative offset -> (width, name); from c/blake3_impl.h
# hash_many(inputs, num_inputs, blocks, key, counter, increment_counter, flags, flags_start, flags_end, out)
STACK_ARGS = {
    ("hash_many", "unix"): {8: (1, "flags"), 16: (1, "flags_start"), 24: (1, "flags_end"), 32: (8, "out")},
    ("hash_many", "windows_gnu"): {40: (8, "counter"), 48: (1, "increment_counter"), 56: (1, "flags"), 64: (1, "flags_start"), 72: (1, "flags_end"), 80: (8, "out"),
                                   8: (8, "home:rcx"), 16: (8, "home:rdx"), 24: (8, "home:r8"), 32: (8, "home:r9")},
    ("compress_in_place", "unix"): {},
    ("compress_in_place", "windows_gnu"): {40: (1, "flags"), 8: (8, "home:rcx"), 16: (8, "home:rdx"), 24: (8, "home:r8"), 32: (8, "home:r9")},
    ("compress_xof", "unix"): {},
    ("compress_xof", "windows_gnu"): {40: (1, "flags"), 48: (8, "out"), 8: (8, "home:rcx"), 16: (8, "home:rdx"), 24: (8, "home:r8"), 32: (8, "home:r9")},
    ("xof_many", "unix"): {8: (8, "outblocks")},
}
for _k in [k for k in STACK_ARGS if k[1] == "windows_gnu"]:
    STACK_ARGS[(_k[0], "windows_msvc")] = STACK_ARGS[_k]
EXPECTED_FUNCS = {"unix": 11, "windows_gnu": 10, "windows_msvc": 10}


def op_of(fname):
    for op in ("hash_many", "compress_in_place", "compress_xof", "xof_many"):
        if fname.startswith("blake3_" + op + "_"):
            return op
    return None


_OBJS = {}


def objects(ctx):
    out = []
    for isa in asmabi.ISAS:
        for fl in asmabi.FLAVOURS:
            try:
                if (isa, fl) not in _OBJS:
                    _OBJS[(isa, fl)] = asmabi.Obj(isa, fl)     # one process = one tree state
                out.append(_OBJS[(isa, fl)])
            except FileNotFoundError as e:
                raise MissingAnchor("assembly file %s" % e)
    return out


def rule_A(ctx):
    count = {"unix": 0, "windows_gnu": 0, "windows_msvc": 0}
    nrets = 0
    infos = {}
    for o in objects(ctx):
        for fname in sorted(o.funcs):
            op = op_of(fname)
            if op is None:
                continue
            count[o.flavour] += 1
            sa = STACK_ARGS.get((op, o.flavour))
            if sa is None:
                ctx.ob(False, "asm-unknown-prototype:%s:%s" % (fname, o.flavour), o.src, "no prototype table entry")
                continue
            res, info = asmabi.analyse(o, fname, sa)
            nrets += info["rets"]
            infos["%s:%s" % (fname, o.flavour)] = info
            tag = "%s:%s" % (fname, o.flavour)
            by_rule = {}
            for rule, inst, ok, where, detail in res:
                by_rule.setdefault(rule, []).append((inst, where, detail))
            for rule, text in (("A1", "callee-saved GPRs pushed before their first write and popped in reverse order on every path to ret"),
                               ("A2", "rsp equals its entry value at every ret; frame realignment only under a saved frame pointer"),
                               ("A3", "xmm6-xmm15 spilled before their first write and reloaded from the same slot before ret (Win64)"),
                               ("A4", "caller-frame accesses are exactly the prototype's stack arguments with their widths"),
                               ("A5", "no std/call/syscall, no indirect jumps"),
                               ("A7", "caller memory is accessed with alignment-agnostic instructions only"),
                               ("A9", "no frame slot is stored back from the register just loaded from it")):
                bad = by_rule.get(rule, [])
                if not bad:
                    ctx.ob(True, "%s:%s" % (rule, tag), o.src, text)
                for inst, where, detail in bad:
                    ctx.ob(False, "%s:%s:%s" % (rule, tag, inst), where, detail)
            ctx.ob(info["rets"] >= 1 and info["unvisited"] == 0, "asm-cfg-covered:%s" % tag, o.src, "%d instructions, %d visited, %d ret(s), %d unreachable" % (info["instructions"], info["visited"], info["rets"], info["unvisited"]))
            # every prototype stack argument that the C side passes is actually consumed (sanity of the table)
            used = set(info["stack_args_read"])
            real = set(k for k, v in sa.items() if not v[1].startswith("home:"))
            ctx.ob(real <= used, "asm-stack-args-consumed:%s" % tag, o.src, "stack arguments read at %s ; prototype has %s" % (sorted(used), sorted(real)))
    for fl, n in count.items():
        ctx.floor("assembly kernels (%s)" % fl, n, EXPECTED_FUNCS[fl])
    ctx.floor("ret instructions analysed", nrets, 22)
    ctx.extra["asm"] = {k: dict(instructions=v["instructions"], rets=v["rets"], caller_memory_mnemonics=v["caller_memory_mnemonics"]) for k, v in infos.items()}


def rule_G1asm(ctx):
    for o in objects(ctx):
        for name, (size, ty) in o.sections.items():
            if name in (".data", ".bss") or ("DATA" in ty and name not in (".rodata", ".rdata") and not name.startswith(".rela") and size):
                ctx.ob(size == 0, "asm-no-writable-data:%s_%s:%s" % (o.isa, o.flavour, name), o.src, "section %s has %d bytes" % (name, size))
        ro = [n for n in o.sections if n in (".rodata", ".rdata")]
        ctx.ob(len(ro) == 1 and o.sections[ro[0]][0] > 0, "asm-constants-read-only:%s_%s" % (o.isa, o.flavour), o.src, "constant pool lives in %s (%s bytes)" % (ro, o.sections[ro[0]][0] if ro else 0))


def _b(isa, word):
    # SSE2/SSE4.1/AVX2 keep one copy per lane; the AVX-512 files keep a scalar and broadcast it
    return [word] if isa == "avx512" else [word] * LANES[isa]


POOLS = {
    # symbol -> expected little-endian u32 words
    "BLAKE3_IV": lambda isa: spec.IV[:4],
    "BLAKE3_IV_0": lambda isa: _b(isa, spec.IV[0]), "BLAKE3_IV_1": lambda isa: _b(isa, spec.IV[1]),
    "BLAKE3_IV_2": lambda isa: _b(isa, spec.IV[2]), "BLAKE3_IV_3": lambda isa: _b(isa, spec.IV[3]),
    "BLAKE3_BLOCK_LEN": lambda isa: _b(isa, 64),
    "ADD0": lambda isa: list(range(LANES[isa])),
    "ADD1": lambda isa: [1] if isa == "avx512" else [LANES[isa]] * LANES[isa],
    "ADD16": lambda isa: [16],
    "CMP_MSB_MASK": lambda isa: _b(isa, 0x80000000),
}
LANES = {"sse2": 4, "sse41": 4, "avx2": 8, "avx512": 16}


def rot_bytes(k):
    """pshufb mask (memory order) rotating every 32-bit lane right by k bytes"""
    return bytes(((i % 4 + k) % 4) + 4 * (i // 4) for i in range(16))


def rule_K1asm(ctx):
    n = 0
    pools = {}
    for o in objects(ctx):
        ro = [s for s in o.sections if s in (".rodata", ".rdata")]
        if not ro:
            ctx.ob(False, "asm-pool-section:%s_%s" % (o.isa, o.flavour), o.src, "no read-only data section")
            continue
        data = o.section_bytes(ro[0])
        syms = {}
        for name, (sec, valoff) in o.symbols.items():
            if (sec == ro[0] or (isinstance(sec, int) and name.isupper() or (isinstance(sec, int) and name.startswith("BLAKE3_") or name in ("ADD0", "ADD1", "ADD16", "ROT8", "ROT16", "CMP_MSB_MASK", "INDEX0", "INDEX1")))) and not name.startswith("."):
                if name.startswith("blake3_") or name.startswith("_blake3"):
                    continue
                syms[name] = valoff
        order = sorted(syms.items(), key=lambda kv: kv[1])
        ext = {}
        for i, (name, off) in enumerate(order):
            end = order[i + 1][1] if i + 1 < len(order) else len(data)
            ext[name] = data[off:end]
        pools[(o.isa, o.flavour)] = ext
        for name, raw in sorted(ext.items()):
            tag = "%s_%s:%s" % (o.isa, o.flavour, name)
            if name in POOLS:
                want = POOLS[name](o.isa)
                raw = data[syms[name]:syms[name] + 4 * len(want)]   # tables may alias each other (IV / IV_0..3)
                got = list(struct.unpack("<%dI" % (len(raw) // 4), raw[:len(raw) // 4 * 4]))[:len(want)]
                # the table may be followed by alignment padding: compare the prefix of the expected length
                n += 1
                ctx.ob(got == want, "asm-pool:%s" % tag, o.src, "%s = %s ; spec %s" % (name, [hex(x) for x in got][:8], [hex(x) for x in want][:8]))
            elif name in ("ROT16", "ROT8"):
                k = 2 if name == "ROT16" else 1
                n += 1
                ctx.ob(raw[:16] == rot_bytes(k), "asm-pool:%s" % tag, o.src, "%s = %s ; byte permutation of a 32-bit rotate right by %d" % (name, list(raw[:16]), 8 * k))
            elif name.startswith("PBLENDW_") and name.endswith("_MASK"):
                imm = int(name[len("PBLENDW_"):-len("_MASK")], 16)
                want = b"".join((b"\xff\xff" if imm >> i & 1 else b"\x00\x00") for i in range(8))
                n += 1
                ctx.ob(raw[:16] == want, "asm-pool:%s" % tag, o.src, "%s = %s ; word mask of immediate 0x%02x" % (name, raw[:16].hex(), imm))
            elif name in ("INDEX0", "INDEX1"):
                vals = list(struct.unpack("<%dI" % (len(raw) // 4), raw[:len(raw) // 4 * 4]))[:16]
                n += 1
                ctx.ob(len(vals) == 16 and all(0 <= v < 32 for v in vals) and len(set(vals)) == 16, "asm-pool:%s" % tag, o.src, "%s is a permutation index table: %s" % (name, vals))
            else:
                ctx.ob(False, "asm-pool-unknown:%s" % tag, o.src, "constant pool symbol %s (%d bytes) has no spec entry" % (name, len(raw)))
    ctx.floor("assembly constant-pool tables checked", n, 60)
    for isa in asmabi.ISAS:
        a, b = pools.get((isa, "unix")), pools.get((isa, "windows_gnu"))
        if a is not None and b is not None:
            common = set(a) & set(b)
            diff = [k for k in sorted(common) if a[k].rstrip(b"\0")[:len(POOLS[k](isa)) * 4 if k in POOLS else 64] != b[k].rstrip(b"\0")[:len(POOLS[k](isa)) * 4 if k in POOLS else 64]]
            ctx.ob(not diff, "asm-pools-agree-across-flavours:%s" % isa, "c/blake3_%s_x86-64_*.S" % isa, "tables differing between unix and windows-gnu: %s" % diff)


def rule_A9(ctx, only=None):
    """frame-slot self-copies in the assembly kernels (a load from slot S stored straight back to S is a
    no-op: the neighbouring slot was meant).  `only`: substring filter on the symbol name."""
    n = 0
    for o in objects(ctx):
        for fname in sorted(o.funcs):
            op = op_of(fname)
            if op is None or (only and only not in fname):
                continue
            n += 1
            res, info = asmabi.analyse(o, fname, STACK_ARGS.get((op, o.flavour), {}))
            bad = [(inst, where, detail) for rule, inst, ok, where, detail in res if rule == "A9"]
            tag = "%s:%s" % (fname, o.flavour)
            if not bad:
                ctx.ob(True, "A9:%s" % tag, o.src, "no frame slot is stored back from the register just loaded from it (%d instructions)" % info["instructions"])
            for inst, where, detail in bad:
                ctx.ob(False, "A9:%s:%s" % (tag, inst), where, detail)
    ctx.floor("assembly kernels scanned for slot self-copies", n, 1 if only else 21)


def rule_A10(ctx):
    """every access to the routine's own frame lies inside what the prologue allocated: after `sub rsp, N` (optionally
    followed by a realigning `and rsp, -A`, which can only move rsp further down) each [rsp + d] access of width w has
    0 <= d and d + w <= N -- otherwise it can reach the saved registers / return address above the frame"""
    n = 0
    for o in objects(ctx):
        for fname in sorted(o.funcs):
            if op_of(fname) is None:
                continue
            insns = o.funcs[fname]
            tag = "%s:%s" % (fname, o.flavour)
            subs = [(k, i) for k, i in enumerate(insns) if i.mn == "sub" and i.ops and asmabi.canon_reg(i.ops[0]) == "rsp" and re.fullmatch(r"(0x[0-9a-f]+|\d+)", i.ops[1].strip())]
            frames = []
            for k, i in subs:
                N = int(i.ops[1], 0)
                end = len(insns)
                for k2 in range(k + 1, len(insns)):
                    j = insns[k2]
                    if (j.mn == "mov" and j.ops and asmabi.canon_reg(j.ops[0]) == "rsp") or (j.mn == "add" and j.ops and asmabi.canon_reg(j.ops[0]) == "rsp") or j.mn == "ret":
                        end = k2
                        break
                frames.append((k, end, N))
            if not frames:
                accs = [i for i in insns if any((asmabi.mem_operand(x) or (0, None))[1] == "rsp" and (asmabi.mem_operand(x)[3] < 0) for x in i.ops)]
                ctx.ob(not accs, "A10:%s" % tag, o.src, "no frame is allocated; %d access(es) below rsp" % len(accs))
                n += 1
                continue
            # a frame torn down on one exit path is still live on the others: take the first allocation and the whole body
            k0, _, N = frames[0]
            worst = None
            for i in insns[k0 + 1:]:
                for x in i.ops:
                    m = asmabi.mem_operand(x)
                    if m and m[1] == "rsp" and not m[2]:
                        d, w = m[3], m[4]
                        if i.mn == "lea":
                            continue
                        if d < 0 or d + max(w, 1) > N:
                            # accesses above the frame are legitimate only for stack ARGUMENTS of a frame without saved rbp
                            # (the Windows compress kernels address their stack arguments as [rsp + N + ...]); those are A4's business
                            if d >= N and not any(j.mn == "mov" and j.ops and asmabi.canon_reg(j.ops[0]) == "rbp" and asmabi.canon_reg(j.ops[1]) == "rsp" for j in insns[:k0]):
                                continue
                            if worst is None or d + w > worst[0]:
                                worst = (d + w, i.raw.split("\t", 1)[-1].strip())
            n += 1
            ctx.ob(worst is None, "A10:%s" % tag, o.src, "frame of %d bytes; %s" % (N, "every [rsp+d] access stays inside it" if worst is None else "%s reaches offset %d" % (worst[1], worst[0])))
    ctx.floor("assembly routines with frame-extent check", n, 31)
