"""I rules: io adapters (copy_wide protocol, Write, mmap)."""
from mirlib import *
from r_hash import name_has, name_ends, calls_of


_COMPLEMENT = {"Eq": "Ne", "Ne": "Eq", "Lt": "Ge", "Ge": "Lt", "Le": "Gt", "Gt": "Le"}
_MIRROR = {"Eq": "Eq", "Ne": "Ne", "Lt": "Gt", "Gt": "Lt", "Le": "Ge", "Ge": "Le"}


def has_guard(gs, pat, truth, b=None):
    """the guards contain `pat` with the given truth -- or, for a comparison pattern with a boolean truth, any equivalent
    spelling of the same fact: the complementary operator with the opposite truth (x == 0 true is x != 0 false), and the
    mirrored operand order"""
    pats = [(pat, truth)]
    if isinstance(pat, tuple) and len(pat) == 4 and pat[0] == "bin" and pat[1] in _COMPLEMENT and isinstance(truth, bool):
        op, a_, b_ = pat[1], pat[2], pat[3]
        pats.append((("bin", _COMPLEMENT[op], a_, b_), not truth))
        pats.append((("bin", _MIRROR[op], b_, a_), truth))
        pats.append((("bin", _COMPLEMENT[_MIRROR[op]], b_, a_), not truth))
    for p_, t_ in pats:
        for c, tr in gs:
            if tr is t_ or (not isinstance(t_, bool) and tr == t_):
                m = unify(p_, c, b)
                if m is not None:
                    return m
    return None


_CMP_EQUIV = {
    # (op, truth) -> list of equivalent (op, swapped?, truth)
    ("Le", True): [("Le", False, True), ("Gt", False, False), ("Ge", True, True), ("Lt", True, False)],
    ("Lt", True): [("Lt", False, True), ("Ge", False, False), ("Gt", True, True), ("Le", True, False)],
}


def has_cmp_guard(gs, op, a, b, bind=None):
    """a <op> b holds on this edge, whichever of the equivalent spellings the source uses
    (a <= b, !(a > b), b >= a, !(b < a))"""
    for op2, swapped, truth in _CMP_EQUIV[(op, True)]:
        pat = P.bin(op2, b, a) if swapped else P.bin(op2, a, b)
        m = has_guard(gs, pat, truth, bind)
        if m is not None:
            return m
    return None


def sw(e):
    return ("switchval", ("discr", e))


def swnot(e):
    return ("switchnot", ("discr", e))


def rule_I1(ctx, F):
    fn = F.need_fn("io::copy_wide")
    reads = [(bi, t) for bi, t in fn.calls() if norm_path(t["callee"]["path"]) == "core::io::Read::read"]
    ctx.ob(len(reads) == 1, "one-read-site", fn.loc, "%d call(s) to Read::read" % len(reads))
    upd = [(bi, t) for bi, t in fn.calls() if callee_name(t["callee"]) == "Hasher::update"]
    ctx.ob(len(upd) == 1, "one-update-site", fn.loc, "%d call(s) to Hasher::update" % len(upd))
    if len(reads) != 1 or len(upd) != 1:
        return
    R, tR = reads[0]
    U, tU = upd[0]
    rd = val(fn.expr_call(tR))
    bufl = None
    a1 = val(fn.expr_operand(tR["args"][1]))
    a1 = a1[1] if a1[0] == "cast" else a1
    if a1[0] == "built":
        bufl = a1
    ctx.ob(bufl is not None, "read-whole-buffer", tR.get("s"), "read(&mut %s) -- the whole local buffer" % show(a1))
    N = ("path", rd, (("as", "Ok"), "0"))
    E = ("path", rd, (("as", "Err"), "0"))
    # --- Ok(n), n != 0: exactly update(hasher, &buffer[..n]) with that n
    gU = guards_at(fn, U)
    ok_edge = has_guard(gU, sw(rd), 0) is not None
    nz = guards_imply_zero(gU, N, zero=False)
    ctx.ob(ok_edge and nz, "update-on-ok-nonzero-edge", tU.get("s"), "update is dominated by the Ok(n) edge (%s) and n != 0 (%s)" % (ok_edge, nz))
    ue = val(fn.expr_call(tU))
    want = P.call("Hasher::update", P.arg("hasher"),
                  ("call", name_has("Index<"), (bufl if bufl else W(), ("adt", name_ends("RangeTo"), W(), W(), (N,)))))
    ctx.ob(unify(want, ue) is not None, "update-slice-is-buffer-upto-n", tU.get("s"),
           "update(%s) ; required update(hasher, &buffer[..n]) with n = the value this read returned" % ", ".join(show(a)[:120] for a in ue[2]))
    # --- Ok(0) => return Ok(total);  Err(e): Interrupted => retry without update, otherwise return Err(e)
    alts = ret_alternatives(fn)
    kinds = []
    KIND = ("call", name_ends("io::Error::kind"), (E,))
    INTR = ("call", name_ends("PartialEq>::eq"), (KIND, ("const", W(), ("variant", "Interrupted"))))
    for b, gs, e in alts:
        if e[0] == "adt" and e[2] == "Ok":
            eof = has_guard(gs, sw(rd), 0) is not None and guards_imply_zero(gs, N, zero=True)
            kinds.append("ok")
            ctx.ob(eof, "return-ok-only-at-eof", fn.blocks[b]["term"].get("s"), "Ok(..) returned on the read()==Ok(0) edge only: %s" % eof)
            tot = e[4][0]
            ctx.ob(tot[0] == "phi", "return-ok-total", fn.blocks[b]["term"].get("s"), "Ok(%s)" % show(tot))
        elif e[0] == "adt" and e[2] == "Err":
            kinds.append("err")
            hard = has_guard(gs, sw(rd), 1) is not None and has_guard(gs, INTR, False) is not None
            ctx.ob(hard, "return-err-only-if-not-interrupted", fn.blocks[b]["term"].get("s"),
                   "Err returned on the Err(e) edge with e.kind() == Interrupted false: %s" % hard)
            ctx.ob(e[4][0] == E, "return-err-same-error", fn.blocks[b]["term"].get("s"), "Err(%s) ; required the error read() returned" % show(e[4][0])[:100])
        else:
            kinds.append("other")
            ctx.ob(False, "return-other", fn.blocks[b]["term"].get("s"), "unexpected return value %s" % show(e)[:120])
    ctx.ob(sorted(kinds) == ["err", "ok"], "exits-are-eof-and-hard-error", fn.loc, "return alternatives: %s" % kinds)
    # --- the Interrupted edge goes back to the read without an update and without returning
    rets = fn.returns()
    intr_targets = []
    for bi, b in enumerate(fn.blocks):
        t = b["term"]
        if t["k"] == "switch" and unify(INTR, val(fn.expr_operand(t["op"]))) is not None:
            listed = dict((v, tgt) for v, tgt in t["targets"])
            true_t = t["otherwise"] if 0 in listed else listed.get(1)
            intr_targets.append((bi, true_t))
    ctx.ob(len(intr_targets) == 1, "interrupted-test", fn.loc, "%d branch(es) on e.kind() == Interrupted" % len(intr_targets))
    for bi, tt in intr_targets:
        back = fn.paths_avoiding(tt, R, set())
        no_upd = not fn.paths_avoiding(tt, U, {R})
        no_ret = not any(fn.paths_avoiding(tt, r, {R}) for r in rets)
        ctx.ob(back and no_upd and no_ret, "interrupted-retries-read", fn.blocks[bi]["term"].get("s"),
               "Interrupted edge: reaches read again=%s, skips update=%s, cannot return=%s" % (back, no_upd, no_ret))
    # --- ... and it is the only way from the Err(e) edge back to the read (no other error kind is retried)
    err_targets = []
    for bi, b in enumerate(fn.blocks):
        t = b["term"]
        if t["k"] == "switch" and val(fn.expr_operand(t["op"])) == ("discr", rd) and fn.dominates(bi, U):
            for v, tgt in t["targets"]:
                if v == 1:
                    err_targets.append(tgt)
    ctx.ob(len(err_targets) == 1 and len(intr_targets) == 1, "err-edge-found", fn.loc, "Err edge targets: %s" % err_targets)
    if len(err_targets) == 1 and len(intr_targets) == 1:
        only = not fn.paths_avoiding(err_targets[0], R, {intr_targets[0][1]})
        ctx.ob(only, "only-interrupted-is-retried", fn.blocks[intr_targets[0][0]]["term"].get("s"),
               "every path from the Err(e) edge back to read() passes the e.kind() == Interrupted true edge: %s" % only)
    # --- after the update the loop goes back to the read (no exit in between); Ok(n!=0) always updates
    after = fn.succ(U)
    ctx.ob(all(not any(fn.paths_avoiding(a, r, {R}) for r in rets) for a in after) and all(fn.paths_avoiding(a, R, set()) for a in after),
           "update-then-read-again", tU.get("s"), "after update the only way on is the next read")
    for bi, b in enumerate(fn.blocks):
        t = b["term"]
        if t["k"] == "switch" and val(fn.expr_operand(t["op"])) == N:
            nzt = t["otherwise"]
            ctx.ob(not fn.paths_avoiding(nzt, R, {U}) and not any(fn.paths_avoiding(nzt, r, {U}) for r in rets),
                   "nonzero-read-always-updates", t.get("s"), "no path from the n != 0 edge reaches the next read or a return without update")
    # total += n
    tot_alts = None
    tot_local = None
    for b, gs, e in alts:            # the accumulator is whatever local Ok(..) carries (its name is free)
        if e[0] == "adt" and e[2] == "Ok" and e[4] and e[4][0][0] == "phi":
            tot_local = e[4][0][1]
    if tot_local is not None:
        tot_alts = [val(a) for a in fn.phi_alts(tot_local)]
    want_add = P.bin("Add", ("phi", tot_local, W()), P.cast(N, "u64"))
    ctx.ob(tot_alts is not None and any(unify(want_add, a) is not None for a in tot_alts) and any(a == ("const", None, 0) for a in tot_alts),
           "total-accumulates-n", fn.loc, "total in {%s}" % (", ".join(show(a)[:60] for a in tot_alts) if tot_alts else "?"))


def on_success_edge(gs, call):
    """the guards include the success edge of the fallible `call`: the Continue arm of `call?` or the Ok arm of a match on it"""
    br = ("call", name_has("Try>::branch"), (call,))
    return has_guard(gs, sw(br), 0) is not None or has_guard(gs, sw(call), 0) is not None


PURE_CALLEES = ("::len", "::is_empty", "panicking::assert_failed", "panicking::panic", "panicking::panic_fmt", "Arguments::<'a>::from_str", "Arguments::<'a>::new")


def rule_I2(ctx, F):
    fn = None
    for p, f in F.fns.items():
        if norm_path(p) == "<Hasher as core::io::Write>::write":
            fn = f
    if fn is None:
        raise MissingAnchor("<Hasher as std::io::Write>::write")
    cs = calls_of(fn)
    ups = [c for c in cs if unify(P.call("Hasher::update", ("arg", 1, "self"), P.arg("input")), c[1]) is not None]
    others = [c for c in cs if c not in ups and not any(norm_path(c[1][1]).endswith(s_) or s_ in norm_path(c[1][1]) for s_ in PURE_CALLEES)]
    ctx.ob(len(ups) == 1 and not others, "write-forwards-update", fn.loc, "calls: %s" % [show(c[1]) for c in cs])
    e = val(fn.expr_local(0))
    want = ("adt", W(), "Ok", ("0",), (("call", name_ends("::len"), (P.arg("input"),)),))
    ctx.ob(unify(want, e) is not None, "write-returns-full-length", fn.loc, "returns %s ; required Ok(input.len())" % show(e))
    fl = None
    for p, f in F.fns.items():
        if norm_path(p) == "<Hasher as core::io::Write>::flush":
            fl = f
    if fl is None:
        raise MissingAnchor("<Hasher as std::io::Write>::flush")
    e = val(fl.expr_local(0))
    ctx.ob(e[0] == "adt" and e[2] == "Ok" and not calls_of(fl), "flush-is-ok", fl.loc, "flush returns %s" % show(e))
    ur = F.need_fn("Hasher::update_reader")
    cs = calls_of(ur)
    cw = [c for c in cs if unify(P.call("io::copy_wide", P.arg("reader"), ("arg", 1, "self")), c[1]) is not None]
    ctx.ob(len(cw) == 1, "update_reader-forwards", ur.loc, "update_reader calls copy_wide(reader, self): %d" % len(cw))
    alts = ret_alternatives(ur)
    okv = [(gs, e) for b, gs, e in alts if e[0] == "adt" and e[2] == "Ok"]
    BR = ("call", name_has("Try>::branch"), (cw[0][1],)) if cw else W()
    ctx.ob(len(okv) >= 1 and bool(cw) and all(on_success_edge(g_, cw[0][1]) for g_, e_ in okv), "update_reader-propagates-error", ur.loc,
           "Ok(self) only on the Continue edge of copy_wide(..)?")


def rule_I4(ctx, F):
    """overrides of the provided std::io::Write methods on Hasher (write_vectored, write_all, ...).  Each one that hashes inside a
    loop must report a byte count that ACCUMULATES over the iterations: a count overwritten by the last iteration's result tells the
    caller that earlier buffers were not consumed, and a contract-abiding caller offers them again (they are hashed twice).
    Decided positively only: the obligation fails when the returned local is assigned inside the loop from a value that does not
    depend on its own previous value; counts produced by other means (iterator sum, ...) are reported as not decided, not as alarms."""
    n = 0
    for p, f in sorted(F.fns.items()):
        np_ = norm_path(p)
        if not (np_.startswith("<Hasher as core::io::Write>::") and f.has_body):
            continue
        meth = np_.rsplit("::", 1)[1]
        if meth in ("write", "flush"):
            continue
        n += 1
        hashing = [bi for bi, t in f.calls() if callee_name(t["callee"]) in ("Hasher::update", "Hasher::update_rayon") or norm_path(callee_name(t["callee"])).startswith("<Hasher as core::io::Write>::write")]
        reach = {b: f.reachable(b) for b in hashing}
        in_loop = [b for b in hashing if any(b in f.reachable(s_) for s_ in f.succ(b))]
        if not in_loop:
            ctx.ob(True, "write-override:%s" % meth, f.loc, "%s hashes outside any loop (%d call(s)); nothing to accumulate" % (meth, len(hashing)))
            continue
        # the local carried by Ok(..) in the returned aggregate
        carried = set()
        for bi, si, s_ in f.stmts():
            rv = s_["rv"]
            if s_["place"]["l"] == 0 and rv.get("k") == "agg" and rv.get("variant") == "Ok" and rv.get("ops"):
                op = rv["ops"][0]
                if op.get("k") in ("copy", "move") and not op["place"]["p"]:
                    carried.add(op["place"]["l"])
        if not carried:
            ctx.info("write override %s: returned count is not a plain local; not decided" % meth)
            ctx.ob(True, "write-override:%s" % meth, f.loc, "count produced by other means; not decided")
            continue
        # follow single-definition plain copies backwards to the accumulator
        defs_of = {}
        for bi, si, s_ in f.stmts():
            if not s_["place"]["p"]:
                defs_of.setdefault(s_["place"]["l"], []).append(s_)
        work = list(carried)
        while work:
            l = work.pop()
            ds = defs_of.get(l, [])
            if len(ds) == 1 and ds[0]["rv"].get("k") == "use" and ds[0]["rv"]["op"].get("k") in ("copy", "move") and not ds[0]["rv"]["op"]["place"]["p"]:
                src = ds[0]["rv"]["op"]["place"]["l"]
                if src not in carried:
                    carried.add(src)
                    work.append(src)
        bad = []
        for l in sorted(carried):
            for bi, si, s_ in f.stmts():
                if s_["place"]["l"] == l and not s_["place"]["p"] and any(bi in f.reachable(s2) for s2 in f.succ(bi)):
                    e = show(val(f.expr_rvalue(s_["rv"])))
                    selfdep = ("phi(_%d" % l) in e or ("_%d:" % l) in e
                    if not ("Add" in e and selfdep):
                        bad.append("%s: count := %s inside the loop" % (s_.get("s", "?"), e[:90]))
        ctx.ob(not bad, "write-override:%s" % meth, f.loc, "; ".join(bad) or "%s accumulates its count across iterations" % meth)
    ctx.info("Write overrides beyond write/flush: %d" % n)


def rule_I3(ctx, F):
    mm = F.need_fn("io::maybe_mmap_file")
    K = P.bin("Sub", P.named("io::MINIMUM_MMAP_SIZE"), P.const(1))
    seeks = [(bi, val(mm.expr_call(t)), t.get("s")) for bi, t in mm.calls() if norm_path(callee_name(t["callee"])).endswith("io::Seek>::seek")]
    ctx.ob(len(seeks) == 1, "mmap-one-seek", mm.loc, "%d seek call(s)" % len(seeks))
    if len(seeks) != 1:
        return
    S, se, sloc = seeks[0]
    want_seek = ("call", W(), (P.arg("file"), ("adt", name_ends("SeekFrom"), "End", ("0",), (("un", "Neg", P.cast(K, "i64")),))))
    ctx.ob(unify(want_seek, se) is not None, "mmap-seek-target", sloc, "seek(%s) ; required SeekFrom::End(-(MINIMUM_MMAP_SIZE - 1))" % show(se[2][1])[:120])
    OFF = ("path", se, (("as", "Ok"), "0"))
    # length handed to the mapping = seek result + the same k
    lens = [(bi, val(mm.expr_call(t)), t.get("s")) for bi, t in mm.calls() if norm_path(callee_name(t["callee"])).endswith("MmapOptions::len")]
    ctx.ob(len(lens) == 1, "mmap-one-len", mm.loc, "%d MmapOptions::len call(s)" % len(lens))
    for bi, le, lloc in lens:
        want_len = P.cast(P.bin("Add", OFF, K), "usize")
        ctx.ob(unify(want_len, le[2][1]) is not None, "mmap-length-formula", lloc, "len(%s) ; required (offset_len + (MINIMUM_MMAP_SIZE - 1)) as usize" % show(le[2][1])[:160])
        gs = guards_at(mm, bi)
        bound = P.bin("Sub", P.cast(("const", name_ends("isize>::MAX"), W()), "u64"), K)
        ctx.ob(has_cmp_guard(gs, "Le", OFF, bound) is not None, "mmap-usize-cast-guarded", lloc, "cast dominated by offset_len <= isize::MAX - k")
        ctx.ob(has_guard(gs, sw(se), 0) is not None and has_guard(gs, P.bin("Eq", OFF, P.const(0)), False) is not None, "mmap-only-after-nonzero-seek", lloc,
               "mapping attempted only on seek Ok(n), n != 0")
    # every Ok(None) is: seek failed | seek returned 0 | after rewind()? succeeded
    RW = None
    for bi, t in mm.calls():
        if norm_path(callee_name(t["callee"])).endswith("io::Seek::rewind") or norm_path(callee_name(t["callee"])).endswith("io::Seek>::rewind"):
            RW = val(mm.expr_call(t))
    ctx.ob(RW is not None, "mmap-rewind-present", mm.loc, "rewind() call present")
    BRW = ("call", name_has("Try>::branch"), (RW,)) if RW else W()
    n_none = 0
    for b, gs, e in ret_alternatives(mm):
        where = mm.blocks[b]["term"].get("s")
        if e[0] == "adt" and e[2] == "Ok" and e[4][0][0] == "adt" and e[4][0][2] == "None":
            n_none += 1
            seek_failed = any(c == ("switchnot", ("discr", se)) and tr == (0,) for c, tr in gs) or has_guard(gs, sw(se), 1) is not None
            zero = has_guard(gs, P.bin("Eq", OFF, P.const(0)), True) is not None
            rewound = has_guard(gs, sw(BRW), 0) is not None
            ctx.ob(seek_failed or zero or rewound, "mmap-none-implies-cursor-at-start#%d" % n_none, where,
                   "Ok(None): seek failed=%s, seek returned 0=%s, rewind()? succeeded=%s" % (seek_failed, zero, rewound))
        elif e[0] == "adt" and e[2] == "Ok":
            mp = e[4][0]
            ok = mp[0] == "adt" and mp[2] == "Some" and mp[4][0][0] == "path" and "map" in show(mp[4][0])
            ctx.ob(ok, "mmap-some-is-the-mapping", where,
                   "Ok(Some(mapping)) on the map() success edge" if ok else
                   "Ok(%s): an Option that may be None is returned without the seek-failed / zero / rewind()? guarantee -- the caller would fall back to reads from a moved cursor" % show(mp)[:80])
    ctx.floor("Ok(None) exits of maybe_mmap_file", n_none, 3)
    # callers
    for name, upd in (("Hasher::update_mmap", "Hasher::update"), ("Hasher::update_mmap_rayon", "Hasher::update_rayon")):
        fn = F.fn(name)
        if fn is None:
            raise MissingAnchor(name)
        cs = calls_of(fn)
        opens = [c for c in cs if norm_path(c[1][1]).endswith("fs::File::open")]
        ctx.ob(len(opens) == 1 and find_sub(opens[0][1], P.arg("path")) is not None, "mmap-opens-path:%s" % name, fn.loc, "File::open(path.as_ref())")
        mmc = [c for c in cs if c[1][1] == "io::maybe_mmap_file"]
        ctx.ob(len(mmc) == 1, "mmap-calls-maybe_mmap:%s" % name, fn.loc, "%d call(s)" % len(mmc))
        if len(mmc) != 1:
            continue
        FILE = mmc[0][1][2][0]
        BM = ("call", name_has("Try>::branch"), (mmc[0][1],))
        MAPV = ("path", BM, (("as", "Continue"), "0", ("as", "Some"), "0"))
        ups = [c for c in cs if c[1][1] in ("Hasher::update", "Hasher::update_rayon")]
        ok = len(ups) == 1 and ups[0][1][1] == upd and unify(("call", upd, (("arg", 1, "self"), ("call", name_ends("Deref>::deref"), (MAPV,)))), ups[0][1]) is not None
        ctx.ob(ok, "mmap-hashes-whole-map:%s" % name, ups[0][2] if ups else fn.loc,
               "%s ; required %s(self, &*mmap)" % ([show(c[1])[:100] for c in ups], upd.split("::")[-1]))
        if ups:
            gs = guards_at(fn, ups[0][0])
            ctx.ob(any(unify(("switchval", ("discr", ("path", BM, (("as", "Continue"), "0")))), c) is not None and tr == 1 for c, tr in gs), "mmap-update-on-some:%s" % name, ups[0][2], "update on the Some(mmap) edge")
        cw = [c for c in cs if c[1][1] == "io::copy_wide"]
        ok = len(cw) == 1 and cw[0][1][2] == (FILE, ("arg", 1, "self"))
        ctx.ob(ok, "mmap-fallback-reads-file:%s" % name, cw[0][2] if cw else fn.loc, "fallback %s ; required copy_wide(&file, self)" % [show(c[1])[:80] for c in cw])
        if cw:
            gs = guards_at(fn, cw[0][0])
            NONE_EDGE = ("discr", ("path", BM, (("as", "Continue"), "0")))
            ctx.ob(any(unify(("switchnot", NONE_EDGE), c) is not None and tr == (1,) for c, tr in gs) or any(unify(("switchval", NONE_EDGE), c) is not None and tr == 0 for c, tr in gs),
                   "mmap-fallback-on-none:%s" % name, cw[0][2], "copy_wide on the None edge")
        # error propagation: Ok(self) needs Continue of open and maybe_mmap; copy_wide's result goes through `?`
        alts = ret_alternatives(fn)
        okv = [(gs, e) for b, gs, e in alts if e[0] == "adt" and e[2] == "Ok"]
        BO = ("call", name_has("Try>::branch"), (opens[0][1],)) if opens else W()
        ctx.ob(len(okv) >= 1 and bool(opens) and all(on_success_edge(g_, opens[0][1]) and on_success_edge(g_, mmc[0][1]) for g_, e_ in okv), "mmap-propagates-errors:%s" % name, fn.loc,
               "Ok(self) only after open()? and maybe_mmap_file()? succeeded")
        BC = [c for c in cs if "Try>::branch" in c[1][1] and cw and c[1][2] == (cw[0][1],)]
        ctx.ob(len(BC) == 1, "mmap-fallback-error-propagates:%s" % name, fn.loc, "copy_wide(..)? result is branched on: %d" % len(BC))
