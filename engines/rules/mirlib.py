"""E2 library: load mirfacts JSON, CFG/dominators, value-flow expressions (provenance),
field write summaries, call graph.  Python 3 stdlib only."""
import json
import re
import sys
from collections import defaultdict

sys.setrecursionlimit(10000)


def norm_path(p):
    """std:: / core:: / alloc:: spelling differs per configuration (no_std vs std re-exports)."""
    if not isinstance(p, str):
        return ""
    return re.sub(r"\b(std|core|alloc)::", "core::", p)


class Fn:
    def __init__(self, j, facts):
        self.j = j
        self.facts = facts
        self.path = j["path"]
        self.kind = j.get("kind")
        self.loc = j.get("s", "?")
        self.file = j.get("file", self.loc.rsplit(":", 1)[0])
        mir = j.get("mir")
        self.has_body = mir is not None
        if mir:
            self.blocks = mir["blocks"]
            self.locals = mir["locals"]
            self.argc = mir["argc"]
            self.names = {}
            for n in mir["names"]:
                pl = n["place"]
                if not pl["p"]:
                    self.names.setdefault(pl["l"], n["name"])
        else:
            self.blocks, self.locals, self.argc, self.names = [], [], 0, {}
        self._defs = None
        self._dom = None
        self._pdom = None
        self._preds = None
        self._expr_cache = {}

    # ---- CFG ----
    def succ(self, b, cleanup=False):
        t = self.blocks[b]["term"]
        k = t["k"]
        out = []
        if k == "goto":
            out = [t["t"]]
        elif k == "switch":
            out = [x[1] for x in t["targets"]] + [t["otherwise"]]
        elif k in ("call", "drop", "assert"):
            if t.get("t") is not None:
                out = [t["t"]]
        elif k == "other":
            out = list(t.get("succ", []))
        seen = []
        for x in out:
            if x not in seen:
                seen.append(x)
        return seen

    def preds(self):
        if self._preds is None:
            p = defaultdict(list)
            for b in range(len(self.blocks)):
                for s in self.succ(b):
                    p[s].append(b)
            self._preds = p
        return self._preds

    def reachable(self, start=0):
        seen = {start}
        st = [start]
        while st:
            b = st.pop()
            for s in self.succ(b):
                if s not in seen:
                    seen.add(s)
                    st.append(s)
        return seen

    def dominators(self):
        """dom[b] = set of blocks dominating b (iterative; bodies are small)."""
        if self._dom is None:
            n = len(self.blocks)
            reach = self.reachable()
            allb = set(reach)
            dom = {b: set(allb) for b in reach}
            dom[0] = {0}
            preds = self.preds()
            changed = True
            order = sorted(reach)
            while changed:
                changed = False
                for b in order:
                    if b == 0:
                        continue
                    ps = [dom[p] for p in preds[b] if p in reach]
                    new = set.intersection(*ps) if ps else set()
                    new = new | {b}
                    if new != dom[b]:
                        dom[b] = new
                        changed = True
            self._dom = dom
        return self._dom

    def dominates(self, a, b):
        d = self.dominators()
        return b in d and a in d[b]

    def returns(self):
        return [b for b in self.reachable() if self.blocks[b]["term"]["k"] == "return"]

    def edge_dominates(self, a, s, b):
        """Does the CFG edge a->s dominate block b?  (every path entry->b goes through edge a->s)"""
        # remove the edge and see whether b is still reachable
        seen = {0}
        st = [0]
        if b == 0:
            return False
        while st:
            x = st.pop()
            for y in self.succ(x):
                if x == a and y == s:
                    continue
                if y not in seen:
                    if y == b:
                        return False
                    seen.add(y)
                    st.append(y)
        return b in self.reachable()

    def paths_avoiding(self, src, dst, avoid):
        """Is dst reachable from src without passing through any block in `avoid`?"""
        if src in avoid:
            return False
        seen = {src}
        st = [src]
        while st:
            x = st.pop()
            if x == dst:
                return True
            for y in self.succ(x):
                if y not in seen and y not in avoid:
                    seen.add(y)
                    st.append(y)
        return False

    # ---- defs ----
    def defs(self):
        """local -> list of ('assign', bb, idx, stmt) | ('call', bb, term)"""
        if self._defs is None:
            d = defaultdict(list)
            for bi, b in enumerate(self.blocks):
                for si, s in enumerate(b["stmts"]):
                    if s["k"] == "assign":
                        pl = s["place"]
                        d[pl["l"]].append(("assign", bi, si, s))
                        rv = s["rv"]
                        # `&mut local` / `&mut local.field`: whoever receives the borrow may rewrite the
                        # local, so its value is no longer its single definition
                        if rv["k"] in ("ref", "rawptr") and rv.get("mut") and "deref" not in rv["place"]["p"]:
                            d[rv["place"]["l"]].append(("mutborrow", bi, si, s))
                t = b["term"]
                if t["k"] == "call":
                    d[t["dest"]["l"]].append(("call", bi, t))
            self._defs = d
        return self._defs

    def calls(self):
        for bi, b in enumerate(self.blocks):
            t = b["term"]
            if t["k"] in ("call", "tailcall"):
                yield bi, t

    def stmts(self):
        for bi, b in enumerate(self.blocks):
            for si, s in enumerate(b["stmts"]):
                yield bi, si, s

    # ---- expressions ----
    def expr_operand(self, op, depth=0, stack=()):
        k = op["k"]
        if k == "const":
            if "fn" in op:
                return ("fnitem", op["fn"])
            if "static" in op:
                return ("static", op["static"])
            v = op.get("val")
            if v is None and "bytes" in op:
                v = bytes(op["bytes"])
                bt = op["ty"].lstrip("&").replace("'static ", "").strip()
                if re.fullmatch(r"[ui](8|16|32|64|128|size)", bt) and len(v) in (1, 2, 4, 8, 16):
                    v = int.from_bytes(v, "little", signed=bt.startswith("i"))  # promoted &CONST
            if "variant" in op:
                v = ("variant", op["variant"])
            return ("const", op.get("name"), v, op["ty"])
        if k in ("copy", "move"):
            return self.expr_place(op["place"], depth, stack)
        return ("unknown", op.get("dbg", ""))

    def expr_place(self, pl, depth=0, stack=()):
        base = self.expr_local(pl["l"], depth, stack)
        return apply_proj(self, base, pl["p"], depth, stack)

    def expr_local(self, l, depth=0, stack=()):
        """Value-flow expression of a local.  Locals with several whole definitions (loop-carried
        or branch-merged variables) are *leaves* ('phi', l, name); their alternatives are available
        through phi_alts().  Every def-use cycle passes through such a local, so expansion is a
        finite DAG walk and results can be cached unconditionally."""
        if l in self._expr_cache:
            return self._expr_cache[l]
        ds = self.defs().get(l, [])
        # writes *through* a pointer local ((*_5).f = ..) do not redefine the local itself
        whole = [d for d in ds if d[0] == "call" or (d[0] == "assign" and not d[3]["place"]["p"])]
        partial = [d for d in ds if (d[0] == "assign" and d[3]["place"]["p"] and d[3]["place"]["p"][0] != "deref")
                   or d[0] == "mutborrow"]
        if 1 <= l <= self.argc:
            if whole or partial:
                r = ("phi", l, self.names.get(l))  # `mut` parameter reassigned in the body
            else:
                r = ("arg", l, self.names.get(l, "_%d" % l))
            self._expr_cache[l] = r
            return r
        if not ds:
            r = ("local", l, self.names.get(l))
        elif partial:
            # a local built field by field / element by element
            r = ("built", l, self.names.get(l))
        elif len(whole) > 1:
            r = ("phi", l, self.names.get(l))
        elif depth > 200:
            r = ("deep", l)
        else:
            d = whole[0]
            self._expr_cache[l] = ("rec", l)  # guards malformed self-reference
            if d[0] == "call":
                r = self.expr_call(d[2], depth + 1)
            else:
                r = self.expr_rvalue(d[3]["rv"], depth + 1)
            sz, _ = _measure(r)
            if sz > EXPR_NODE_LIMIT:
                # keep expressions tree-sized: an over-large value is an opaque, named node
                r = ("big", l, self.names.get(l))
        self._expr_cache[l] = r
        return r

    def init_expr(self, l):
        """initial whole definition of a local that is later mutated in place (('built', l, _))"""
        whole = [d for d in self.defs().get(l, []) if d[0] == "call" or (d[0] == "assign" and not d[3]["place"]["p"])]
        if len(whole) != 1:
            return None
        d = whole[0]
        return self.expr_call(d[2]) if d[0] == "call" else self.expr_rvalue(d[3]["rv"])

    def expand_built(self, e, depth=0):
        """replace ('built', l, name) nodes by ('mutated', initial value) where a single initial
        definition exists (iterators, accumulators)"""
        if not isinstance(e, tuple) or depth > 12:
            return e
        if e and e[0] == "built":
            i = self.init_expr(e[1])
            if i is not None:
                return ("mutated", self.expand_built(i, depth + 1))
            return e
        return tuple(self.expand_built(x, depth + 1) for x in e)

    def phi_alts(self, l):
        """alternatives of a multi-definition local, each with other phis left as leaves"""
        out = []
        if 1 <= l <= self.argc:
            out.append(("arg", l, self.names.get(l, "_%d" % l)))
        for d in self.defs().get(l, []):
            if d[0] == "call":
                out.append(self.expr_call(d[2]))
            elif d[0] == "assign" and not d[3]["place"]["p"]:
                out.append(self.expr_rvalue(d[3]["rv"]))
        return out

    def expr_call(self, t, depth=0, stack=()):
        c = t["callee"]
        name = callee_name(c)
        args = tuple(self.expr_operand(a, depth + 1, stack) for a in t["args"])
        acc = self.facts.accessor(name) if self.facts is not None else None
        if acc is not None and len(args) == 1:
            # a crate-local accessor (`fn as_bytes(&self) -> &[u8; 32] { &self.0 }`): the call IS the field path of its argument
            return ("path", args[0], acc)
        return ("call", name, args)

    def expr_rvalue(self, rv, depth=0, stack=()):
        k = rv["k"]
        if k == "use":
            return self.expr_operand(rv["op"], depth, stack)
        if k in ("ref", "rawptr"):
            inner = self.expr_place(rv["place"], depth, stack)
            return ("ref", inner, bool(rv.get("mut")))
        if k == "cast":
            return ("cast", rv["kind"], self.expr_operand(rv["op"], depth, stack), rv["from"], rv["ty"])
        if k == "bin":
            return ("bin", rv["op"], self.expr_operand(rv["a"], depth, stack), self.expr_operand(rv["b"], depth, stack), rv.get("ty"))
        if k == "un":
            return ("un", rv["op"], self.expr_operand(rv["a"], depth, stack), rv.get("ty"))
        if k == "discr":
            return ("discr", self.expr_place(rv["place"], depth, stack))
        if k == "agg":
            ops = tuple(self.expr_operand(o, depth, stack) for o in rv["ops"])
            if rv["agg"] == "adt":
                return ("adt", rv["adt"], rv["variant"], tuple(rv["fields"]), ops)
            if rv["agg"] == "closure":
                return ("closure", rv["closure"], ops)
            return (rv["agg"], ops)
        if k == "repeat":
            return ("repeat", self.expr_operand(rv["op"], depth, stack), rv["n"])
        return ("unknown", rv.get("dbg", ""))


EXPR_NODE_LIMIT = 4000
_MEASURE = {}
_KEEP = []


def _measure(e):
    """(node count as a tree, contains a ('rec',) marker) -- memoised on object identity"""
    if not isinstance(e, tuple):
        return 1, False
    k = id(e)
    m = _MEASURE.get(k)
    if m is not None:
        return m
    n = 1
    rec = bool(e) and e[0] == "rec"
    for x in e:
        if isinstance(x, tuple):
            a, b = _measure(x)
            n += a
            rec = rec or b
    _MEASURE[k] = (n, rec)
    _KEEP.append(e)
    return n, rec


def callee_name(c):
    if c["k"] != "fn":
        return "<indirect>"
    r = c.get("resolved")
    return r if r else c["path"]


def strip_ref(e):
    while isinstance(e, tuple) and e and e[0] == "ref":
        e = e[1]
    return e


def apply_proj(fn, base, projs, depth=0, stack=()):
    """Normalise projections over an expression: deref(ref x) = x; field of adt literal = operand;
    WithOverflow tuples .0 = plain op; otherwise ('path', root, (elems...))."""
    cur = base
    for p in projs:
        if p == "deref":
            if isinstance(cur, tuple) and cur[0] == "ref":
                cur = cur[1]
            else:
                cur = path_append(cur, "*")
            continue
        if isinstance(p, dict) and "f" in p:
            name = p["f"]
            s = strip_through_deref(cur)
            if s[0] == "adt" and name in s[3]:
                cur = s[4][s[3].index(name)]
                continue
            if s[0] == "tuple" and name.isdigit() and int(name) < len(s[1]):
                cur = s[1][int(name)]
                continue
            if s[0] == "bin" and s[1].endswith("WithOverflow"):
                if name == "0":
                    cur = ("bin", s[1][: -len("WithOverflow")], s[2], s[3], s[4] if len(s) > 4 else None)
                else:
                    cur = ("overflowed", s)
                continue
            cur = path_append(cur, name)
            continue
        if isinstance(p, dict) and "idx" in p:
            cur = path_append(cur, ("idx", fn.expr_local(p["idx"], depth + 1, stack)))
            continue
        if isinstance(p, dict) and "cidx" in p:
            cur = path_append(cur, ("cidx", p["cidx"], p["from_end"]))
            continue
        if isinstance(p, dict) and "sub_from" in p:
            cur = path_append(cur, ("sub", p["sub_from"], p["sub_to"], p["from_end"]))
            continue
        if isinstance(p, dict) and "down" in p:
            cur = path_append(cur, ("as", p["down"]))
            continue
        cur = path_append(cur, ("?", str(p)))
    return cur


def strip_through_deref(e):
    return e


def path_append(e, elem):
    if isinstance(e, tuple) and e and e[0] == "path":
        return ("path", e[1], e[2] + (elem,))
    return ("path", e, (elem,))


def path_fields(e):
    """('path', root, elems) -> (root, tuple of field-name elems with derefs dropped) else (e, ())"""
    e = strip_ref(e)
    if isinstance(e, tuple) and e and e[0] == "path":
        root = strip_ref(e[1])
        el = tuple(x for x in e[2] if x != "*")
        if isinstance(root, tuple) and root[0] == "path":
            r2, el2 = path_fields(root)
            return r2, el2 + el
        return root, el
    return e, ()


def show(e, depth=0):
    """compact printable form of an expression"""
    if not isinstance(e, tuple):
        return str(e)
    if depth > 8:
        return "..."
    k = e[0]
    if k == "arg":
        return e[2]
    if k == "const":
        if e[1]:
            return e[1].split("::")[-1]
        v = e[2]
        if isinstance(v, bytes):
            return repr(v[:16])
        return str(v)
    if k == "path":
        r, el = path_fields(e)
        s = show(r, depth + 1)
        for x in el:
            if isinstance(x, str):
                s += "." + x
            elif x[0] == "idx":
                s += "[%s]" % show(x[1], depth + 1)
            elif x[0] == "cidx":
                s += "[%s%d]" % ("-" if x[2] else "", x[1])
            elif x[0] == "as":
                s += " as " + x[1]
            else:
                s += "[%s]" % (x,)
        return s
    if k == "ref":
        return ("&mut " if e[2] else "&") + show(e[1], depth + 1)
    if k == "bin":
        return "(%s %s %s)" % (show(e[2], depth + 1), e[1], show(e[3], depth + 1))
    if k == "un":
        return "%s(%s)" % (e[1], show(e[2], depth + 1))
    if k == "cast":
        return "(%s as %s)" % (show(e[2] if len(e) == 5 else e[1], depth + 1), e[-1])
    if k == "discr":
        return "discr(%s)" % show(e[1], depth + 1)
    if k in ("switchval", "switchnot"):
        return "%s(%s)" % (k, show(e[1], depth + 1))
    if k == "call":
        return "%s(%s)" % (e[1].split("::")[-1] if not e[1].startswith("<") else e[1], ", ".join(show(a, depth + 1) for a in e[2]))
    if k == "phi":
        return "phi(_%d%s)" % (e[1], ":" + e[2] if e[2] else "")
    if k == "adt":
        return "%s{%s}" % (e[1], ", ".join("%s: %s" % (f, show(o, depth + 1)) for f, o in zip(e[3], e[4])))
    if k in ("local", "built", "big"):
        return "%s(_%d%s)" % (k, e[1], ":" + e[2] if e[2] else "")
    if k == "rec":
        return "rec(_%d)" % e[1]
    return str(e)[:120]


def walk_expr(e, f):
    """pre-order visit of every tuple node"""
    if isinstance(e, tuple):
        f(e)
        for x in e:
            if isinstance(x, tuple):
                walk_expr(x, f)


def expr_contains(e, pred):
    found = []

    def v(x):
        if pred(x):
            found.append(x)
    walk_expr(e, v)
    return bool(found)


class Facts:
    def __init__(self, path, cfg=None):
        self.cfg = cfg
        with open(path) as fh:
            self.j = json.load(fh)
        self.crate = self.j["crate"]
        # private helpers that are new relative to the inventory the rules were written against are inlined into their callers
        import inliner
        self.inlined = inliner.inline_new_helpers(self.crate, self.j["fns"])
        self.fns = {}
        cnt = defaultdict(int)
        for f in self.j["fns"]:
            p = f["path"]
            cnt[p] += 1
            key = p if cnt[p] == 1 else "%s#%d" % (p, cnt[p])
            f = dict(f)
            f["path"] = key
            self.fns[key] = Fn(f, self)
        self.adts = {a["path"]: a for a in self.j["adts"]}
        self.consts = {}
        for c in self.j["consts"]:
            self.consts.setdefault(c["path"], c)
        self.statics = self.j["statics"]
        self.impls = self.j["impls"]
        self.foreign = {f["name"]: f for f in self.j["foreign"]}
        self.traits = self.j["traits"]
        self._wsum = None
        self._cg = None

    def accessor(self, name):
        """field path returned by a one-argument crate-local function whose whole body is `&self.a.b` / `self.a.b` (no calls,
        one basic block chain), else None.  Lets rules see through `as_bytes()`-style getters, known or new."""
        cache = self.__dict__.setdefault("_acc", {})
        if name in cache:
            return cache[name]
        cache[name] = None
        f = self.fns.get(name)
        if f is None or not f.has_body or f.argc != 1 or any(True for _ in f.calls()) or len(f.blocks) > 3:
            return None
        import inliner
        if name in inliner.baseline().get(self.crate, ()) and name not in SEE_THROUGH:
            return None         # rules name the getters of the pinned tree explicitly; only new ones (and SEE_THROUGH) are transparent
        if f.j.get("impl_trait"):
            return None
        try:
            e = val(f.expr_local(0))
        except Exception:
            return None
        if isinstance(e, tuple) and e and e[0] == "path" and isinstance(e[1], tuple) and e[1][:2] == ("arg", 1) and all(isinstance(x, str) for x in e[2]):
            cache[name] = tuple(e[2])
        return cache[name]

    def cfg_features(self):
        """cargo features of this configuration (from the extraction table)"""
        try:
            import extract
            args = extract.CONFIGS.get(self.cfg, {}).get("args", [])
        except Exception:
            args = []
        out = set()
        for i, a in enumerate(args):
            if a == "--features" and i + 1 < len(args):
                out |= set(args[i + 1].split(","))
        return out

    def cfg_flavour(self):
        f = self.cfg_features()
        if self.cfg in ("portable1", "portable32"):
            return "portable1"
        if self.cfg == "x86-32":
            return "x86-32"
        if self.cfg == "neon1":
            return "neon1"
        if "pure" in f:
            return "pure"
        if "prefer_intrinsics" in f:
            return "intrinsics"
        return "asm"

    def fn(self, path):
        f = self.fns.get(path)
        if f is None or not f.has_body:
            return None
        return f

    def need_fn(self, path):
        f = self.fn(path)
        if f is None:
            raise MissingAnchor("function %s not found in crate %s (config %s)" % (path, self.crate, self.cfg))
        return f

    def const_val(self, name):
        c = self.consts.get(name)
        if c is None:
            raise MissingAnchor("const %s not found (config %s)" % (name, self.cfg))
        return c.get("val")

    def const_bytes(self, name):
        c = self.consts.get(name)
        if c is None:
            raise MissingAnchor("const %s not found (config %s)" % (name, self.cfg))
        return bytes(c.get("bytes", []))

    def adt_fields(self, path, variant=None):
        a = self.adts.get(path)
        if a is None:
            raise MissingAnchor("type %s not found (config %s)" % (path, self.cfg))
        v = a["variants"][0] if variant is None else [x for x in a["variants"] if x["name"] == variant][0]
        return v["fields"]

    # ---- call graph over local bodies ----
    def callgraph(self):
        """caller path -> set of callee fn paths (local bodies only).  Generic trait calls that
        could not be resolved are linked to every local impl method of that trait method name."""
        if self._cg is None:
            cg = defaultdict(set)
            impl_methods = defaultdict(list)  # trait method path -> impl fn paths
            for p, f in self.fns.items():
                it = f.j.get("impl_trait")
                if it:
                    mname = p.rsplit("::", 1)[-1].split("#")[0]
                    impl_methods[(re.sub(r"<.*$", "", it), mname)].append(p)
            for p, f in self.fns.items():
                if not f.has_body:
                    continue
                for bi, t in f.calls():
                    c = t["callee"]
                    if c["k"] != "fn":
                        continue
                    tgt = c.get("resolved") or c["path"]
                    if tgt in self.fns:
                        cg[p].add(tgt)
                        # same path, several bodies (macro-generated): include all
                        i = 2
                        while "%s#%d" % (tgt, i) in self.fns:
                            cg[p].add("%s#%d" % (tgt, i))
                            i += 1
                    elif c.get("trait") and not c.get("resolved"):
                        mname = c["path"].rsplit("::", 1)[-1]
                        for q in impl_methods.get((c["trait"], mname), []):
                            cg[p].add(q)
                # closures created here are (potentially) called by whoever receives them
                for bi, si, s in f.stmts():
                    if s["k"] == "assign" and s["rv"]["k"] == "agg" and s["rv"].get("agg") == "closure":
                        cg[p].add(s["rv"]["closure"])
            self._cg = cg
        return self._cg

    def reachable_fns(self, roots):
        cg = self.callgraph()
        seen = set()
        st = [r for r in roots if r in self.fns]
        seen.update(st)
        while st:
            x = st.pop()
            for y in cg.get(x, ()):
                if y not in seen:
                    seen.add(y)
                    st.append(y)
        return seen

    # ---- field write summaries ----
    def write_summaries(self, cut=()):
        """(cut: functions whose own effects are ignored, i.e. treated as writing nothing)
        fn path -> set of (arg index, field path tuple) that the function may write through the
        argument (directly, via &mut handed to a local callee [summarised], or via &mut handed to a
        foreign/unresolved callee [whole sub-object])."""
        cut = frozenset(cut)
        if not hasattr(self, "_wcache"):
            self._wcache = {}
        if cut in self._wcache:
            self._wwhere, self._wdirect = self._wcache[cut][1], self._wcache[cut][2]
            return self._wcache[cut][0]
        direct = {}
        callsites = {}
        for p, f in self.fns.items():
            if not f.has_body:
                continue
            w = set()
            cs = []
            for bi, si, s in f.stmts():
                if s["k"] != "assign":
                    continue
                pl = s["place"]
                if not pl["p"]:
                    continue
                e = f.expr_place(pl)
                root, el = path_fields(e)
                if root[0] == "arg" and "deref" in pl["p"] or (root[0] == "arg" and self._arg_is_ref(f, root[1])):
                    w.add((root[1], fields_only(el), s.get("s")))
            for bi, t in f.calls():
                for ai, a in enumerate(t["args"]):
                    e = f.expr_operand(a)
                    mutref = is_mut_ref_type(a) or (isinstance(e, tuple) and e[0] == "ref" and e[2])
                    if not mutref:
                        continue
                    root, el = path_fields(e)
                    if root[0] == "arg":
                        cs.append((callee_name(t["callee"]), ai, root[1], fields_only(el), t.get("s")))
            if p in cut:
                w, cs = set(), []
            direct[p] = w
            callsites[p] = cs
        summ = {p: set((a, el) for a, el, _ in w) for p, w in direct.items()}
        where = {p: {(a, el): s for a, el, s in w} for p, w in direct.items()}
        changed = True
        while changed:
            changed = False
            for p, cs in callsites.items():
                for callee, ai, rootarg, el, s in cs:
                    if callee in summ:
                        adds = set()
                        for (ca, cel) in summ[callee]:
                            if ca == ai + 1:
                                adds.add((rootarg, el + cel))
                    else:
                        adds = {(rootarg, el + ("*",))}
                    new = adds - summ[p]
                    if new:
                        summ[p] |= new
                        for n in new:
                            where[p].setdefault(n, s)
                        changed = True
        self._wwhere = where
        self._wdirect = {p: set((a, el) for a, el, _ in w) for p, w in direct.items()}
        self._wcache[cut] = (summ, where, self._wdirect)
        return summ

    def _arg_is_ref(self, f, idx):
        ty = f.locals[idx]["ty"]
        return ty.startswith("&") or ty.startswith("*")


def is_mut_ref_type(op):
    if op["k"] in ("copy", "move"):
        return op["place"]["ty"].startswith("&mut ") or op["place"]["ty"].startswith("*mut ")
    return False


def fields_only(el):
    return tuple(x if isinstance(x, str) else "[]" for x in el)


class MissingAnchor(Exception):
    pass


# ---------------------------------------------------------------- patterns ----
class W:
    """pattern wildcard; same name must bind equal expressions"""
    def __init__(self, name=None, pred=None):
        self.name, self.pred = name, pred

    def __repr__(self):
        return "?%s" % (self.name or "")


class ConstT(tuple):
    """a constant node ("const", name, value).  Integer constants compare BY VALUE: `OUT_LEN`, a new `const FOO: usize = 32` and the
    literal 32 are the same thing to every rule (replacing a literal by a named constant of equal value, or the reverse, is
    behaviour-preserving).  Non-integer constants (tables, byte strings) keep comparing by name and value."""
    __slots__ = ()

    def _key(self):
        if len(self) == 3 and isinstance(self[2], int) and not isinstance(self[2], bool):
            return ("const", self[2])
        return tuple(self)

    def __eq__(self, other):
        if isinstance(other, tuple) and len(other) == 3 and other[0] == "const":
            return self._key() == ConstT(other)._key()
        return False

    def __ne__(self, other):
        return not self.__eq__(other)

    def __hash__(self):
        return hash(self._key())


import re as _re
_FROM_RE = _re.compile(r"impl (?:std|core)::convert::From<(u8|u16|u32|u64|usize|bool)> for (u8|u16|u32|u64|u128|usize|char)>::from$")
INT_TY_BITS = {"u8": 8, "u16": 16, "u32": 32, "u64": 64, "usize": 32, "u128": 128, "i32": 31, "i64": 63, "isize": 31}
_SLICE_SPLITS = ("::split_at", "::split_at_mut")


def _is_call(e, suffixes):
    return isinstance(e, tuple) and len(e) == 3 and e[0] == "call" and isinstance(e[1], str) and any(e[1].endswith(s_) or e[1].split("::<")[0].endswith(s_) for s_ in suffixes)


def _slice_len(x):
    """symbolic length of a slice-valued expression built from split_at / range indexing, else None"""
    if isinstance(x, tuple) and x and x[0] == "path" and len(x[2]) == 1 and x[2][0] in ("0", "1") and _is_call(x[1], _SLICE_SPLITS) and len(x[1][2]) == 2:
        base, n = x[1][2]
        return n if x[2][0] == "0" else ("bin", "Sub", ("call", "core::slice::<impl [T]>::len", (base,)), n)
    if _is_call(x, ("::index", "::index_mut")) and len(x[2]) == 2 and isinstance(x[2][1], tuple) and x[2][1] and x[2][1][0] == "adt":
        base, r = x[2]
        nm = r[1] if isinstance(r[1], str) else ""
        fields, ops = r[3], r[4]
        d = dict(zip(fields, ops))
        if nm.endswith("RangeTo") and "end" in d:
            return d["end"]
        if nm.endswith("RangeFrom") and "start" in d:
            return ("bin", "Sub", ("call", "core::slice::<impl [T]>::len", (base,)), d["start"])
        if nm.endswith("Range") and "start" in d and "end" in d:
            return ("bin", "Sub", d["end"], d["start"])
    return None


def _canon(e):
    """equivalent spellings brought to one form (applied bottom-up by val)"""
    k = e[0]
    if k == "cast" and len(e) == 3 and isinstance(e[1], tuple) and e[1] and e[1][0] == "const" and isinstance(e[1][2], int) and not isinstance(e[1][2], bool):
        bits = INT_TY_BITS.get(e[2])
        if bits is not None and 0 <= e[1][2] < (1 << bits):
            return ConstT(("const", e[1][1], e[1][2]))          # (CHUNK_LEN as u64) is the constant 1024
    if k == "bin" and e[1] in ("Shr", "Shl") and isinstance(e[3], tuple) and e[3][0] == "const" and isinstance(e[3][2], int) and 0 <= e[3][2] < 64:
        return ("bin", "Div" if e[1] == "Shr" else "Mul", e[2], ConstT(("const", None, 1 << e[3][2])))
    if k == "bin" and e[1] == "Div" and isinstance(e[2], tuple) and e[2] and e[2][0] == "bin" and e[2][1] == "Mul" and isinstance(e[3], tuple) and e[3] \
            and e[3][0] == "const" and isinstance(e[3][2], int) and e[3][2] != 0 and e[2][3] == e[3]:
        return e[2][2]                                           # (x * c) / c is x (lengths: no overflow on this path, checked arithmetic)
    if k == "bin" and e[1] == "Gt" and isinstance(e[3], tuple) and e[3][0] == "const" and e[3][2] == 0:
        return ("bin", "Ne", e[2], e[3])                           # lengths and counters are unsigned: x > 0 is x != 0
    if k == "call" and len(e[2]) == 1 and isinstance(e[1], str):
        nm = e[1]
        if nm.endswith("::len") or nm.split("::<")[0].endswith("::len"):
            n = _slice_len(e[2][0])
            if n is not None:
                return n
        m_ = _FROM_RE.search(nm)
        if m_ and (m_.group(2) in INT_TY_BITS or m_.group(2) == "char"):
            return _canon(("cast", e[2][0], m_.group(2)))       # u64::from(x), usize::from(x), char::from(b): lossless `as`
        if nm.endswith("Into<T>>::into") or nm.endswith("::into"):
            pass
    if k == "call" and len(e[2]) == 2 and isinstance(e[1], str) and (e[1].endswith("Ord>::min") or e[1].endswith("cmp::Ord::min") or e[1].endswith("::min") and e[1].startswith("core::num")):
        return ("call", "core::cmp::min", e[2])
    if k == "call" and len(e[2]) == 2 and isinstance(e[1], str) and (e[1].endswith("Ord>::max") or e[1].endswith("cmp::Ord::max") or e[1].endswith("::max") and e[1].startswith("core::num")):
        return ("call", "core::cmp::max", e[2])
    return e


def val(e):
    """value-level normal form: refs/derefs dropped, operator types dropped, casts between
    integer types of non-decreasing width kept as ('cast', e, to); equivalent spellings canonicalised (_canon)"""
    if not isinstance(e, tuple) or not e:
        return e
    r = _val(e)
    if isinstance(r, tuple) and r and r[0] in ("cast", "bin", "call"):
        r = _canon(r)
    return r


def _val(e):
    k = e[0]
    if k == "ref":
        return val(e[1])
    if k == "path":
        root, el = path_fields(e)
        root = val(root)
        el = tuple(tuple(val(y) if isinstance(y, tuple) else y for y in x) if isinstance(x, tuple) else x for x in el)
        if not el:
            return root
        if isinstance(root, tuple) and root and root[0] == "path":
            return ("path", root[1], root[2] + el)
        return ("path", root, el)
    if k == "bin":
        return ("bin", e[1], val(e[2]), val(e[3]))
    if k == "un":
        return ("un", e[1], val(e[2]))
    if k == "cast":
        if len(e) == 3:  # already value-normalised
            return ("cast", val(e[1]), e[2])
        return ("cast", val(e[2]), e[4])
    if k == "const":
        return ConstT(("const", e[1], e[2]))
    if k == "discr":
        return ("discr", val(e[1]))
    if k == "call":
        return ("call", e[1], tuple(val(a) for a in e[2]))
    if k == "adt":
        return ("adt", e[1], e[2], e[3], tuple(val(a) for a in e[4]))
    if k in ("tuple", "array"):
        return (k, tuple(val(a) for a in e[1]))
    if k in ("mutated", "overflowed", "closure", "repeat"):
        return tuple(val(x) if isinstance(x, tuple) else x for x in e)
    return e


def pcanon(p):
    """the canonical spelling (_canon) of a PATTERN: rules may be written with either spelling"""
    if isinstance(p, W) or not isinstance(p, tuple) or not p:
        return p
    q = tuple(pcanon(x) for x in p)
    k = q[0]
    if k == "cast" and len(q) == 3 and isinstance(q[1], tuple) and q[1] and q[1][0] == "const" and len(q[1]) == 3:
        v = q[1][2]
        if isinstance(v, W) or (isinstance(v, int) and not isinstance(v, bool)):
            return q[1]
    if k == "bin" and len(q) == 4 and q[1] in ("Shr", "Shl") and isinstance(q[3], tuple) and q[3] and q[3][0] == "const" and isinstance(q[3][2], int) and not isinstance(q[3][2], bool):
        return ("bin", "Div" if q[1] == "Shr" else "Mul", q[2], ("const", None, 1 << q[3][2]))
    if k == "bin" and len(q) == 4 and q[1] == "Gt" and isinstance(q[3], tuple) and q[3] and q[3][0] == "const" and q[3][2] == 0:
        return ("bin", "Ne", q[2], q[3])
    return q


def unify(p, e, b=None):
    """match pattern p against (val-normalised) expression e; returns bindings dict or None"""
    if b is None:
        b = {}
        p = pcanon(p)
    return _unify(p, e, b)


def _unify(p, e, b):
    if isinstance(p, W):
        if p.pred is not None and not p.pred(e):
            return None
        if p.name is None:
            return b
        if p.name in b:
            return b if b[p.name] == e else None
        b = dict(b)
        b[p.name] = e
        return b
    if isinstance(p, tuple):
        if not isinstance(e, tuple) or len(p) != len(e):
            return None
        if len(p) == 3 and p[0] == "const" and e[0] == "const" and isinstance(e[2], int) and not isinstance(e[2], bool):
            # integer constants match by value; a pattern that names a spec constant without a value uses the spec's value
            pv = p[2]
            if isinstance(pv, W):
                known = SPEC_CONSTS.get(p[1].rsplit("::", 1)[-1]) if isinstance(p[1], str) else None
                if known is not None:
                    return _unify(pv, e[2], b) if e[2] == known else None
                if isinstance(p[1], W) or p[1] is None or p[1] == e[1]:
                    return _unify(pv, e[2], b)
                return None
            return b if pv == e[2] else None
        for x, y in zip(p, e):
            b = _unify(x, y, b)
            if b is None:
                return None
        return b
    return b if p == e else None


def find_sub(e, p, b=None):
    """first sub-expression of e matching p (pre-order); returns (sub, bindings) or None"""
    p = pcanon(p)
    r = _unify(p, e, dict(b) if b else {})
    if r is not None:
        return e, r
    if isinstance(e, tuple):
        for x in e:
            if isinstance(x, tuple):
                r = find_sub(x, p, b)
                if r is not None:
                    return r
    return None


SEE_THROUGH = {"Hash::as_bytes"}
SPEC_CONSTS = {"CHUNK_LEN": 1024, "BLOCK_LEN": 64, "OUT_LEN": 32, "KEY_LEN": 32, "MAX_DEPTH": 54, "CHUNK_START": 1, "CHUNK_END": 2, "PARENT": 4,
               "ROOT": 8, "KEYED_HASH": 16, "DERIVE_KEY_CONTEXT": 32, "DERIVE_KEY_MATERIAL": 64}


class P:
    @staticmethod
    def arg(name):
        return ("arg", W(), name)

    @staticmethod
    def field(root, *names):
        return ("path", root, tuple(names))

    @staticmethod
    def self_(*names):
        return ("path", ("arg", 1, "self"), tuple(names))

    @staticmethod
    def call(name, *args):
        return ("call", name, tuple(args))

    @staticmethod
    def bin(op, a, b):
        return ("bin", op, a, b)

    @staticmethod
    def const(v):
        return ("const", W(), v)

    @staticmethod
    def named(name, v=None):
        return ("const", name, W() if v is None else v)

    @staticmethod
    def cast(a, to):
        return ("cast", a, to)


def guards_at(fn, b):
    """[(cond value-expr, truth)] for boolean branch edges / passed asserts dominating block b,
    plus ('discr', place value-expr, variant value) for integer switches"""
    out = []
    dom = fn.dominators().get(b, set())
    for s in sorted(dom):
        if s == b:
            continue
        t = fn.blocks[s]["term"]
        if t["k"] == "switch":
            discr = val(fn.expr_operand(t["op"]))
            for v, tgt in t["targets"]:
                if tgt != t["otherwise"] and sum(1 for _, t2 in t["targets"] if t2 == tgt) == 1 and fn.edge_dominates(s, tgt, b):
                    if t["opty"] == "bool":
                        out.append((discr, bool(v)))
                    else:
                        out.append((("switchval", discr), v))
            # several values sharing one target (`A | B => ..` arms): the edge is taken for exactly that set of values
            shared = {}
            for v, tgt in t["targets"]:
                shared.setdefault(tgt, []).append(v)
            for tgt, vs in shared.items():
                if len(vs) > 1 and tgt != t["otherwise"] and t["opty"] != "bool" and fn.edge_dominates(s, tgt, b):
                    out.append((("switchin", discr), tuple(sorted(vs))))
            o = t["otherwise"]
            if all(o != tgt for _, tgt in t["targets"]) and fn.edge_dominates(s, o, b):
                vals = [v for v, _ in t["targets"]]
                if t["opty"] == "bool" and len(vals) == 1:
                    out.append((discr, not bool(vals[0])))
                else:
                    out.append((("switchnot", discr), tuple(vals)))
        elif t["k"] == "assert":
            out.append((val(fn.expr_operand(t["cond"])), bool(t["expected"])))
    # normalise Not
    norm = []
    for c, tr in out:
        while isinstance(c, tuple) and c and isinstance(tr, bool):
            if c[0] == "un" and c[1] == "Not":
                c, tr = c[2], (not tr)
            elif c[0] == "call" and len(c[2]) == 1 and (norm_path(c[1]).endswith("ops::bit::Not>::not") or c[1] == "anyhow::__private::not"):
                c, tr = c[2][0], (not tr)  # `!cond` on a bool through the Not trait (macro expansions)
            else:
                break
        norm.append((c, tr))
    return norm


def guards_imply_zero(gs, x, zero=True):
    """do the guards establish x == 0 (zero=True) / x != 0 (zero=False)?  All spellings: an integer switch on x, `x == 0`,
    `x != 0`, `x > 0` (canonicalised to != by val)"""
    for c, tr in gs:
        if not isinstance(c, tuple) or not c:
            continue
        if c == ("switchval", x) and isinstance(tr, int) and not isinstance(tr, bool):
            if (tr == 0) == zero:
                return True
        if c == ("switchnot", x) and isinstance(tr, tuple) and 0 in tr and not zero:
            return True
        if c[0] == "bin" and c[1] in ("Eq", "Ne") and isinstance(tr, bool):
            a, b_ = c[2], c[3]
            if b_ == x:
                a, b_ = b_, a
            if a == x and isinstance(b_, tuple) and b_ and b_[0] == "const" and b_[2] == 0:
                is_zero = tr if c[1] == "Eq" else (not tr)
                if is_zero == zero:
                    return True
    return False


def local_defs_with_guards(fn, l, _seen=None):
    """for a multi-def local: [(block, guards, value-expr)] per whole definition"""
    out = []
    ds = fn.defs().get(l, [])
    if len(ds) == 1 and ds[0][0] == "assign" and not ds[0][3]["place"]["p"] and _seen is None or (_seen is not None and len(ds) == 1 and ds[0][0] == "assign" and not ds[0][3]["place"]["p"]):
        rv = ds[0][3]["rv"]
        if rv.get("k") == "use" and rv["op"].get("k") in ("move", "copy") and not rv["op"]["place"]["p"]:
            src = rv["op"]["place"]["l"]
            seen = set(_seen or ()) | {l}
            if src not in seen and src > fn.argc and len(fn.defs().get(src, [])) > 1:
                # a single `l = move src` where src has several definitions (e.g. the result of an inlined helper that
                # branches): the alternatives are src's
                return local_defs_with_guards(fn, src, seen)
    for d in ds:
        if d[0] == "call":
            out.append((d[1], guards_at(fn, d[1]), val(fn.expr_call(d[2]))))
        elif d[0] == "assign" and not d[3]["place"]["p"]:
            out.append((d[1], guards_at(fn, d[1]), val(fn.expr_rvalue(d[3]["rv"]))))
    return out


def ret_alternatives(fn):
    """[(block, guards, value-expr)] of the return place (single def => one entry)"""
    return local_defs_with_guards(fn, 0)
