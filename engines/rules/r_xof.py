"""X rules: OutputReader position arithmetic, Seek, fill (X1-X5) and the xof_many fallback loop (D2x)."""
from mirlib import *
from absint import Evaluator, AV, ty_range, is_intlike
from r_hash import name_has, name_ends, calls_of
from r_io import has_guard, sw

SELF = ("arg", 1, "self")
B64 = P.cast(P.named("BLOCK_LEN"), "u64")


def self_writes(fn):
    """[(block, field path string, value expr, where)] for stores through self"""
    out = []
    for bi, si, s in fn.stmts():
        if s["k"] != "assign" or not s["place"]["p"]:
            continue
        tgt = val(fn.expr_place(s["place"]))
        root, el = path_fields(tgt)
        if root == SELF and "deref" in s["place"]["p"]:
            out.append((bi, ".".join(x for x in el if isinstance(x, str)), val(fn.expr_rvalue(s["rv"])), s.get("s")))
    return out


def rule_X1(ctx, F):
    sp = F.need_fn("OutputReader::set_position")
    ws = {name: (v, where) for bi, name, v, where in self_writes(sp)}
    pos = P.arg("position")
    w1 = ws.get("position_within_block")
    w2 = ws.get("inner.counter")
    ctx.ob(w1 is not None and unify(P.cast(P.bin("Rem", pos, B64), "u8"), w1[0]) is not None, "set_position-offset", w1[1] if w1 else sp.loc,
           "position_within_block = %s ; required (position %% BLOCK_LEN) as u8" % (show(w1[0]) if w1 else "unwritten"))
    ctx.ob(w2 is not None and unify(P.bin("Div", pos, B64), w2[0]) is not None, "set_position-counter", w2[1] if w2 else sp.loc,
           "inner.counter = %s ; required position / BLOCK_LEN" % (show(w2[0]) if w2 else "unwritten"))
    ctx.ob(set(ws) == {"position_within_block", "inner.counter"}, "set_position-writes", sp.loc, "set_position writes exactly %s" % sorted(ws))
    p = F.need_fn("OutputReader::position")
    e = val(p.expr_local(0))
    want = P.bin("Add", P.bin("Mul", P.self_("inner", "counter"), B64), P.cast(P.self_("position_within_block"), "u64"))
    ctx.ob(unify(want, e) is not None, "position-formula", p.loc, "position() = %s ; required counter * BLOCK_LEN + position_within_block (same constant)" % show(e))
    ctx.ob(p.j["params"] and p.j["params"][0] == "&OutputReader", "position-takes-shared-ref", p.loc, "position(%s)" % p.j["params"])


def find_norm(F, npath):
    for p, f in F.fns.items():
        if f.has_body and norm_path(p) == norm_path(npath):
            return f
    raise MissingAnchor("function %s" % npath)


def rule_X2(ctx, F):
    fn = find_norm(F, "<OutputReader as core::io::Seek>::seek")
    # mutation points: stores through self, calls that receive &mut self
    muts = [(bi, "store " + name, where) for bi, name, v, where in self_writes(fn)]
    for bi, t in fn.calls():
        for a in t["args"]:
            e = fn.expr_operand(a)
            v = val(e)
            if v == SELF and a["k"] in ("copy", "move") and a["place"]["ty"].startswith("&mut "):
                muts.append((bi, "call " + callee_name(t["callee"]), t.get("s")))
    ctx.floor("mutation points in seek", len(muts), 1)
    alts = ret_alternatives(fn)
    nerr = 0
    end_err = False
    for b, gs, e in alts:
        if e[0] == "adt" and e[2] == "Err":
            nerr += 1
            bad = [m for m in muts if m[0] == b or fn.paths_avoiding(m[0], b, set())]
            ctx.ob(not bad, "seek-error-leaves-position#%d" % nerr, fn.blocks[b]["term"].get("s"),
                   "no write to self on any path to this Err return" if not bad else "self is mutated (%s at %s) on a path that returns Err" % (bad[0][1], bad[0][2]))
            if any(c == ("switchval", ("discr", ("arg", 2, "pos"))) and tr == 1 for c, tr in gs):
                end_err = True
    ctx.floor("Err returns of seek", nerr, 2)
    ctx.ob(end_err, "seek-from-end-is-error", fn.loc, "the SeekFrom::End arm returns Err: %s" % end_err)
    # negative test dominates set_position
    sps = [(bi, val(fn.expr_call(t)), t.get("s")) for bi, t in fn.calls() if callee_name(t["callee"]) == "OutputReader::set_position"]
    ctx.ob(len(sps) == 1, "seek-one-set_position", fn.loc, "%d set_position call(s)" % len(sps))
    for bi, e, where in sps:
        gs = guards_at(fn, bi)
        tp = W("tp")
        m = has_guard(gs, P.bin("Lt", tp, P.const(0)), False)
        ctx.ob(m is not None and find_sub(e[2][1], m["tp"]) is not None, "seek-negative-check-dominates", where,
               "set_position(%s) dominated by the false edge of target < 0 on the same value: %s" % (show(e[2][1])[:100], m is not None))
    oks = [(gs, e) for b, gs, e in alts if e[0] == "adt" and e[2] == "Ok"]
    ctx.ob(len(oks) == 1 and unify(P.call("OutputReader::position", SELF), oks[0][1][4][0]) is not None, "seek-returns-new-position", fn.loc,
           "Ok(%s)" % (show(oks[0][1][4][0]) if oks else "?"))
    # target computation per arm
    tl = [l for l in range(len(fn.locals)) if fn.names.get(l) == "target_position"]
    if not tl:
        raise MissingAnchor("local target_position in seek")
    arms = {}
    for b, gs, e in local_defs_with_guards(fn, tl[0]):
        for c, tr in gs:
            if c == ("switchval", ("discr", ("arg", 2, "pos"))):
                arms[tr] = e
    POS = ("arg", 2, "pos")
    ok0 = 0 in arms and unify(P.cast(("path", POS, (("as", "Start"), "0")), "i128"), arms[0]) is not None
    ok2 = 2 in arms and unify(P.bin("Add", P.cast(P.call("OutputReader::position", SELF), "i128"), P.cast(("path", POS, (("as", "Current"), "0")), "i128")), arms[2]) is not None
    ctx.ob(ok0, "seek-start-arm", fn.loc, "Start(x) => %s" % (show(arms.get(0)) if 0 in arms else "?"))
    ctx.ob(ok2, "seek-current-arm", fn.loc, "Current(x) => %s" % (show(arms.get(2)) if 2 in arms else "?"))


def rule_X3(ctx, F):
    """every integer cast in seek is lossless under the guards that dominate it"""
    fn = find_norm(F, "<OutputReader as core::io::Seek>::seek")
    ev = Evaluator(F, fn, {}, ret_ranges={"OutputReader::position": AV(0, (1 << 64) - 1)})
    n = 0
    for bi, si, s in fn.stmts():
        if s["k"] != "assign" or s["rv"]["k"] != "cast" or s["rv"]["kind"] != "IntToInt":
            continue
        src, dst = s["rv"]["from"], s["rv"]["ty"]
        if not (is_intlike(src) and is_intlike(dst)):
            continue
        n += 1
        env = ev.env_at(bi)
        if not ev.feasible(env):
            continue
        a = ev.eval(fn.expr_operand(s["rv"]["op"]), env).meet(AV(*ty_range(src)))
        rng = ty_range(dst)
        ok = (not a.empty) and rng[0] <= a.lo and a.hi <= rng[1]
        ctx.ob(ok, "seek-cast-lossless#%d:%s->%s" % (n, src, dst), s.get("s"),
               "%s : operand range %s %s %s" % (show(val(fn.expr_operand(s["rv"]["op"])))[:120], a, "fits" if ok else "does NOT fit", dst))
    ctx.floor("integer casts in seek", n, 4)


def rule_X4(ctx, F):
    fn = find_norm(F, "<OutputReader as core::io::Read>::read")
    cs = calls_of(fn)
    fills = [c for c in cs if unify(P.call("OutputReader::fill", SELF, P.arg("buf")), c[1]) is not None]
    ctx.ob(len(fills) == 1, "read-fills-buffer", fn.loc, "read calls %s" % [show(c[1]) for c in cs])
    e = val(fn.expr_local(0))
    want = ("adt", W(), "Ok", ("0",), (("call", name_ends("::len"), (P.arg("buf"),)),))
    ctx.ob(unify(want, e) is not None, "read-returns-full-length", fn.loc, "returns %s ; required Ok(buf.len())" % show(e))


def reaching_alts(fn, l, b):
    """alternatives of a multi-def local whose definition can reach block b"""
    out = []
    if 1 <= l <= fn.argc:
        out.append(("arg", l, fn.names.get(l)))
    for d in fn.defs().get(l, []):
        if d[0] == "call" and (d[1] == b or fn.paths_avoiding(d[1], b, set())):
            out.append(val(fn.expr_call(d[2])))
        elif d[0] == "assign" and not d[3]["place"]["p"] and (fn.paths_avoiding(d[1], b, set())):
            out.append(val(fn.expr_rvalue(d[3]["rv"])))
    return out


def rule_X5(ctx, F):
    fn = F.need_fn("OutputReader::fill")
    xs = [(bi, val(fn.expr_call(t)), t.get("s")) for bi, t in fn.calls() if callee_name(t["callee"]) == "platform::Platform::xof_many"]
    ctx.ob(len(xs) == 1, "fill-one-xof_many", fn.loc, "%d xof_many call(s)" % len(xs))
    BUF = W("buf")
    FB = P.bin("Div", ("call", name_ends("::len"), (BUF,)), P.named("BLOCK_LEN"))
    for bi, e, where in xs:
        m = None
        # the output operand is the prefix of `buf` holding the whole blocks: &mut buf[..n] or buf.split_at_mut(n).0, n = full_blocks * BLOCK_LEN
        for outpat in (("call", name_has("index_mut"), (BUF, ("adt", name_ends("RangeTo"), W(), W(), (P.bin("Mul", FB, P.named("BLOCK_LEN")),)))),
                       ("path", ("call", name_ends("split_at_mut"), (BUF, P.bin("Mul", FB, P.named("BLOCK_LEN")))), ("0",))):
            want = P.call("platform::Platform::xof_many", P.self_("inner", "platform"), P.self_("inner", "input_chaining_value"), P.self_("inner", "block"),
                          P.self_("inner", "block_len"), P.self_("inner", "counter"), P.bin("BitOr", P.self_("inner", "flags"), P.named("ROOT")), outpat)
            m = m or unify(want, e)
        ctx.ob(m is not None, "fill-xof_many-operands", where,
               "xof_many(%s) ; required (cv, block, block_len, inner.counter, flags|ROOT, &mut buf[..full_blocks*BLOCK_LEN])" % ", ".join(show(a)[:60] for a in e[2][1:]))
        adv = [(b2, v, w) for b2, name, v, w in self_writes(fn) if name == "inner.counter"]
        okadv = len(adv) == 1 and m is not None and unify(P.bin("Add", P.self_("inner", "counter"), P.cast(FB, "u64")), adv[0][1], {"buf": m["buf"]}) is not None and fn.dominates(bi, adv[0][0])
        ctx.ob(okadv, "fill-counter-advances-by-full-blocks", adv[0][2] if adv else where,
               "counter %s ; required += full_blocks (the count handed to xof_many), after the call" % ([show(a[1])[:100] for a in adv]))
    others = [name for b2, name, v, w in self_writes(fn) if name != "inner.counter"]
    ctx.ob(not others, "fill-writes", fn.loc, "fill itself writes only inner.counter (also: %s)" % others)
    f1 = F.need_fn("OutputReader::fill_one_block")
    ws = self_writes(f1)
    edge = P.bin("Eq", P.self_("position_within_block"), P.cast(P.named("BLOCK_LEN"), "u8"))
    bump = [(b, v, w) for b, name, v, w in ws if name == "inner.counter"]
    ok = len(bump) == 1 and unify(P.bin("Add", P.self_("inner", "counter"), P.const(1)), bump[0][1]) is not None and has_guard(guards_at(f1, bump[0][0]), edge, True) is not None
    ctx.ob(ok, "fill_one_block-counter-bump-on-block-edge", bump[0][2] if bump else f1.loc, "counter bump: %s" % [show(b[1]) for b in bump])
    rst = [(b, v, w) for b, name, v, w in ws if name == "position_within_block" and v == ("const", None, 0)]
    ok = len(rst) == 1 and has_guard(guards_at(f1, rst[0][0]), edge, True) is not None
    ctx.ob(ok, "fill_one_block-position-reset-on-block-edge", rst[0][2] if rst else f1.loc, "position reset to 0 on the position == BLOCK_LEN edge")
    adv = [(b, v, w) for b, name, v, w in ws if name == "position_within_block" and v != ("const", None, 0)]
    # take = min(buf.len(), block[position..].len()); the second operand is canonicalised by val() to block.len() - position
    TAKE = ("call", name_ends("cmp::min"), (("call", name_ends("::len"), (P.arg("buf"),)), W(pred=lambda e: isinstance(e, tuple) and e[0] in ("call", "bin"))))
    ok = len(adv) == 1 and unify(P.bin("Add", P.self_("position_within_block"), P.cast(TAKE, "u8")), adv[0][1]) is not None
    ctx.ob(ok, "fill_one_block-position-advances-by-take", adv[0][2] if adv else f1.loc, "position += %s" % [show(a[1])[:120] for a in adv])
    rb = [c for c in calls_of(f1) if unify(P.call("Output::root_output_block", P.self_("inner")), c[1]) is not None]
    ctx.ob(len(rb) == 1, "fill_one_block-uses-root_output_block", f1.loc, "%d call(s) to inner.root_output_block()" % len(rb))


def rule_D2x(ctx, F):
    """Platform::xof_many fallback: one compress_xof per 64-byte block with counter+1 per block"""
    fn = F.need_fn("platform::Platform::xof_many")
    cx = [(bi, val(fn.expr_call(t)), t.get("s")) for bi, t in fn.calls() if callee_name(t["callee"]) == "platform::Platform::compress_xof"]
    ctx.ob(len(cx) == 1, "xof-fallback-one-compress", fn.loc, "%d compress_xof call(s)" % len(cx))
    cl = [l for l in range(1, fn.argc + 1) if fn.names.get(l) == "counter"]
    if not cl or not cx:
        raise MissingAnchor("counter parameter / compress_xof call of Platform::xof_many")
    cl = cl[0]
    C, ce, where = cx[0]
    CTR = fn.expr_local(cl)
    want = P.call("platform::Platform::compress_xof", SELF, P.arg("cv"), P.arg("block"), P.arg("block_len"), CTR, P.arg("flags"))
    ctx.ob(unify(want, ce) is not None, "xof-fallback-operands", where, "compress_xof(%s)" % ", ".join(show(a) for a in ce[2]))
    incs = [d for d in fn.defs().get(cl, []) if d[0] == "assign" and not d[3]["place"]["p"]]
    ok = len(incs) == 1 and unify(P.bin("Add", CTR, P.const(1)), val(fn.expr_rvalue(incs[0][3]["rv"]))) is not None
    ctx.ob(ok, "xof-fallback-counter-plus-one", incs[0][3].get("s") if incs else where, "counter redefinitions: %s" % [show(val(fn.expr_rvalue(d[3]["rv"]))) for d in incs])
    if ok:
        D = incs[0][1]
        nxt = [bi for bi, t in fn.calls() if norm_path(callee_name(t["callee"])).endswith("Iterator>::next")]
        once = fn.dominates(C, D) and len(nxt) == 1 and fn.paths_avoiding(D, nxt[0], {C}) and not any(fn.paths_avoiding(s, nxt[0], {D}) for s in fn.succ(C))
        ctx.ob(once, "xof-fallback-increment-each-iteration", incs[0][3].get("s"), "each iteration: compress_xof, then counter += 1, then next block: %s" % once)
        ch = [c for c in calls_of(fn) if norm_path(c[1][1]).endswith("chunks_exact_mut")]
        ok = len(ch) == 1 and unify(("call", W(), (P.arg("out"), P.named("BLOCK_LEN"))), ch[0][1]) is not None
        ctx.ob(ok, "xof-fallback-block-size", ch[0][2] if ch else fn.loc, "iterates out.chunks_exact_mut(BLOCK_LEN)")
    # native arm receives the caller's counter unchanged
    nat = [(bi, t) for bi, t in fn.calls() if callee_name(t["callee"]).endswith("avx512::xof_many")]
    for bi, t in nat:
        alts = reaching_alts(fn, cl, bi)
        ctx.ob(alts == [("arg", cl, "counter")], "xof-native-gets-initial-counter", t.get("s"), "counter values reaching the native xof_many: %s" % [show(a) for a in alts])
    # empty output: early return before any kernel
    e_guard = ("call", name_ends("::is_empty"), (P.arg("out"),))
    for bi, ce2, w2 in cx + [(bi, val(fn.expr_call(t)), t.get("s")) for bi, t in nat]:
        ctx.ob(has_guard(guards_at(fn, bi), e_guard, False) is not None, "xof-empty-out-guard:%s" % ce2[1].split("::")[-2], w2, "kernel call dominated by !out.is_empty()")


def _nonempty_guard(gs, param):
    """a dominating guard that establishes len(param) != 0"""
    for c, tr in gs:
        sc = show(c) if isinstance(c, tuple) else str(c)
        if param not in sc:
            continue
        if "is_empty(" in sc and tr is False:
            return True
        if ("len(" in sc and " Eq 0" in sc.replace("const ", "")) and tr is False:
            return True
        if ("len(" in sc and (" Ne 0" in sc or " Gt 0" in sc)) and tr is True:
            return True
    return False


def rule_X0(ctx, F):
    """zero-block calls of the assembled xof_many.  The assembly's precondition is derived from the object code (X0asm: does a
    zero count reach a store?).  When it is NOT zero-safe, every path to the extern call must establish out.len() != 0: in the
    FFI wrapper itself or at every call site of the wrapper (one level up, Platform::xof_many)."""
    import r_asmsym
    pre = r_asmsym.rule_X0asm(ctx)
    unsafe_k = {k: v for k, v in pre.items() if not v[0]}
    sites = 0
    for path, f in sorted(F.fns.items()):
        if not f.has_body:
            continue
        for bi, t in f.calls():
            cn = callee_name(t["callee"])
            if not cn.rsplit("::", 1)[-1].startswith("blake3_xof_many_"):
                continue
            sites += 1
            sym = cn.rsplit("::", 1)[-1]
            needs = [k for k in unsafe_k if k.startswith(sym + ":")]
            inst = "xof-zero-blocks:%s" % sym
            if not needs:
                ctx.ob(True, inst, t.get("s", f.loc), "the assembled %s returns without storing for a zero count; no caller obligation" % sym)
                continue
            why = unsafe_k[needs[0]][1]
            if _nonempty_guard(guards_at(f, bi), "out"):
                ctx.ob(True, inst, t.get("s", f.loc), "guarded in the wrapper (%s)" % why)
                continue
            # every caller of the wrapper, one level up
            callers = []
            for p2, g in F.fns.items():
                if not g.has_body:
                    continue
                for b2, t2 in g.calls():
                    if callee_name(t2["callee"]) == path:
                        callers.append((p2, g, b2, t2))
            bad = [p2 for p2, g, b2, t2 in callers if not _nonempty_guard(guards_at(g, b2), "out")]
            ctx.ob(bool(callers) and not bad, inst, t.get("s", f.loc),
                   "%s ; callers of %s: %s%s" % (why, path, [c[0] for c in callers], " -- without an out.is_empty() / len != 0 guard: %s" % bad if bad else " all guard against an empty `out`"))
    ctx.info("extern xof_many call sites: %d" % sites)
