"""Straight-line symbolic evaluation of C functions (clang AST mini-IR of engines/cfront/cast.py)
over the same hash-consed term algebra as symexec.py.  No branches, no loops: fail closed."""
import re
from symexec import Terms, Cell, Ptr, SymFail, get_path, set_path


class CSym:
    def __init__(self, tus, T, globals_=None, overrides=None):
        self.tus = tus if isinstance(tus, (list, tuple)) else [tus]
        self.T = T
        self.overrides = overrides or {}
        self.funcs = {}
        self.glob = dict(globals_ or {})
        for t in self.tus:
            self.funcs.update(t.funcs)
            for g in t.globals:
                if g.get("init") is not None and g["name"] not in self.glob:
                    try:
                        self.glob[g["name"]] = self.const_init(g["init"])
                    except SymFail:
                        pass
        self.steps = 0

    def const_init(self, e):
        if e[0] == "init":
            return tuple(self.const_init(x) for x in e[1])
        if e[0] == "int":
            return self.T.const(e[1])
        if e[0] == "cast":
            return self.const_init(e[1])
        raise SymFail("global initialiser")

    # ---- normalisations shared with the Rust side
    def xor(self, a, b):
        T = self.T
        ta, tb = T.rev[a], T.rev[b]
        for p, q in ((ta, tb), (tb, ta)):
            if p[0] == "shr" and q[0] == "shl" and p[2] == q[2] and p[1] + q[1] == 32:
                return T.rotr(p[1], p[2])   # disjoint bit ranges: xor == or == rotate
        return T.xor(a, b)

    def byte_shuffle(self, x, mask):
        """pshufb with a constant mask: a rotation of every 32-bit lane by whole bytes?"""
        T = self.T
        if not isinstance(mask, tuple):
            raise SymFail("pshufb mask is not a constant vector")
        idx = [T.cval(m) for m in mask]          # memory order: element 0 = lowest byte
        if any(i is None for i in idx):
            raise SymFail("pshufb mask not constant")
        ks = set()
        for pos, src in enumerate(idx):
            lane_pos, lane_src = pos // 4, (src % 16) // 4
            if lane_pos % 4 != lane_src:
                raise SymFail("pshufb crosses 32-bit lanes")
            ks.add(((src % 4) - (pos % 4)) % 4)
        if len(ks) != 1:
            raise SymFail("pshufb is not a uniform byte rotation")
        return T.rotr(8 * ks.pop(), x)

    def shufflevector(self, vals):
        """__builtin_shufflevector(a, b, i0..i15) on bytes of one operand: a whole-dword byte rotation (lane-generic)"""
        T = self.T
        a, b, idx = vals[0], vals[1], [T.cval(x) for x in vals[2:]]
        if a != b or len(idx) != 16 or any(i is None for i in idx):
            raise SymFail("shufflevector form")
        ks = set()
        for pos, src in enumerate(idx):
            if pos // 4 != src // 4:
                raise SymFail("shufflevector crosses 32-bit lanes")
            ks.add((src - pos) % 4)
        if len(ks) != 1:
            raise SymFail("shufflevector is not a uniform byte rotation")
        return T.rotr(8 * ks.pop(), a)

    def intrinsic(self, name, args):
        T = self.T
        if re.fullmatch(r"_mm(256|512)?_add_epi32", name):
            return T.add(args[0], args[1])
        if re.fullmatch(r"_mm(256|512)?_xor_si(128|256|512)", name):
            return self.xor(args[0], args[1])
        if re.fullmatch(r"_mm(256|512)?_or_si(128|256|512)", name):
            return T.bor(args[0], args[1])
        m = re.fullmatch(r"_mm(256|512)?_(srli|slli)_epi32", name)
        if m:
            n = T.cval(args[1])
            if n is None:
                raise SymFail("shift count not constant")
            return T.mk("shr" if m.group(2) == "srli" else "shl", n, args[0])
        if re.fullmatch(r"_mm(256|512)?_ror_epi32", name) or re.fullmatch(r"__builtin_ia32_prord(128|256|512)(_mask)?", name):
            n = T.cval(args[1])
            if n is None:
                raise SymFail("rotate count not constant")
            return T.rotr(n, args[0])
        if re.fullmatch(r"_mm(256|512)?_shuffle_epi8", name) or re.fullmatch(r"__builtin_ia32_pshufb(128|256|512)", name):
            return self.byte_shuffle(args[0], args[1])
        m = re.fullmatch(r"_mm(256|512)?_set_epi8", name)
        if m:
            return tuple(reversed(args))           # set_epi8 lists the highest byte first
        m = re.fullmatch(r"_mm(256|512)?_setr_epi8", name)
        if m:
            return tuple(args)
        # ---- NEON (lane-generic view: one 32-bit lane)
        if name in ("vaddq_u32",):
            return T.add(args[0], args[1])
        if name in ("veorq_u32",):
            return self.xor(args[0], args[1])
        if name in ("vorrq_u32",):
            return T.bor(args[0], args[1])
        if name.startswith("vreinterpretq_"):
            return args[0]
        if name == "vrev32q_u16":
            return T.rotr(16, args[0])
        if name in ("__builtin_neon_vshlq_n_v", "__builtin_neon_vshrq_n_v"):
            n = T.cval(args[1])
            if n is None:
                raise SymFail("shift count not constant")
            return T.mk("shl" if "vshl" in name else "shr", n, args[0])
        if name == "__builtin_neon_vsriq_n_v":
            a, b, n = args[0], args[1], T.cval(args[2])
            ta = T.rev[a] if isinstance(a, int) else None
            if n is None or not ta or ta[0] != "shl" or ta[1] < 32 - n:
                raise SymFail("vsri whose first operand does not have its low bits clear")
            return T.bor(a, T.mk("shr", n, b))        # the kept top bits of a are all of a: insert == or
        if name in ("__builtin_ia32_pshuflw", "_mm_shufflelo_epi16"):
            return T.mk("pshuflw", T.cval(args[1]), args[0])
        if name in ("__builtin_ia32_pshufhw", "_mm_shufflehi_epi16"):
            t = T.rev[args[0]] if isinstance(args[0], int) else None
            imm = T.cval(args[1])
            if t and t[0] == "pshuflw" and t[1] == 0xB1 and imm == 0xB1:
                return T.rotr(16, t[2])            # swap the 16-bit halves of every 32-bit lane
            return T.mk("pshufhw", imm, args[0])
        return None

    def call(self, name, args, depth):
        if name in self.overrides:
            return self.overrides[name](self, args)
        r = self.intrinsic(name, args)
        if r is not None:
            return r
        f = self.funcs.get(name)
        if f is not None:
            if depth > 12:
                raise SymFail("inlining depth")
            return self.run(f, args, depth + 1)
        flat = []
        for a in args:
            if not isinstance(a, int):
                raise SymFail("uninterpreted C call %s with aggregate/pointer argument" % name)
            flat.append(a)
        return self.T.mk("call", name, (), tuple(flat))

    def run(self, f, args, depth=0):
        env = {}
        for (pn, pty), a in zip(f["params"], args):
            env[pn] = Cell(a)
        ret = self.block(f["body"], env, depth)
        return ret[1] if ret else None

    def block(self, stmts, env, depth):
        for s in stmts:
            self.steps += 1
            if self.steps > 300000:
                raise SymFail("budget")
            k = s[0]
            if k == "decl":
                ty = s[2]
                m = re.search(r"\[(\d+)\]$", ty)
                if s[3] is not None:
                    v = self.ev(s[3], env, depth)
                    if isinstance(v, tuple) and m and len(v) < int(m.group(1)):
                        v = v + tuple(self.T.const(0) for _ in range(int(m.group(1)) - len(v)))
                    env[s[1]] = Cell(v)
                elif m:
                    env[s[1]] = Cell(tuple(self.T.sym("uninit:%s[%d]" % (s[1], i)) for i in range(int(m.group(1)))))
                else:
                    env[s[1]] = Cell(None)
            elif k == "assign":
                rhs = self.ev(s[3], env, depth)
                if s[1] != "=":
                    cur = self.ev(s[2], env, depth)
                    rhs = self.binop(s[1][:-1], cur, rhs)
                cell, path = self.lv(s[2], env, depth)
                cell.v = set_path(cell.v, path, rhs) if path else rhs
            elif k == "expr":
                self.ev(s[1], env, depth)
            elif k == "return":
                return ("ret", self.ev(s[1], env, depth) if s[1] is not None else None)
            elif k == "if":
                c = self.ev(s[1], env, depth)
                cv = self.T.cval(c) if isinstance(c, int) else None
                if cv is None:
                    raise SymFail("branch on a non-constant value: not straight-line")
                r = self.block(s[2] if cv else s[3], env, depth)
                if r:
                    return r
            else:
                raise SymFail("statement kind %s" % k)
        return None

    def lv(self, e, env, depth):
        k = e[0]
        if k == "var":
            if e[1] in env:
                return env[e[1]], ()
            if e[1] in self.glob:
                return Cell(self.glob[e[1]]), ()
            raise SymFail("unknown variable %s" % e[1])
        if k == "index":
            base = self.ev(e[1], env, depth, want_ptr=True)
            i = self.ev(e[2], env, depth)
            ci = self.T.cval(i) if isinstance(i, int) else None
            if ci is None:
                raise SymFail("non-constant index")
            if isinstance(base, Ptr):
                tgt = get_path(base.cell.v, base.path) if base.path else base.cell.v
                if base.path and not isinstance(tgt, tuple):
                    # pointer into the middle of an array: offset the last index
                    return base.cell, base.path[:-1] + (base.path[-1] + ci,)
                return base.cell, base.path + (ci,)
            raise SymFail("index of non-pointer")
        if k == "un" and e[1] == "*":
            p = self.ev(e[2], env, depth, want_ptr=True)
            if isinstance(p, Ptr):
                return p.cell, p.path
            raise SymFail("deref of non-pointer")
        if k == "cast":
            return self.lv(e[1], env, depth)
        if k == "member":
            return self.lv(e[1], env, depth)      # single-field aggregates (uint32x4x2_t.val): the field is the value
        raise SymFail("lvalue %s" % k)

    def binop(self, op, a, b):
        T = self.T
        ca = T.cval(a) if isinstance(a, int) else None
        cb = T.cval(b) if isinstance(b, int) else None
        if isinstance(a, Ptr) and op in ("+",) and cb is not None:
            if a.path:
                return Ptr(a.cell, a.path[:-1] + (a.path[-1] + cb,))
            return Ptr(a.cell, (cb,))
        if ca is not None and cb is not None:
            r = {"+": ca + cb, "-": ca - cb, "*": ca * cb, "<<": ca << cb, ">>": ca >> cb, "|": ca | cb, "&": ca & cb, "^": ca ^ cb,
                 "<": int(ca < cb), ">": int(ca > cb), "==": int(ca == cb), "!=": int(ca != cb), "<=": int(ca <= cb), ">=": int(ca >= cb), "/": ca // cb if cb else 0, "%": ca % cb if cb else 0}.get(op)
            if r is None:
                raise SymFail("const op %s" % op)
            return T.const(r)
        if not (isinstance(a, int) and isinstance(b, int)):
            raise SymFail("operator %s on aggregate" % op)
        if op == "+":
            return T.add(a, b)
        if op == "^":
            return self.xor(a, b)
        if op == "|":
            return T.bor(a, b)
        if op in (">>", "<<") and cb is not None:
            return T.mk("shr" if op == ">>" else "shl", cb, a)
        return T.mk("bin", op, a, b)

    def ev(self, e, env, depth, want_ptr=False):
        T = self.T
        k = e[0]
        if k == "int":
            return T.const(e[1])
        if k == "enum":
            return T.const(e[2])
        if k == "var":
            cell, _ = self.lv(e, env, depth)
            v = cell.v
            if isinstance(v, tuple) and not isinstance(v, Ptr) and (want_ptr or True) and e[1] in env or (e[1] in self.glob and isinstance(v, tuple)):
                # arrays decay to a pointer to their first element when used as a value
                if isinstance(v, tuple) and v and not isinstance(v, Ptr):
                    return Ptr(cell, ())
            return v
        if k in ("index",) or (k == "un" and e[1] == "*"):
            cell, path = self.lv(e, env, depth)
            v = get_path(cell.v, path)
            if isinstance(v, tuple) and not isinstance(v, Ptr):
                return Ptr(cell, path)
            return v
        if k == "un" and e[1] == "&":
            cell, path = self.lv(e[2], env, depth)
            return Ptr(cell, path)
        if k == "un" and e[1] == "-":
            v = self.ev(e[2], env, depth)
            c = T.cval(v)
            if c is None:
                raise SymFail("negation")
            return T.const(-c)
        if k == "cast":
            return self.ev(e[1], env, depth, want_ptr)
        if k == "bin":
            return self.binop(e[1], self.ev(e[2], env, depth), self.ev(e[3], env, depth))
        if k == "call":
            if not isinstance(e[1], str):
                raise SymFail("indirect call")
            args = [self.ev(a, env, depth) for a in e[2]]
            return self.call(e[1], args, depth)
        if k == "init":
            return tuple(self.ev(x, env, depth) for x in e[1])
        if k == "un" and e[1] == "__extension__":
            return self.ev(e[2], env, depth, want_ptr)
        if k == "stmtexpr":
            inner = dict(env)             # shares the outer cells, its own declarations stay local
            stmts = list(e[1])
            last = stmts[-1] if stmts and stmts[-1][0] == "expr" else None
            r = self.block(stmts[:-1] if last else stmts, inner, depth)
            if r:
                raise SymFail("return inside a statement expression")
            return self.ev(last[1], inner, depth) if last else T.const(0)
        if k == "shufflevector":
            return self.shufflevector([self.ev(x, env, depth) for x in e[1]])
        if k == "member":
            return self.ev(e[1], env, depth, want_ptr)
        if k == "cond":
            c = T.cval(self.ev(e[1], env, depth))
            if c is None:
                raise SymFail("?: on non-constant")
            return self.ev(e[2] if c else e[3], env, depth)
        raise SymFail("expression %s" % (e[:2],))
