"""D rules: dispatch, feature gating, configuration invariance (C04)."""
import hashlib
import json
import os
import re
from mirlib import *
from r_hash import name_has, name_ends, calls_of
from r_io import has_guard

REPO = os.environ.get("VERIF_REPO", "/repo")
# x86 feature implication (rustc's target-feature table / Intel SDM): having the left implies the right
IMPLIES = {"avx512vl": ["avx512f"], "avx512f": ["avx2"], "avx2": ["avx"], "avx": ["sse4.2"], "sse4.2": ["sse4.1"],
           "sse4.1": ["ssse3"], "ssse3": ["sse3"], "sse3": ["sse2"], "sse2": ["sse"], "sse": []}
VARIANT_DETECT = {"SSE2": "sse2", "SSE41": "sse41", "AVX2": "avx2", "AVX512": "avx512"}
SPEC_FEATURES = {"sse2": {"sse2"}, "sse41": {"sse4.1"}, "avx2": {"avx2"}, "avx512": {"avx512f", "avx512vl"}}
ROUTE = {
    # NEON has no single-block kernel: Platform::NEON uses the portable compression (see the comment in platform.rs)
    "compress_in_place": {"Portable": "portable", "SSE2": "sse2", "SSE41": "sse41", "AVX2": "sse41", "AVX512": "avx512", "NEON": "portable"},
    "compress_xof": {"Portable": "portable", "SSE2": "sse2", "SSE41": "sse41", "AVX2": "sse41", "AVX512": "avx512", "NEON": "portable"},
    "hash_many": {"Portable": "portable", "SSE2": "sse2", "SSE41": "sse41", "AVX2": "avx2", "AVX512": "avx512", "NEON": "neon"},
}
MOD_NEEDS = {"portable": set(), "sse2": {"sse2"}, "sse41": {"sse4.1"}, "avx2": {"avx2"}, "avx512": {"avx512f", "avx512vl"}, "neon": set()}


def closure_of(feats):
    out = set()
    st = list(feats)
    while st:
        f = st.pop()
        if f in out:
            continue
        out.add(f)
        st.extend(IMPLIES.get(f, []))
    return out


def detect_tokens():
    """feature strings handed to cpufeatures::new! inside each *_detected (macro input, read from source)"""
    src = open(os.path.join(REPO, "src", "platform.rs")).read()
    out = {}
    for m in re.finditer(r"pub fn (\w+)_detected\(\) -> bool \{(.*?)\n\}", src, re.S):
        body = m.group(2)
        mm = re.search(r"cpufeatures::new!\(\s*(\w+)\s*,((?:\s*\"[^\"]+\"\s*,?)+)\s*\)", body)
        if mm:
            out[m.group(1)] = (mm.group(1), set(re.findall(r"\"([^\"]+)\"", mm.group(2))))
    return out


def variants_of(F):
    return [v["name"] for v in F.adts["platform::Platform"]["variants"]]


def module_requirements(F, mod):
    """ISA actually needed by the functions of a kernel module: #[target_feature] sets (Rust
    intrinsics) or the ISA suffix of the extern symbols its wrappers call (FFI)"""
    need = set()
    kinds = set()
    for p, f in F.fns.items():
        if not p.startswith(mod + "::") or not f.has_body:
            continue
        for tf in f.j.get("target_features", []):
            need.add(tf)
            kinds.add("target_feature")
        for bi, t in f.calls():
            if t["callee"].get("foreign"):
                sym = t["callee"]["path"].split("::")[-1]
                m = re.search(r"_(sse2|sse41|avx2|avx512|neon)$", sym)
                if m:
                    need |= MOD_NEEDS[m.group(1)] if m.group(1) in MOD_NEEDS else {m.group(1)}
                    kinds.add("ffi:" + m.group(1))
    return need, kinds


def rule_D1(ctx, F):
    variants = variants_of(F)
    if variants == ["Portable"]:
        det = F.need_fn("platform::Platform::detect")
        e = val(det.expr_local(0))
        ctx.ob(e[0] == "adt" and e[2] == "Portable", "detect-portable-only", det.loc, "detect() = %s" % show(e))
        return
    toks = detect_tokens()
    for v, d in VARIANT_DETECT.items():
        if v not in variants:
            continue
        t = toks.get(d)
        ctx.ob(t is not None and t[1] == SPEC_FEATURES[d], "detected-features:%s" % d, "src/platform.rs",
               "%s_detected() asks cpufeatures for %s ; required %s" % (d, sorted(t[1]) if t else "?", sorted(SPEC_FEATURES[d])))
        fn = F.need_fn("platform::%s_detected" % d)
        gets = [c for c in calls_of(fn) if c[1][1] == "platform::%s_detected::%s::get" % (d, t[0] if t else "?")]
        ctx.ob(len(gets) == 1, "detected-reads-own-cache:%s" % d, fn.loc, "%s_detected() returns %s::get(): %d call(s)" % (d, t[0] if t else "?", len(gets)))
        # the miri / no_* short-circuits precede the cache read: get() sits behind two const-false branches
        if gets:
            gs = guards_at(fn, gets[0][0])
            consts = [(c, tr) for c, tr in gs if c[0] == "const" and isinstance(c[2], int)]
            feasible = all(bool(c[2]) == tr for c, tr in consts)
            nofeat = "no_" + d
            off = nofeat in F.cfg_features()
            ctx.ob(len(consts) >= 2 and feasible == (not off), "short-circuit-before-cache:%s" % d, fn.loc,
                   "get() guarded by %d compile-time switches; reachable=%s, feature %s %s" % (len(consts), feasible, nofeat, "on" if off else "off"))
    # detect(): which *_detected true-edge returns which variant, in descending order of width
    det = F.need_fn("platform::Platform::detect")
    seen = {}
    # every place where a Platform variant is CONSTRUCTED inside detect() (helpers new to the inventory are inlined), with the
    # *_detected() calls on whose true edge it sits -- however the value then travels to the return (directly, through an Option, ..)
    for bi, si, st in det.stmts():
        rv = st["rv"]
        if rv.get("k") == "agg" and rv.get("adt", "").endswith("Platform") and rv.get("variant"):
            gs = guards_at(det, bi)
            pos = [c[1].split("::")[-1].replace("_detected", "") for c, tr in gs if tr is True and isinstance(c, tuple) and c[0] == "call" and c[1].endswith("_detected")]
            prev = seen.get(rv["variant"])
            seen[rv["variant"]] = pos if prev is None or len(pos) < len(prev) else prev
    for v, d in VARIANT_DETECT.items():
        if v in variants:
            ctx.ob(seen.get(v, [None])[-1:] == [d], "detect-returns:%s" % v, det.loc, "detect() returns Platform::%s on the true edge of %s ; required %s_detected()" % (v, seen.get(v), d))
    if "NEON" in variants:
        # cfg(blake3_neon): NEON is assumed (no run-time detection): detect() returns it unconditionally
        ctx.ob(seen.get("NEON") is not None and not seen.get("NEON"), "detect-returns:NEON", det.loc, "detect() returns Platform::NEON unconditionally under cfg(blake3_neon)")
    else:
        ctx.ob(seen.get("Portable") is not None and not seen.get("Portable"), "detect-fallback-portable", det.loc, "detect() falls back to Portable")
    for v, d in VARIANT_DETECT.items():
        if v not in variants:
            continue
        ctor = F.fn("platform::Platform::%s" % d)
        if ctor is not None:
            ok = False
            for b, gs, e in ret_alternatives(ctor):
                if e[0] == "adt" and e[2] == "Some" and e[4][0][0] == "adt" and e[4][0][2] == v:
                    ok = has_guard(gs, P.call("platform::%s_detected" % d), True) is not None
            ctx.ob(ok, "ctor-gated:%s" % d, ctor.loc, "Platform::%s() returns Some(%s) only on %s_detected(): %s" % (d, v, d, ok))
    # every dispatch arm: module requirements are implied by the variant's detected features
    for meth, table in ROUTE.items():
        fn = F.need_fn("platform::Platform::%s" % meth)
        arms = dispatch_arms(F, fn, variants)
        for v in variants:
            mod = arms.get(v)
            if mod is None:
                continue
            need, kinds = module_requirements(F, mod) if mod != "portable" else (set(), {"portable"})
            have = closure_of(SPEC_FEATURES.get(VARIANT_DETECT.get(v, ""), set()))
            ok = need <= have
            ctx.ob(ok, "arm-gated:%s:%s" % (meth, v), fn.loc, "Platform::%s => %s::%s needs %s (%s) ; variant guarantees %s" % (v, mod, meth, sorted(need), ",".join(sorted(kinds)), sorted(SPEC_FEATURES.get(VARIANT_DETECT.get(v, ""), set()))))


def dispatch_arms(F, fn, variants):
    """variant -> module of the kernel called on that arm of `match self`"""
    arms = {}
    SELF = ("arg", 1, "self")
    for bi, t in fn.calls():
        name = callee_name(t["callee"])
        mod = name.split("::")[0]
        if mod not in MOD_NEEDS:
            continue
        for c, tr in guards_at(fn, bi):
            if c == ("switchval", ("discr", SELF)) and isinstance(tr, int) and tr < len(variants):
                arms.setdefault(variants[tr], mod)
            if c == ("switchnot", ("discr", SELF)) and isinstance(tr, tuple):
                for i, v in enumerate(variants):
                    if i not in tr:
                        arms.setdefault(v, mod)
    # arms that share one block (`SSE41 | AVX2`): the call block is reached from several switch values
    for bi, b in enumerate(fn.blocks):
        t = b["term"]
        if t["k"] == "switch" and val(fn.expr_operand(t["op"])) == ("discr", SELF):
            for vi, tgt in t["targets"]:
                for b2, t2 in fn.calls():
                    mod = callee_name(t2["callee"]).split("::")[0]
                    if mod in MOD_NEEDS and (b2 == tgt or (fn.paths_avoiding(tgt, b2, set()) and not any(fn.paths_avoiding(tgt, o, set()) and o != b2 for o, t3 in fn.calls() if callee_name(t3["callee"]).split("::")[0] in MOD_NEEDS))):
                        if vi < len(variants):
                            arms.setdefault(variants[vi], mod)
            o = t["otherwise"]
            listed = [vi for vi, _ in t["targets"]]
            rest = [i for i in range(len(variants)) if i not in listed]
            for b2, t2 in fn.calls():
                mod = callee_name(t2["callee"]).split("::")[0]
                if mod in MOD_NEEDS and (b2 == o or fn.paths_avoiding(o, b2, set())) and fn.blocks[o]["term"]["k"] != "unreachable":
                    for i in rest:
                        arms.setdefault(variants[i], mod)
    if len(variants) == 1:
        for bi, t in fn.calls():
            mod = callee_name(t["callee"]).split("::")[0]
            if mod in MOD_NEEDS:
                arms.setdefault(variants[0], mod)
    return arms


def rule_D2(ctx, F):
    variants = variants_of(F)
    for meth, table in ROUTE.items():
        fn = F.need_fn("platform::Platform::%s" % meth)
        arms = dispatch_arms(F, fn, variants)
        for v in variants:
            want = table.get(v)
            ctx.ob(arms.get(v) == want, "route:%s:%s" % (meth, v), fn.loc, "Platform::%s.%s => %s ; routing table says %s" % (v, meth, arms.get(v), want))
        # arguments are passed through unchanged and in order
        params = [("arg", i, fn.names.get(i)) for i in range(2, fn.argc + 1)]
        for bi, t in fn.calls():
            name = callee_name(t["callee"])
            if name.split("::")[0] in MOD_NEEDS and name.endswith("::" + meth):
                e = val(fn.expr_call(t))
                ctx.ob(tuple(e[2]) == tuple(params), "passthrough:%s:%s" % (meth, name.split("::")[0]), t.get("s"),
                       "%s(%s) ; required (%s)" % (name, ", ".join(show(a) for a in e[2]), ", ".join(p[2] for p in params)))
    xm = F.need_fn("platform::Platform::xof_many")
    nat = [(bi, t) for bi, t in xm.calls() if callee_name(t["callee"]).endswith("avx512::xof_many")]
    if "AVX512" in variants and "asm" in F.cfg_flavour():
        ok = len(nat) == 1 and any(c == ("switchval", ("discr", ("arg", 1, "self"))) and tr == variants.index("AVX512") for c, tr in guards_at(xm, nat[0][0]))
        ctx.ob(ok, "route:xof_many:AVX512", xm.loc, "native xof_many only on the AVX512 arm: %s" % ok)
    else:
        ctx.ob(not nat or "AVX512" in variants, "route:xof_many:no-native", xm.loc, "%d native xof_many call(s)" % len(nat))


CORE_FILES = ("src/lib.rs", "src/hazmat.rs", "src/guts.rs", "src/portable.rs", "src/join.rs", "src/io.rs", "src/traits.rs", "src/platform.rs")


def exempt(p):
    return p.startswith("platform::Platform::") or "_detected" in p or p.startswith("<platform::Platform as")


def canon(x, abstract_len):
    if isinstance(x, dict):
        out = {}
        for k, v in x.items():
            if k in ("s", "x", "local", "resolved_local"):
                continue
            if k == "val" and "name" in x and str(x["name"]).split("::")[-1] in ("MAX_SIMD_DEGREE", "MAX_SIMD_DEGREE_OR_2"):
                continue
            if k == "bytes" and "name" in x and str(x["name"]).split("::")[-1] in ("MAX_SIMD_DEGREE", "MAX_SIMD_DEGREE_OR_2"):
                continue
            if abstract_len and k in ("n", "min", "sub_to") and isinstance(v, int):
                out[k] = "N"
                continue
            out[k] = canon(v, abstract_len)
        return out
    if isinstance(x, list):
        return [canon(v, abstract_len) for v in x]
    if isinstance(x, str):
        s = norm_path(x)
        if abstract_len:
            s = re.sub(r"; \d+\]", "; N]", s)
            s = re.sub(r", \d+>", ", N>", s)
            s = re.sub(r"^\d+$", "N", s)
        return s
    return x


def strip_cleanup(mir):
    """drop unwind-only (cleanup) blocks and renumber: targets without unwinding (panic=abort,
    e.g. the riscv64 no_std configuration) have none, and they carry no tree logic"""
    blocks = mir["blocks"]
    keep = [i for i, b in enumerate(blocks) if not b.get("cleanup")]
    remap = {old: new for new, old in enumerate(keep)}
    out = []
    for i in keep:
        b = json.loads(json.dumps(blocks[i]))
        t = b["term"]
        for k in ("t", "otherwise"):
            if isinstance(t.get(k), int):
                t[k] = remap.get(t[k], -1)
        if "targets" in t:
            t["targets"] = [[v, remap.get(x, -1)] for v, x in t["targets"]]
        if "succ" in t:
            t["succ"] = [remap.get(x, -1) for x in t["succ"]]
        out.append(b)
    m = dict(mir)
    m["blocks"] = out
    return m


def body_hash(f, abstract_len):
    j = dict(f.j)
    if j.get("mir"):
        j["mir"] = strip_cleanup(j["mir"])
    for k in ("s", "file", "pub"):
        j.pop(k, None)
    return hashlib.sha256(json.dumps(canon(j, abstract_len), sort_keys=True).encode()).hexdigest()[:16]


def core_fns(F):
    out = {}
    for p, f in F.fns.items():
        if not f.has_body or exempt(p):
            continue
        if f.file in CORE_FILES or f.loc.rsplit(":", 1)[0] in CORE_FILES:
            out[p] = f
    return out


def rule_D3(ctx, facts_by_cfg):
    """configuration invariance of the tree logic: identical span-free MIR across feature sets / flavours"""
    cfgs = sorted(facts_by_cfg)
    ref = "asm-full" if "asm-full" in facts_by_cfg else cfgs[0]
    R = core_fns(facts_by_cfg[ref])
    ctx.floor("core function bodies in the reference configuration", len(R), 100)
    ndiff = ncmp = 0
    maxdeg = {c: facts_by_cfg[c].const_val("platform::MAX_SIMD_DEGREE") for c in cfgs}
    import extract
    ptr = lambda c: extract.CONFIGS.get(c, {}).get("ptr", 64)
    refs = {ptr(ref): ref}
    Rs = {ref: R}
    for c in cfgs:
        if c == ref:
            continue
        C = core_fns(facts_by_cfg[c])
        if ptr(c) not in refs:
            # MIR legitimately differs between pointer widths (integer cast kinds, layout-dependent constants): configurations of
            # another width are compared among themselves, the first of them being that group's reference
            refs[ptr(c)] = c
            Rs[c] = C
            ctx.ob(True, "config-invariant:compared:%s" % c, "", "reference configuration of the %d-bit group (%d function bodies)" % (ptr(c), len(C)), cfg=c)
            continue
        ref, R = refs[ptr(c)], Rs[refs[ptr(c)]]
        same_group = maxdeg[c] == maxdeg[ref]
        common = sorted(set(R) & set(C))
        ctx.floor("functions common to %s and %s" % (ref, c), len(common), 60)
        for p in common:
            ncmp += 1
            a = body_hash(R[p], not same_group)
            b = body_hash(C[p], not same_group)
            if a != b:
                ndiff += 1
                ctx.ob(False, "config-invariant:%s" % p, C[p].loc, "MIR of %s differs between %s and %s%s" % (p, ref, c, "" if same_group else " (array lengths abstracted)"), cfg=c)
        ctx.ob(True, "config-invariant:compared:%s" % c, "", "%d function bodies identical to %s" % (len(common), ref), cfg=c)
    ctx.extra["D3"] = dict(reference=ref, compared=ncmp, differing=ndiff, max_simd_degree=maxdeg)
