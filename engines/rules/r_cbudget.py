"""PB (pointer/length budget discipline) for the C library's caller buffers.

For every function of c/blake3.c that receives a caller buffer as a (pointer, length) pair, every
access through the pointer -- memcpy/memset, a kernel call with a fixed or argument-derived
footprint, a pointer stored for hash_many, or forwarding to another function of the table -- must
have a footprint that is provably <= the remaining length *at that program point*, the pointer and
the length may only move together (P += e immediately paired with L -= e, e <= L), and every other
use of the pointer fails closed.  The proof obligations are discharged by a small syntactic `<=`
prover over guard facts (if / while conditions, early returns), the clamp idioms of the repository
(`if (t > L) t = L;`, `L > a ? a : L`), floor forms (L / c * c, L & -c, c * (L / c)) and the
summaries listed in SUMMARIES (recorded as assumptions in the evidence)."""
import os

import r_c
from r_c import tu, need, where, cshow
from mirlib import MissingAnchor

# function -> (pointer param, length param, 'r' | 'w')
PAIRS = {
    "output_root_bytes": ("out", "out_len", "w"),
    "blake3_hasher_finalize_seek": ("out", "out_len", "w"),
    "blake3_hasher_finalize": ("out", "out_len", "w"),
    "chunk_state_fill_buf": ("input", "input_len", "r"),
    "chunk_state_update": ("input", "input_len", "r"),
    "blake3_hasher_update_base": ("input", "input_len", "r"),
    "blake3_hasher_update": ("input", "input_len", "r"),
    "blake3_hasher_update_tbb": ("input", "input_len", "r"),
    "compress_chunks_parallel": ("input", "input_len", "r"),
    "blake3_compress_subtree_wide": ("input", "input_len", "r"),
    "compress_subtree_to_parent_node": ("input", "input_len", "r"),
    "blake3_hasher_init_derive_key_raw": ("context", "context_len", "r"),
}
# second pair of the TBB seam (both halves are forwarded)
EXTRA_FORWARD = {"blake3_compress_subtree_wide_join_tbb": [(3, 4), (8, 9)]}
# callee -> list of (pointer arg index, footprint): int = bytes, ('arg', i, k) = k * args[i]
FOOTPRINT = {
    "memcpy": [(0, ("arg", 2, 1)), (1, ("arg", 2, 1))],
    "memset": [(0, ("arg", 2, 1))],
    "blake3_compress_in_place": [(1, 64)],
    "blake3_compress_xof": [(1, 64), (5, 64)],
    "blake3_xof_many": [(1, 64), (5, ("arg", 6, 64))],
}
# callee(x) <= x  (assumptions, see DESIGN.md: proved for the Rust twins by C09/H1, C twins compared in C06)
SUMMARIES = {"round_down_to_power_of_2": 0, "left_subtree_len": 0, "chunk_state_fill_buf": 2}
CONSTS = {"BLAKE3_BLOCK_LEN": 64, "BLAKE3_CHUNK_LEN": 1024, "BLAKE3_OUT_LEN": 32, "BLAKE3_KEY_LEN": 32}


def V(n):
    return ("var", n)


def norm(e):
    """drop var kinds, casts and fold the named constants"""
    if not isinstance(e, tuple) or not e:
        return e
    if e[0] == "var":
        return ("int", CONSTS[e[1]]) if e[1] in CONSTS else ("var", e[1])
    if e[0] == "enum":
        return ("int", e[2])
    if e[0] == "cast":
        return norm(e[1])
    if e[0] == "int":
        return ("int", e[1])
    out = tuple(norm(x) if isinstance(x, tuple) else x for x in e)
    if out[0] == "bin" and out[1] == ">" and out[3] == ("int", 0):
        out = ("bin", "!=", out[2], out[3])          # sizes and counts are unsigned here: x > 0 is x != 0
    if out[0] == "bin" and out[2][0] == "int" and out[3][0] == "int":
        a, b = out[2][1], out[3][1]
        r = {"+": a + b, "-": a - b, "*": a * b, "/": a // b if b else None}.get(out[1])
        if r is not None:
            return ("int", r)
    if out[0] == "un" and out[1] == "-" and out[2][0] == "int":
        return ("int", -out[2][1])
    return out


def mentions(e, name):
    if not isinstance(e, tuple) or not e:
        return False
    if e[0] == "var" and e[1] == name:
        return True
    return any(mentions(x, name) for x in e if isinstance(x, tuple))


class Facts:
    def __init__(self, le=()):
        self.le = set(le)        # (a, b): a <= b

    def copy(self):
        return Facts(self.le)

    def kill(self, name):
        self.le = {f for f in self.le if not mentions(f[0], name) and not mentions(f[1], name)}

    def add_cond(self, c, truth):
        c = norm(c)
        if c[0] == "un" and c[1] == "!":
            return self.add_cond(c[2], not truth)
        if c[0] == "bin" and c[1] in ("<", "<=", ">", ">=", "==", "!="):
            op, a, b = c[1], c[2], c[3]
            if not truth:
                op = {"<": ">=", "<=": ">", ">": "<=", ">=": "<", "==": "!=", "!=": "=="}[op]
            if op in ("<", "<="):
                self.le.add((a, b))
            elif op in (">", ">="):
                self.le.add((b, a))
            elif op == "==":
                self.le.add((a, b))
                self.le.add((b, a))
        elif c[0] == "bin" and c[1] == "&&" and truth:
            self.add_cond(c[2], True)
            self.add_cond(c[3], True)
        elif c[0] == "bin" and c[1] == "||" and not truth:
            self.add_cond(c[2], False)
            self.add_cond(c[3], False)

    def prove_le(self, s, b, depth=0):
        s, b = norm(s), norm(b)
        if s == b or s == ("int", 0):
            return True
        if (s, b) in self.le:
            return True
        if s[0] == "int":
            for (x, y) in self.le:
                if y == b and x[0] == "int" and x[1] >= s[1]:
                    return True
        # floor forms of b itself
        if s[0] == "bin" and s[1] == "&" and s[2] == b and s[3][0] == "int" and s[3][1] < 0:
            return True
        if s[0] == "bin" and s[1] == "*":
            for x, y in ((s[2], s[3]), (s[3], s[2])):
                if x[0] == "int" and y[0] == "bin" and y[1] == "/" and y[2] == b and y[3] == x:
                    return True
        if s[0] == "bin" and s[1] == "/" and s[3][0] == "int" and s[3][1] >= 1 and depth < 4:
            return self.prove_le(s[2], b, depth + 1)
        if s[0] == "call" and isinstance(s[1], str) and s[1] in SUMMARIES and depth < 4:
            return self.prove_le(s[2][SUMMARIES[s[1]]], b, depth + 1)
        if s[0] == "cond":   # c ? x : y
            f1, f2 = self.copy(), self.copy()
            f1.add_cond(s[1], True)
            f2.add_cond(s[1], False)
            return f1.prove_le(s[2], b, depth + 1) and f2.prove_le(s[3], b, depth + 1)
        # transitivity, one step
        if depth < 3:
            for (x, y) in list(self.le):
                if x == s and y != s and self.prove_le(y, b, depth + 1):
                    return True
        return False


def join(a, b):
    """facts holding on both sides (semantic, not just syntactic, membership)"""
    return Facts({f for f in a.le if b.prove_le(f[0], f[1])} | {f for f in b.le if a.prove_le(f[0], f[1])})


class Checker:
    def __init__(self, ctx, t, fname, f, P, L, kind):
        self.ctx, self.t, self.fname, self.f = ctx, t, fname, f
        self.pairs = {P: L}          # pointer var -> its length var
        self.kind = kind
        self.problems = []
        self.sites = 0
        self.arrays = {}             # local pointer array -> footprint of each element (from the hash_many call)
        for s, g in r_c.walk_stmts(f["body"]):
            e = s[1] if s[0] == "expr" else (s[3] if s[0] in ("decl", "assign") else None)
            if e and e[0] == "call" and e[1] == "blake3_hash_many":
                a = e[2]
                if a[0][0] == "var":
                    blocks = norm(a[2])
                    self.arrays[a[0][1]] = ("int", 64 * blocks[1]) if blocks[0] == "int" else None

    def bad(self, line, msg):
        self.problems.append("line %s: %s" % (line, msg))

    def budget(self, e, facts):
        """(pointer-derived?, budget expression) of a pointer expression"""
        e = norm(e)
        if e[0] == "var" and e[1] in self.pairs:
            return True, V(self.pairs[e[1]])
        if e[0] == "un" and e[1] == "&" and e[2][0] == "index" and e[2][1][0] == "var" and e[2][1][1] in self.pairs:
            L = V(self.pairs[e[2][1][1]])
            pos = e[2][2]
            if not facts.prove_le(pos, L):
                return True, None
            return True, ("bin", "-", L, pos)
        for p in self.pairs:
            if mentions(e, p):
                return True, None
        return False, None

    def need_le(self, size, ptr_expr, facts, line, what):
        derived, b = self.budget(ptr_expr, facts)
        if not derived:
            return
        self.sites += 1
        if b is None:
            self.bad(line, "%s: pointer expression %s is not of a recognised in-bounds form" % (what, cshow(ptr_expr)))
        elif not facts.prove_le(size, b):
            self.bad(line, "%s touches %s bytes at %s but only %s are known to remain" % (what, cshow_n(size), cshow(ptr_expr), cshow_n(b)))

    def call(self, e, facts, line):
        name, args = e[1], e[2]
        if not isinstance(name, str):
            return
        for a in args:
            if a[0] == "call":
                self.call(a, facts, line)
        handled = set()
        if name in FOOTPRINT:
            for idx, fp in FOOTPRINT[name]:
                size = ("int", fp) if isinstance(fp, int) else norm(("bin", "*", ("int", fp[2]), args[fp[1]])) if fp[2] != 1 else norm(args[fp[1]])
                if name == "blake3_xof_many" and idx == 5:
                    n = norm(args[6])
                    size = ("bin", "*", ("int", 64), n)
                self.need_le(size, args[idx], facts, line, name)
                handled.add(idx)
        fwd = []
        if name in PAIRS:
            pf = need(self.t, name)
            names = [p[0] for p in pf["params"]]
            fwd.append((names.index(PAIRS[name][0]), names.index(PAIRS[name][1])))
        fwd += EXTRA_FORWARD.get(name, [])
        for pi, li in fwd:
            self.need_le(args[li], args[pi], facts, line, "forwarding to %s" % name)
            handled.add(pi)
        for i, a in enumerate(args):
            if i in handled:
                continue
            d, _ = self.budget(a, facts)
            if d:
                self.sites += 1
                self.bad(line, "caller buffer passed to %s (argument %d) whose footprint is not in the table" % (name, i))

    def expr_uses(self, e, facts, line):
        if not isinstance(e, tuple):
            return
        if e[0] == "call":
            self.call(e, facts, line)
            return
        if e[0] == "var" and e[1] in self.pairs:
            self.sites += 1
            self.bad(line, "unrecognised use of the caller buffer pointer %s" % e[1])
            return
        if e[0] in ("un",) and e[1] == "*" or e[0] == "index":
            d, _ = self.budget(e[2] if e[0] == "un" else e[1], facts)
            if d:
                self.sites += 1
                self.bad(line, "direct dereference of the caller buffer: %s" % cshow(e))
                return
        for x in e:
            if isinstance(x, tuple):
                self.expr_uses(x, facts, line)

    def walk(self, stmts, facts):
        """returns facts at fall-through, or None when every path returns"""
        i = 0
        while i < len(stmts):
            s = stmts[i]
            i += 1
            k = s[0]
            line = s[-1] if isinstance(s[-1], int) else (s[4] if len(s) > 4 else "?")
            if k == "decl":
                name, init = s[1], s[3]
                facts.kill(name)
                if init is None:
                    continue
                ni = norm(init)
                # alias: X = (cast) P
                if ni[0] == "var" and ni[1] in self.pairs:
                    self.pairs[name] = self.pairs.pop(ni[1])
                    continue
                # derived pair: X = &P[a], with  XL = L - a  declared beside it
                d, b = self.budget(init, facts)
                if d and ni[0] == "un":
                    if b is None:
                        self.bad(line, "%s = %s: offset not known to be within the buffer" % (name, cshow(init)))
                        continue
                    lens = [v for (x, v) in facts.le if x == b and v[0] == "var"]
                    eq = [v[1] for v in lens if (v, b) in facts.le]
                    if eq:
                        self.pairs[name] = eq[0]
                    else:
                        self.bad(line, "%s = %s has no length variable equal to %s" % (name, cshow(init), cshow_n(b)))
                    continue
                self.expr_uses(init, facts, line)
                facts.le.add((V(name), ni))
                facts.le.add((ni, V(name)))
                if ni[0] == "cond" or ni[0] == "call":
                    for L in set(self.pairs.values()):
                        if facts.prove_le(ni, V(L)):
                            facts.le.add((V(name), V(L)))
                continue
            if k == "assign":
                op, tgt, rhs = s[1], norm(s[2]), s[3]
                nr = norm(rhs)
                if tgt[0] == "var" and tgt[1] in self.pairs and op == "+=":
                    L = self.pairs[tgt[1]]
                    nxt = stmts[i] if i < len(stmts) else None
                    if not (nxt and nxt[0] == "assign" and nxt[1] == "-=" and norm(nxt[2]) == V(L) and norm(nxt[3]) == nr):
                        self.bad(line, "%s += %s is not immediately paired with %s -= %s" % (tgt[1], cshow(rhs), L, cshow(rhs)))
                    elif not facts.prove_le(nr, V(L)):
                        self.bad(line, "%s advances by %s, not known to be <= %s" % (tgt[1], cshow(rhs), L))
                    else:
                        i += 1
                    self.sites += 1
                    keep = [(a, b) for (a, b) in facts.le if False]
                    facts.kill(L)
                    continue
                if tgt[0] == "var" and (tgt[1] in self.pairs or tgt[1] in self.pairs.values()):
                    self.sites += 1
                    self.bad(line, "%s %s %s: the buffer pointer and its length may only move together (P += e; L -= e)" % (tgt[1], op, cshow(rhs)))
                    facts.kill(tgt[1])
                    continue
                # pointer stored for hash_many
                if tgt[0] == "index" and tgt[1][0] == "var" and tgt[1][1] in self.arrays:
                    fp = self.arrays[tgt[1][1]]
                    if fp is None:
                        self.bad(line, "pointer stored for a hash_many call whose block count is not constant")
                    else:
                        self.need_le(fp, rhs, facts, line, "pointer stored for blake3_hash_many")
                    continue
                self.expr_uses(rhs, facts, line)
                if tgt[0] == "var":
                    name = tgt[1]
                    if op == "=":
                        facts.kill(name)
                        if not mentions(nr, name):
                            facts.le.add((V(name), nr))
                            facts.le.add((nr, V(name)))
                            for L in set(self.pairs.values()):
                                if facts.prove_le(nr, V(L)):
                                    facts.le.add((V(name), V(L)))
                    elif op == "/=" and nr[0] == "int" and nr[1] >= 1:
                        ups = {(a, b) for (a, b) in facts.le if a == V(name) and not mentions(b, name)}
                        facts.kill(name)
                        facts.le |= ups
                    elif op == "+=" and nr[0] == "int":
                        # pos += c under (c <= L - pos) keeps pos <= L
                        keep = set()
                        for L in set(self.pairs.values()):
                            if facts.prove_le(V(name), V(L)) and facts.prove_le(nr, ("bin", "-", V(L), V(name))):
                                keep.add((V(name), V(L)))
                        facts.kill(name)
                        facts.le |= keep
                    else:
                        facts.kill(name)
                continue
            if k == "expr":
                e = s[1]
                if e[0] == "un" and e[1] in ("++", "--", "post++", "post--") and e[2][0] == "var":
                    facts.kill(e[2][1])
                    continue
                self.expr_uses(e, facts, line)
                continue
            if k == "return":
                if s[1] is not None:
                    self.expr_uses(s[1], facts, line)
                return None
            if k == "if":
                subs = [x for x in s if isinstance(x, list)]
                self.expr_uses(s[1], facts, line)
                f_then = facts.copy()
                f_then.add_cond(s[1], True)
                f_else = facts.copy()
                f_else.add_cond(s[1], False)
                # the clamp idiom: if (t > L) { t = L; }
                r_then = self.walk(subs[0], f_then) if subs else f_then
                r_else = self.walk(subs[1], f_else) if len(subs) > 1 else f_else
                if r_then is None and r_else is None:
                    return None
                if r_then is None:
                    facts = r_else
                elif r_else is None:
                    facts = r_then
                else:
                    facts = join(r_then, r_else)
                continue
            if k == "loop":
                subs = [x for x in s if isinstance(x, list)]
                body = subs[0] if subs else []
                cond = s[2]
                # facts at the loop head: those that survive one abstract iteration (computed twice = fixpoint for kill/gen)
                head = facts.copy()
                for _ in range(3):
                    fb = head.copy()
                    if cond is not None:
                        fb.add_cond(cond, True)
                    saved, self.problems, saved_sites = self.problems, [], self.sites
                    out = self.walk(body, fb)
                    self.problems, self.sites = saved, saved_sites
                    nh = join(head, out) if out is not None else head
                    if nh.le == head.le:
                        break
                    head = nh
                fb = head.copy()
                if cond is not None:
                    self.expr_uses(cond, head, line)
                    fb.add_cond(cond, True)
                self.walk(body, fb)
                facts = head.copy()
                if cond is not None:
                    facts.add_cond(cond, False)
                continue
            # anything else
            for x in s:
                if isinstance(x, tuple):
                    self.expr_uses(x, facts, line)
        return facts


def cshow_n(e):
    e = norm(e)
    if e[0] == "int":
        return str(e[1])
    if e[0] == "var":
        return e[1]
    if e[0] == "bin":
        return "(%s %s %s)" % (cshow_n(e[2]), e[1], cshow_n(e[3]))
    return cshow(e)


def rule_PB(ctx):
    n = 0
    for defs in ((), ("BLAKE3_USE_TBB",)):
        t = tu("c/blake3.c", defs)
        for fname, (P, L, kind) in PAIRS.items():
            f = t.funcs.get(fname)
            if f is None:
                if fname == "blake3_hasher_update_tbb" and not defs:
                    continue
                raise MissingAnchor("%s in c/blake3.c" % fname)
            pn = [p[0] for p in f["params"]]
            if P not in pn or L not in pn:
                raise MissingAnchor("%s(%s, %s)" % (fname, P, L))
            ck = Checker(ctx, t, fname, f, P, L, kind)
            facts = Facts()
            ck.walk(f["body"], facts)
            n += 1
            tag = "+tbb" if defs else ""
            ctx.ob(not ck.problems, "buffer-budget:%s%s" % (fname, tag), where(t, f["line"]),
                   "; ".join(ck.problems)[:400] or "%d use(s) of (%s, %s): every %s footprint <= the remaining length, pointer and length move together"
                   % (ck.sites, P, L, "write" if kind == "w" else "read"))
            ctx.ob(ck.sites >= 1, "buffer-budget-sites:%s%s" % (fname, tag), where(t, f["line"]), "%d site(s) examined" % ck.sites)
    ctx.floor("C functions with a caller (pointer, length) pair", n, 23)
