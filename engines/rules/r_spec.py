"""C15: test_vectors.json against the checker-side spec model (data validation, no repository code
runs) and structural rules on reference_impl."""
import json
import os
import struct
import sys
from mirlib import *
import r_flags
from r_flags import ROOT, PARENT, CS, CE, MODE_BITS, bits
from r_hash import name_has, name_ends, calls_of
from r_io import has_guard
sys.path.insert(0, os.path.join(os.path.dirname(os.path.dirname(os.path.abspath(__file__))), "specmodel"))
import blake3_spec as spec

REPO = os.environ.get("VERIF_REPO", "/repo")
SPEC_CASES = [0, 1, 2, 3, 4, 5, 6, 7, 8, 63, 64, 65, 127, 128, 129, 1023, 1024, 1025, 2048, 2049, 3072, 3073, 4096, 4097,
              5120, 5121, 6144, 6145, 7168, 7169, 8192, 8193, 16384, 31744, 102400]


def rule_testvectors(ctx):
    path = os.path.join(REPO, "test_vectors", "test_vectors.json")
    if not os.path.exists(path):
        raise MissingAnchor("test_vectors/test_vectors.json")
    d = json.load(open(path))
    key = d["key"].encode()
    context = d["context_string"]
    cases = d["cases"]
    ctx.floor("test vector cases", len(cases), 35)
    ctx.ob(len(key) == 32, "json-key-length", "test_vectors/test_vectors.json", "key %r is %d bytes" % (d["key"], len(key)))
    lens = [c["input_len"] for c in cases]
    ctx.ob(lens == SPEC_CASES, "json-case-lengths", "test_vectors/test_vectors.json", "input lengths %s" % lens)
    nbytes = 0
    maxlen = max(lens + [0])
    data = bytes(i % 251 for i in range(maxlen))
    for c in cases:
        n = c["input_len"]
        inp = data[:n]
        for mode in ("hash", "keyed_hash", "derive_key"):
            want_hex = c[mode]
            olen = len(want_hex) // 2
            if mode == "hash":
                got = spec.blake3(inp, olen)
            elif mode == "keyed_hash":
                got = spec.blake3(inp, olen, key=key)
            else:
                got = spec.blake3(inp, olen, context=context)
            nbytes += olen
            ok = got.hex() == want_hex and olen == 131
            first = next((i for i in range(min(len(got), olen)) if got.hex()[2 * i:2 * i + 2] != want_hex[2 * i:2 * i + 2]), None)
            ctx.ob(ok, "vector:%d:%s" % (n, mode), "test_vectors/test_vectors.json",
                   "input_len=%d mode=%s: %d output bytes %s the spec model%s" % (n, mode, olen, "equal" if ok else "DIFFER from",
                                                                                 "" if ok else " (first differing offset %s, length %d)" % (first, olen)))
    ctx.extra["json_bytes_validated"] = nbytes


def rule_testvec_consts(ctx, F):
    """the generator's constants equal the JSON header (TEST_KEY / TEST_CONTEXT / TEST_CASES / OUTPUT_LEN)"""
    d = json.load(open(os.path.join(REPO, "test_vectors", "test_vectors.json")))
    k = F.const_bytes("TEST_KEY")
    ctx.ob(k == d["key"].encode(), "TEST_KEY", F.consts["TEST_KEY"]["s"], "TEST_KEY = %r ; json key %r" % (k, d["key"]))
    c = F.const_bytes("TEST_CONTEXT")
    ctx.ob(c == d["context_string"].encode(), "TEST_CONTEXT", F.consts["TEST_CONTEXT"]["s"], "TEST_CONTEXT = %r" % c)
    tc = F.const_bytes("TEST_CASES")
    got = [int.from_bytes(tc[i:i + 8], "little") for i in range(0, len(tc), 8)]
    ctx.ob(got == [x["input_len"] for x in d["cases"]] == SPEC_CASES, "TEST_CASES", F.consts["TEST_CASES"]["s"], "TEST_CASES = %s" % got)
    ctx.ob(F.const_val("OUTPUT_LEN") == 131, "OUTPUT_LEN", F.consts["OUTPUT_LEN"]["s"], "OUTPUT_LEN = %s ; 2*BLOCK_LEN+3 = 131" % F.const_val("OUTPUT_LEN"))


def rule_ref_consts(ctx, F):
    iv = F.const_bytes("IV")
    words = list(struct.unpack("<8I", iv)) if len(iv) == 32 else []
    ctx.ob(words == spec.IV, "ref-IV", F.consts["IV"]["s"], "reference IV = %s" % ["%08x" % w for w in words])
    mp = F.const_bytes("MSG_PERMUTATION")
    got = [int.from_bytes(mp[i:i + 8], "little") for i in range(0, len(mp), 8)]
    ctx.ob(got == spec.SIGMA, "ref-MSG_PERMUTATION", F.consts["MSG_PERMUTATION"]["s"], "MSG_PERMUTATION = %s ; spec %s" % (got, spec.SIGMA))
    for n, v in r_flags.SPEC_FLAGS.items():
        ctx.ob(F.const_val(n) == v, "ref-flag:%s" % n, F.consts[n]["s"], "%s = %s" % (n, F.const_val(n)))
    for n, v in (("OUT_LEN", 32), ("KEY_LEN", 32), ("BLOCK_LEN", 64), ("CHUNK_LEN", 1024)):
        ctx.ob(F.const_val(n) == v, "ref-size:%s" % n, F.consts[n]["s"], "%s = %s" % (n, F.const_val(n)))
    # permute(): permuted[i] = m[MSG_PERMUTATION[i]]
    pm = F.need_fn("permute")
    st = [(bi, s) for bi, si, s in pm.stmts() if s["k"] == "assign" and s["place"]["p"] and isinstance(s["place"]["p"][-1], dict) and "idx" in s["place"]["p"][-1]]
    ok = False
    for bi, s in st:
        tgt = val(pm.expr_place(s["place"]))
        v = val(pm.expr_rvalue(s["rv"]))
        I = W("i")
        m1 = unify(("path", W(), (("idx", I),)), tgt)
        want = ("path", ("arg", 1, "m"), (("idx", ("path", ("const", "MSG_PERMUTATION", W()), (("idx", I),))),))
        if m1 and unify(want, v, m1) is not None:
            ok = True
    ctx.ob(ok, "ref-permute", pm.loc, "permute: permuted[i] = m[MSG_PERMUTATION[i]]: %s" % ok)
    # compress(): 7 rounds, 6 permutes, alternating
    cp = F.need_fn("compress")
    seq = [callee_name(t["callee"]) for bi, t in sorted(cp.calls(), key=lambda x: x[0]) if callee_name(t["callee"]) in ("round", "permute")]
    # order along the straight-line chain
    order = []
    b = 0
    seen = set()
    while b not in seen and b is not None:
        seen.add(b)
        t = cp.blocks[b]["term"]
        if t["k"] == "call" and callee_name(t["callee"]) in ("round", "permute"):
            order.append(callee_name(t["callee"]))
        nx = cp.succ(b)
        b = nx[0] if len(nx) == 1 else None
    want = ["round", "permute"] * 6 + ["round"]
    ctx.ob(order == want, "ref-seven-rounds", cp.loc, "compress: %s" % " ".join(o[0] for o in order))
    # state initialisation: cv[0..8], IV[0..4], counter_low, counter_high, block_len, flags
    st0 = None
    for bi, si, s in cp.stmts():
        if s["k"] == "assign" and s["rv"]["k"] == "agg" and s["rv"].get("agg") == "array" and len(s["rv"]["ops"]) == 16:
            st0 = [val(cp.expr_operand(o)) for o in s["rv"]["ops"]]
    ok = st0 is not None
    if ok:
        CVa = ("arg", 1, "chaining_value")
        for i in range(8):
            ok = ok and st0[i] == ("path", CVa, (("cidx", i, False),)) or ok and unify(("path", CVa, (("idx", P.const(i)),)), st0[i]) is not None
        for i in range(4):
            ok = ok and (unify(("path", ("const", "IV", W()), (("idx", P.const(i)),)), st0[8 + i]) is not None or unify(("path", ("const", "IV", W()), (("cidx", i, False),)), st0[8 + i]) is not None)
        ok = ok and unify(P.cast(P.arg("counter"), "u32"), st0[12]) is not None
        ok = ok and unify(P.cast(P.bin("Shr", P.arg("counter"), P.const(32)), "u32"), st0[13]) is not None
        ok = ok and st0[14] == ("arg", 4, "block_len") and st0[15] == ("arg", 5, "flags")
    ctx.ob(ok, "ref-state-init", cp.loc, "state = [cv[0..8], IV[0..4], counter_low, counter_high, block_len, flags]: %s" % ok)


def rule_ref_flags(ctx, F):
    A = r_flags.analysis(F, ("u32",))
    S = lambda *n: ("path", ("arg", 1, "self"), tuple(n))
    table = {
        ("Output::chaining_value", 1): dict(mustnot=ROOT, counter=S("counter"), block_len=S("block_len")),
        ("Output::root_output_bytes", 1): dict(must=ROOT, counter=("phi", W(), "output_block_counter"), block_len=S("block_len")),
        ("ChunkState::update", 1): dict(mustnot=ROOT | PARENT | CE, counter=S("chunk_counter"), block_len=P.cast(P.named("BLOCK_LEN"), "u32")),
    }
    seen = set()
    for p, fn in F.fns.items():
        if not fn.has_body:
            continue
        n = 0
        for bi, t in fn.calls():
            if callee_name(t["callee"]) != "compress":
                continue
            n += 1
            key = (p, n)
            seen.add(key)
            spec_ = table.get(key)
            e = val(fn.expr_call(t))
            if spec_ is None:
                ctx.ob(False, "ref-unknown-sink:%s#%d" % key, t.get("s"), "compress call not in the table: %s" % show(e)[:160])
                continue
            fl = A.ev(fn, fn.expr_operand(t["args"][4]))
            ok = (fl[0] & spec_.get("must", 0)) == spec_.get("must", 0) and not (fl[1] & spec_.get("mustnot", 0))
            ctx.ob(ok, "ref-sink-flags:%s#%d" % key, t.get("s"), "flags %s must={%s} may={%s}" % (show(e[2][4])[:60], bits(fl[0]), bits(fl[1])))
            ctx.ob(unify(spec_["counter"], e[2][2]) is not None, "ref-sink-counter:%s#%d" % key, t.get("s"), "counter %s" % show(e[2][2]))
            ctx.ob(unify(spec_["block_len"], e[2][3]) is not None, "ref-sink-block_len:%s#%d" % key, t.get("s"), "block_len %s" % show(e[2][3]))
    for key in table:
        if key not in seen:
            ctx.ob(False, "ref-sink-missing:%s#%d" % key, "", "expected compress site not found")
    # output block counter: 0, then +1 per block
    ro = F.need_fn("Output::root_output_bytes")
    l = [x for x in range(len(ro.locals)) if ro.names.get(x) == "output_block_counter"]
    alts = [val(a) for a in ro.phi_alts(l[0])] if l else []
    ok = len(alts) == 2 and ("const", None, 0) in alts and any(unify(P.bin("Add", ("phi", W(), "output_block_counter"), P.const(1)), a) is not None for a in alts)
    ctx.ob(ok, "ref-output-counter", ro.loc, "output_block_counter in {%s}" % ", ".join(show(a) for a in alts))
    f1 = A.get(("field", "ChunkState", "flags"))
    f2 = A.get(("field", "Hasher", "flags"))
    f3 = A.get(("field", "Output", "flags"))
    ctx.ob((f1[1] & ~MODE_BITS) == 0 and (f2[1] & ~MODE_BITS) == 0 and f1 != r_flags.BOT, "ref-stored-flags-mode-only", F.adts["Hasher"]["s"], "Hasher.flags may={%s} ChunkState.flags may={%s}" % (bits(f2[1]), bits(f1[1])))
    ctx.ob(not (f3[1] & ROOT) and f3 != r_flags.BOT, "ref-output-flags-no-root", F.adts["Output"]["s"], "Output.flags may={%s}" % bits(f3[1]))
    # literals
    co = F.need_fn("ChunkState::output")
    e = val(co.expr_local(0))
    fl = None
    if e[0] == "adt":
        fields = dict(zip(e[3], e[4]))
        for bi, si, s in co.stmts():
            if s["k"] == "assign" and s["rv"]["k"] == "agg" and s["rv"].get("adt") == "Output":
                fl = A.ev(co, co.expr_operand(s["rv"]["ops"][s["rv"]["fields"].index("flags")]))
        ok = fl is not None and (fl[0] & CE) and not (fl[1] & (PARENT | ROOT)) and fields["counter"] == S("chunk_counter") \
            and unify(P.cast(S("block_len"), "u32"), fields["block_len"]) is not None and fields["input_chaining_value"] == S("chaining_value")
        ctx.ob(bool(ok), "ref-chunk-output", co.loc, "chunk output flags must={%s} may={%s} counter=%s block_len=%s" % (bits(fl[0]) if fl else "?", bits(fl[1]) if fl else "?", show(fields["counter"]), show(fields["block_len"])))
    po = F.need_fn("parent_output")
    e = val(po.expr_local(0))
    if e[0] == "adt":
        fields = dict(zip(e[3], e[4]))
        for bi, si, s in po.stmts():
            if s["k"] == "assign" and s["rv"]["k"] == "agg" and s["rv"].get("adt") == "Output":
                fl = A.ev(po, po.expr_operand(s["rv"]["ops"][s["rv"]["fields"].index("flags")]))
        ok = (fl[0] & PARENT) and not (fl[1] & (CS | CE | ROOT)) and fields["counter"] == ("const", None, 0) \
            and unify(P.cast(P.named("BLOCK_LEN"), "u32"), fields["block_len"]) is not None and fields["input_chaining_value"] == ("arg", 3, "key_words")
        ctx.ob(bool(ok), "ref-parent-output", po.loc, "parent output flags must={%s} may={%s} counter=%s block_len=%s" % (bits(fl[0]), bits(fl[1]), show(fields["counter"]), show(fields["block_len"])))
        cps = sorted([c for c in calls_of(po) if norm_path(c[1][1]).endswith("copy_from_slice")], key=lambda c: c[0])
        ok = len(cps) == 2
        if ok:
            a, b = cps
            if po.dominates(b[0], a[0]):
                a, b = b, a
            ok = find_sub(a[1][2][0], ("adt", name_ends("RangeTo"), W(), W(), (P.const(8),))) is not None and find_sub(a[1][2][1], ("arg", 1, "left_child_cv")) is not None \
                and find_sub(b[1][2][0], ("adt", name_ends("RangeFrom"), W(), W(), (P.const(8),))) is not None and find_sub(b[1][2][1], ("arg", 2, "right_child_cv")) is not None
        ctx.ob(ok, "ref-parent-block-order", po.loc, "block_words[..8] = left, [8..] = right: %s" % ok)
    # start_flag
    sf = F.need_fn("ChunkState::start_flag")
    arms = {}
    for b, gs, e in ret_alternatives(sf):
        if has_guard(gs, P.bin("Eq", S("blocks_compressed"), P.const(0)), True) is not None:
            arms[True] = e
        elif has_guard(gs, P.bin("Eq", S("blocks_compressed"), P.const(0)), False) is not None:
            arms[False] = e
    ctx.ob(arms.get(True) == ("const", "CHUNK_START", 1) and arms.get(False) == ("const", None, 0), "ref-start_flag", sf.loc, "start_flag arms %s" % {k: show(v) for k, v in arms.items()})
    # mode table
    for name, pat in (("Hasher::new", P.call("Hasher::new_internal", P.named("IV"), P.const(0))),):
        fn = F.need_fn(name)
        e = val(fn.expr_local(0))
        ctx.ob(unify(pat, e) is not None, "ref-mode:%s" % name, fn.loc, "%s = %s" % (name, show(e)[:120]))
    nk = F.need_fn("Hasher::new_keyed")
    e = val(nk.expr_local(0))
    ok = e[0] == "call" and e[1] == "Hasher::new_internal" and e[2][1] == ("const", "KEYED_HASH", 16) and e[2][0][0] == "built"
    w = [c for c in calls_of(nk) if c[1][1] == "words_from_little_endian_bytes"]
    ok = ok and len(w) == 1 and find_sub(w[0][1][2][0], ("arg", 1, "key")) is not None
    ctx.ob(ok, "ref-mode:Hasher::new_keyed", nk.loc, "new_keyed = %s" % show(e)[:120])
    nd = F.need_fn("Hasher::new_derive_key")
    cs = calls_of(nd)
    ni = [c for c in cs if c[1][1] == "Hasher::new_internal"]
    ok = len(ni) == 2
    if ok:
        a, b = sorted(ni, key=lambda c: c[0])
        if nd.dominates(b[0], a[0]):
            a, b = b, a
        ok = unify(P.call("Hasher::new_internal", P.named("IV"), P.named("DERIVE_KEY_CONTEXT", 32)), a[1]) is not None and b[1][2][1] == ("const", "DERIVE_KEY_MATERIAL", 64)
        up = [c for c in cs if c[1][1] == "Hasher::update"]
        fi = [c for c in cs if c[1][1] == "Hasher::finalize"]
        ok = ok and len(up) == 1 and len(fi) == 1 and find_sub(up[0][1], ("call", name_ends("::as_bytes"), (("arg", 1, "context"),))) is not None
    ctx.ob(ok, "ref-mode:Hasher::new_derive_key", nd.loc, "new_derive_key: context hashed with (IV, DERIVE_KEY_CONTEXT), then (context key, DERIVE_KEY_MATERIAL): %s" % ok)


def rule_ref_merge(ctx, F):
    ac = F.need_fn("Hasher::add_chunk_chaining_value")
    pcs = [(bi, val(ac.expr_call(t)), t.get("s")) for bi, t in ac.calls() if callee_name(t["callee"]) == "parent_cv"]
    ctx.ob(len(pcs) == 1, "ref-merge-one-site", ac.loc, "%d parent_cv call(s)" % len(pcs))
    TC = ("phi", W(), "total_chunks")
    for bi, e, where in pcs:
        g = has_guard(guards_at(ac, bi), P.bin("Eq", P.bin("BitAnd", TC, P.const(1)), P.const(0)), True)
        ctx.ob(g is not None, "ref-merge-on-even-edge", where, "parent_cv reached only on the total_chunks & 1 == 0 edge: %s" % (g is not None))
        a = e[2]
        ok = a[0] == P.call("Hasher::pop_stack", ("arg", 1, "self")) and a[1][0] == "phi" and a[1][2] == "new_cv" and a[2] == P.self_("key_words") and a[3] == P.self_("flags")
        ctx.ob(ok, "ref-merge-operands", where, "parent_cv(%s) ; required (pop_stack(), new_cv, key_words, flags)" % ", ".join(show(x)[:40] for x in a))
    l = [x for x in range(len(ac.locals)) if ac.names.get(x) == "total_chunks"]
    alts = [val(a) for a in ac.phi_alts(l[0])] if l else []
    ctx.ob(any(unify(P.bin("Shr", TC, P.const(1)), a) is not None for a in alts), "ref-merge-shift", ac.loc, "total_chunks >>= 1 per merge: %s" % [show(a) for a in alts])
    hs = [f for f in F.adt_fields("Hasher") if f["name"] == "cv_stack"]
    ctx.ob(bool(hs) and hs[0]["ty"].replace(" ", "") == "[[u32;8];54]", "ref-stack-size", F.adts["Hasher"]["s"], "cv_stack: %s" % (hs[0]["ty"] if hs else "?"))
    up = F.need_fn("Hasher::update")
    cs = calls_of(up)
    acs = [c for c in cs if c[1][1] == "Hasher::add_chunk_chaining_value"]
    want = P.call("Hasher::add_chunk_chaining_value", ("arg", 1, "self"), P.call("Output::chaining_value", P.call("ChunkState::output", P.self_("chunk_state"))),
                  P.bin("Add", P.self_("chunk_state", "chunk_counter"), P.const(1)))
    ctx.ob(len(acs) == 1 and unify(want, acs[0][1]) is not None, "ref-update-total-chunks", up.loc, "update: %s" % [show(c[1])[:140] for c in acs])
    news = [c for c in cs if c[1][1] == "ChunkState::new"]
    want = P.call("ChunkState::new", P.self_("key_words"), P.bin("Add", P.self_("chunk_state", "chunk_counter"), P.const(1)), P.self_("flags"))
    ctx.ob(len(news) == 1 and unify(want, news[0][1]) is not None, "ref-update-next-chunk", up.loc, "next chunk state: %s" % [show(c[1])[:120] for c in news])
    fz = F.need_fn("Hasher::finalize")
    pos = [c for c in calls_of(fz) if c[1][1] == "parent_output"]
    def left_is_stack_entry(x):
        if "cv_stack" in show(x):
            return True
        # `for cv in self.cv_stack[..n].iter().rev()`: the operand is the next element of a reversed iterator over the stack
        nx = x[1] if (isinstance(x, tuple) and x and x[0] == "path" and isinstance(x[1], tuple)) else x
        if isinstance(nx, tuple) and nx and nx[0] == "call" and isinstance(nx[1], str) and "Rev<" in nx[1] and nx[1].endswith("::next") and nx[2] and nx[2][0][0] == "built":
            src = val(fz.expand_built(nx[2][0]))
            return find_sub(src, ("call", W(pred=lambda n_: isinstance(n_, str) and n_.endswith("::rev")), (W(),))) is not None and find_sub(src, P.self_("cv_stack")) is not None
        return False
    ok = len(pos) == 1 and pos[0][1][2][1][0] == "call" and pos[0][1][2][1][1] == "Output::chaining_value" and left_is_stack_entry(pos[0][1][2][0]) \
        and pos[0][1][2][2] == P.self_("key_words") and pos[0][1][2][3] == P.self_("flags")
    ctx.ob(ok, "ref-finalize-fold", fz.loc, "finalize folds parent_output(cv_stack[i], output.chaining_value(), key_words, flags): %s" % ok)
    ro = [c for c in calls_of(fz) if c[1][1] == "Output::root_output_bytes"]
    ctx.ob(len(ro) == 1, "ref-finalize-root", fz.loc, "finalize ends in root_output_bytes: %d" % len(ro))


def rule_ref_lazy_chunk(ctx, F):
    """reference Hasher::update: a full chunk is turned into an interior chaining value only when more input
    is known to follow (the last chunk must stay open for finalize, which gives it the ROOT/CHUNK_END treatment)"""
    fn = F.need_fn("Hasher::update")
    inp = [l for l in range(len(fn.locals)) if fn.names.get(l) == "input"]
    if not inp:
        raise MissingAnchor("parameter input of reference Hasher::update")
    n = 0
    for bi, t in fn.calls():
        name = callee_name(t["callee"])
        if name not in ("Hasher::add_chunk_chaining_value", "ChunkState::new"):
            continue
        n += 1
        gs = guards_at(fn, bi)
        nonempty = None
        for c, tr in gs:
            if c[0] == "call" and norm_path(c[1]).endswith("is_empty") and find_sub(c, ("phi", inp[0], "input")) is not None and tr is False:
                nonempty = c
            if c[0] == "bin" and c[1] in ("Gt", "Ne") and find_sub(c, ("phi", inp[0], "input")) is not None and tr is True and "len" in show(c):
                nonempty = c
        full = any(c[0] == "bin" and c[1] == "Eq" and ("const", "CHUNK_LEN", 1024) in (c[2], c[3]) and tr is True for c, tr in gs)
        ok = nonempty is not None and full
        if ok:
            # `input` is not advanced between the test and the call
            gblocks = [b for b in range(len(fn.blocks)) if fn.blocks[b]["term"]["k"] == "switch" and val(fn.expr_operand(fn.blocks[b]["term"]["op"])) == nonempty]
            for d in fn.defs().get(inp[0], []):
                if fn.paths_avoiding(d[1], bi, set(gblocks)):
                    ok = False
        ctx.ob(ok, "ref-chunk-closed-only-with-more-input:%s" % name.split("::")[-1], t.get("s"),
               "guards: input non-empty=%s, chunk_state.len() == CHUNK_LEN=%s" % (nonempty is not None, full))
    ctx.floor("chunk-closing calls in reference update", n, 2)
