"""Check framework: obligations, floors (fail closed), known findings, evidence, replay."""
import json
import os
import sys
import time
import traceback

VERIF = os.path.dirname(os.path.dirname(os.path.dirname(os.path.abspath(__file__))))
sys.path.insert(0, os.path.join(VERIF, "engines"))
sys.path.insert(0, os.path.join(VERIF, "engines", "rules"))

import extract  # noqa: E402
from mirlib import Facts, MissingAnchor  # noqa: E402


class Ctx:
    def __init__(self, prop, tier, seed=0):
        self.prop = prop
        self.tier = tier
        self.seed = seed
        self.obl = []          # dicts: rule,key,ok,where,detail,config
        self.infos = []
        self.analysed = {}     # config -> number of function bodies loaded
        self._facts = {}
        self.rules_run = []
        self.errors = []
        self.current_rule = None
        self.current_cfg = None
        self.extra = {}

    # ---- facts ----
    def facts(self, cfg):
        if cfg not in self._facts:
            p = extract.extract(cfg)
            f = Facts(p, cfg)
            self._facts[cfg] = f
            self.analysed[cfg] = sum(1 for x in f.fns.values() if x.has_body)
        return self._facts[cfg]

    def prefetch(self, cfgs):
        extract.extract_many(list(cfgs))

    def blake3_configs(self):
        return extract.QUICK if self.tier == "quick" else extract.ALL_BLAKE3

    # ---- obligations ----
    def ob(self, ok, instance, where="", detail="", rule=None, cfg=None):
        rule = rule or self.current_rule
        cfg = cfg if cfg is not None else self.current_cfg
        key = "%s|%s" % (rule, instance)
        self.obl.append(dict(rule=rule, key=key, ok=bool(ok), where=where, detail=detail, config=cfg))
        return bool(ok)

    def info(self, msg):
        self.infos.append("%s: %s" % (self.current_rule, msg))

    def floor(self, what, count, minimum):
        """Fail closed when a rule enumerates fewer instances than were confirmed by hand."""
        ok = count >= minimum
        self.ob(ok, "floor:%s" % what, "", "enumerated %d instance(s) of %s, floor is %d%s"
                % (count, what, minimum, "" if ok else " -- anchor lost or rule matches vacuously"))
        return ok

    def run_c_rule(self, name, fn, flavours):
        """run a clang-AST rule once per C preprocessor flavour (r_c.C_FLAVOURS); obligations aggregate by key"""
        import r_c
        for fl in flavours:
            r_c.set_flavour(fl)
            try:
                self.rules_run.append(name) if name not in self.rules_run else None
                self.current_rule = name
                self.current_cfg = "c:" + fl
                try:
                    fn(self)
                except MissingAnchor as e:
                    self.ob(False, "anchor-missing:%s" % str(e), "", str(e))
                except SystemExit:
                    raise
                except Exception as e:
                    tb = traceback.format_exc()
                    self.errors.append("%s[%s]: ...%s" % (name, fl, tb[-1200:]))
                    self.ob(False, "rule-crashed", "", "%s: %s" % (type(e).__name__, e))
            finally:
                r_c.set_flavour("gnu-x86_64")
                self.current_rule = None
                self.current_cfg = None

    def run_rule(self, name, fn, cfgs=(None,)):
        self.rules_run.append(name)
        for cfg in cfgs:
            self.current_rule = name
            self.current_cfg = cfg
            try:
                if cfg is None:
                    fn(self)
                else:
                    import absint
                    absint.set_usize_bits(extract.CONFIGS.get(cfg, {}).get("ptr", 64))
                    try:
                        fn(self, self.facts(cfg))
                    finally:
                        absint.set_usize_bits(64)
            except MissingAnchor as e:
                self.ob(False, "anchor-missing:%s" % str(e).split(" (config")[0], "", str(e))
            except SystemExit:
                raise
            except Exception as e:  # a crashing rule must not pass silently
                tb = traceback.format_exc()
                self.errors.append("%s[%s]: ...%s" % (name, cfg, tb[-1200:]))
                self.ob(False, "rule-crashed", "", "%s: %s" % (type(e).__name__, e))
        self.current_rule = None
        self.current_cfg = None


def load_known():
    p = os.path.join(VERIF, "known_findings.json")
    if not os.path.exists(p):
        return {"findings": [], "fixed": []}
    with open(p) as fh:
        return json.load(fh)


def finish(ctx, level, explanation, trusted_base, assumptions, t0, replay_keys=None):
    """Aggregate obligations, apply known findings, write evidence + replay, print verdict."""
    known = load_known()
    known_keys = {(k["property"], k["key"]): k for k in known.get("findings", [])}
    # aggregate by key over configs
    agg = {}
    for o in ctx.obl:
        a = agg.setdefault(o["key"], dict(rule=o["rule"], key=o["key"], ok=True, where=o["where"], detail=o["detail"],
                                          configs_ok=[], configs_fail=[]))
        if o["ok"]:
            a["configs_ok"].append(o["config"])
        else:
            a["ok"] = False
            a["configs_fail"].append(o["config"])
            a["where"] = o["where"] or a["where"]
            a["detail"] = o["detail"] or a["detail"]
    if replay_keys is not None:
        agg = {k: v for k, v in agg.items() if k in replay_keys}
    viol = [a for a in agg.values() if not a["ok"]]
    new_viol = []
    for v in viol:
        kf = known_keys.get((ctx.prop, v["key"]))
        if kf:
            print("KNOWN-FINDING: property=%s %s [%s]" % (ctx.prop, kf.get("what", v["detail"]), v["key"]))
        else:
            new_viol.append(v)
    os.makedirs(os.path.join(VERIF, "evidence", "replay"), exist_ok=True)
    replay_path = os.path.join(VERIF, "evidence", "replay", "%s.json" % ctx.prop)
    if new_viol:
        with open(replay_path, "w") as fh:
            json.dump(dict(property=ctx.prop, tier=ctx.tier, violations=new_viol), fh, indent=1)
    elif os.path.exists(replay_path) and replay_keys is None:
        os.remove(replay_path)
    n_obl = len(agg)
    n_ok = sum(1 for a in agg.values() if a["ok"])
    per_rule = {}
    for a in agg.values():
        r = per_rule.setdefault(a["rule"], dict(obligations=0, discharged=0))
        r["obligations"] += 1
        r["discharged"] += 1 if a["ok"] else 0
    samples = []
    seen_rules = set()
    for a in agg.values():
        if a["rule"] not in seen_rules and not a["key"].split("|", 1)[1].startswith("floor:"):
            seen_rules.add(a["rule"])
            samples.append(dict(obligation=a["key"], where=a["where"], detail=a["detail"][:300], holds=a["ok"],
                                configs=sorted(set(str(c) for c in a["configs_ok"] + a["configs_fail"]))))
    for v in viol[:10]:
        samples.append(dict(obligation=v["key"], where=v["where"], detail=v["detail"][:400], holds=False,
                            known=(ctx.prop, v["key"]) in known_keys))
    cov = dict(
        obligations=n_obl,
        discharged=n_ok,
        checker_cmd="./check %s --tier %s" % (ctx.prop, ctx.tier),
        trusted_base=trusted_base,
        explanation=explanation,
        rules=per_rule,
        rules_run=ctx.rules_run,
        configurations=sorted(ctx.analysed),
        function_bodies_analysed=ctx.analysed,
        samples=samples,
        evaluations=max(n_obl, 1),
        distinct_nontrivial=max(len([a for a in agg.values() if "floor:" not in a["key"]]), 0),
        rule="one obligation per (rule, instance) key, instances enumerated from the compiler IR of the "
             "current tree; distinct = distinct keys; floors excluded from distinct_nontrivial",
        info=ctx.infos[:40],
        tree_key=extract.key(),
    )
    cov.update(ctx.extra)
    ev = dict(property_id=ctx.prop, tier=ctx.tier, seed=ctx.seed,
              level=level if not viol or level != "proof" else "other",
              coverage=cov, assumptions=assumptions, wall_s=round(time.time() - t0, 2), violations=len(viol),
              known_findings_reported=len(viol) - len(new_viol))
    if ev["level"] == "other" and level == "proof":
        ev["coverage"]["explanation"] = "(not all obligations discharged on this run, so no proof is claimed) " + explanation
    if replay_keys is None and not os.environ.get("VERIF_NO_EVIDENCE"):
        # (VERIF_NO_EVIDENCE is set by the self-test tools that run checks against deliberately
        # broken scratch states of /repo: those runs must not overwrite the evidence of the real tree)
        with open(os.path.join(VERIF, "evidence", "%s.json" % ctx.prop), "w") as fh:
            json.dump(ev, fh, indent=1, default=str)
    for e in ctx.errors:
        sys.stderr.write(e + "\n")
    print("%s %s: %d obligations, %d discharged, %d violation(s) (%d known), configs=%s, %.1fs"
          % (ctx.prop, ctx.tier, n_obl, n_ok, len(viol), len(viol) - len(new_viol),
             ",".join(sorted(ctx.analysed)), time.time() - t0))
    if new_viol:
        for v in new_viol:
            print("  FAIL %s  at %s  [%s]\n       %s" % (v["key"], v["where"], ",".join(str(c) for c in v["configs_fail"]),
                                                         v["detail"]))
        print("VIOLATION property=%s replay=%s" % (ctx.prop, replay_path))
        return 1
    return 0
