"""MIR-level inlining of helper functions that are NEW relative to the function inventory the rules were written against
(engines/rules/baseline_fns.json, generated from the pinned tree by tools/gen_baseline.py).

Every rule anchors on functions of that inventory.  A refactoring that extracts a private helper moves code out of an anchored
function without changing behaviour; inlining the new helper back into its callers (on the fact JSON, before any rule looks at
it) makes such a refactoring invisible to the rules.  The inventory decides only what is treated as transparent, never a
verdict: a new function that cannot be inlined (recursive, too large, a closure) is simply left alone and the rules see the call.
"""
import copy
import json
import os

_BASE = None
MAX_BLOCKS = 80
MAX_ROUNDS = 4


def baseline():
    global _BASE
    if _BASE is None:
        p = os.path.join(os.path.dirname(os.path.abspath(__file__)), "baseline_fns.json")
        try:
            with open(p) as fh:
                _BASE = {k: set(v) for k, v in json.load(fh).items()}
        except OSError:
            _BASE = {}
    return _BASE


def _remap(x, lmap, bmap, in_term=False):
    """deep copy with locals and block ids renumbered"""
    if isinstance(x, dict):
        out = {}
        for k, v in x.items():
            if k == "l" and isinstance(v, int) and "p" in x:
                out[k] = lmap(v)
            elif k in ("t", "otherwise") and isinstance(v, int) and in_term:
                out[k] = bmap(v)
            elif k == "targets" and in_term:
                out[k] = [[a, bmap(b)] for a, b in v]
            elif k == "idx_local" and isinstance(v, int):
                out[k] = lmap(v)
            else:
                out[k] = _remap(v, lmap, bmap, in_term)
        # index projections carry a local too
        return out
    if isinstance(x, list):
        return [_remap(v, lmap, bmap, in_term) for v in x]
    return x


def _fix_index_proj(x, lmap):
    """projection elements {"idx": <local>} (Index by a local)"""
    if isinstance(x, dict):
        for k, v in list(x.items()):
            if k == "p" and isinstance(v, list):
                for e in v:
                    if isinstance(e, dict) and isinstance(e.get("idx"), int) and e.get("_mapped") is None:
                        e["idx"] = lmap(e["idx"])
                        e["_mapped"] = 1
            _fix_index_proj(v, lmap)
    elif isinstance(x, list):
        for v in x:
            _fix_index_proj(v, lmap)


def _strip_marks(x):
    if isinstance(x, dict):
        x.pop("_mapped", None)
        for v in x.values():
            _strip_marks(v)
    elif isinstance(x, list):
        for v in x:
            _strip_marks(v)


def inline_into(caller, callee):
    """inline every call of `callee` in `caller` (both fact-JSON function dicts with "mir"); returns the number of sites"""
    cm, km = caller["mir"], callee["mir"]
    n = 0
    bi = 0
    while bi < len(cm["blocks"]):
        b = cm["blocks"][bi]
        t = b["term"]
        bi += 1
        if t["k"] != "call" or t.get("t") is None:
            continue
        c = t["callee"]
        if (c.get("resolved") or c.get("path")) != callee["path"] or not (c.get("resolved_local") or c.get("local")):
            continue
        if len(t["args"]) != km["argc"]:
            continue
        n += 1
        loff = len(cm["locals"])
        boff = len(cm["blocks"])
        lmap = lambda l, loff=loff: l + loff
        bmap = lambda x, boff=boff: x + boff
        for lc in km["locals"]:
            nl = dict(lc)
            nl.pop("arg", None)
            cm["locals"].append(nl)
        for nm in km.get("names", []):
            e = copy.deepcopy(nm)
            e.pop("argidx", None)
            e["place"]["l"] = lmap(e["place"]["l"])
            cm["names"].append(e)
        # argument passing
        for ai, a in enumerate(t["args"]):
            pl = {"l": lmap(ai + 1), "p": [], "ty": km["locals"][ai + 1]["ty"]}
            b["stmts"].append({"k": "assign", "place": pl, "rv": {"k": "use", "op": copy.deepcopy(a)}, "s": t.get("s"), "x": None})
        dest, cont = t["dest"], t["t"]
        b["term"] = {"k": "goto", "t": bmap(0), "s": t.get("s"), "x": None}
        for kb in km["blocks"]:
            nb = {"stmts": [], "cleanup": kb.get("cleanup", False)}
            for s in kb["stmts"]:
                s2 = _remap(s, lmap, bmap)
                _fix_index_proj(s2, lmap)
                nb["stmts"].append(s2)
            kt = kb["term"]
            if kt["k"] == "return":
                ret = {"l": lmap(0), "p": [], "ty": km["locals"][0]["ty"]}
                nb["stmts"].append({"k": "assign", "place": copy.deepcopy(dest), "rv": {"k": "use", "op": {"k": "move", "place": ret}}, "s": kt.get("s"), "x": None})
                nb["term"] = {"k": "goto", "t": cont, "s": kt.get("s"), "x": None}
            else:
                t2 = _remap(kt, lmap, bmap, in_term=True)
                _fix_index_proj(t2, lmap)
                nb["term"] = t2
            cm["blocks"].append(nb)
    _strip_marks(cm)
    return n


def inline_new_helpers(crate, fns):
    """fns: list of fact-JSON function dicts of one crate (mutated in place).  Returns {helper path: sites inlined}."""
    base = baseline().get(crate)
    if not base:
        return {}
    cands = {}
    for f in fns:
        m = f.get("mir")
        if not m or f["path"] in base or f.get("pub") or f.get("kind") == "closure" or "{closure" in f["path"] or f.get("impl_trait"):
            continue
        if len(m["blocks"]) > MAX_BLOCKS:
            continue
        rec = any(b["term"]["k"] == "call" and (b["term"]["callee"].get("resolved") or b["term"]["callee"].get("path")) == f["path"] for b in m["blocks"])
        if rec:
            continue
        cands[f["path"]] = f
    done = {}
    if not cands:
        return done
    for _ in range(MAX_ROUNDS):
        changed = False
        # inline helpers into helpers first is not needed: repeated rounds reach a fixpoint for chains of helpers
        for f in fns:
            if not f.get("mir"):
                continue
            for hp, h in cands.items():
                if h is f:
                    continue
                k = inline_into(f, copy.deepcopy(h))
                if k:
                    done[hp] = done.get(hp, 0) + k
                    changed = True
        if not changed:
            break
    # a helper whose every call site was inlined no longer exists as far as the rules are concerned
    still_called = set()
    for f in fns:
        if f.get("mir"):
            for b in f["mir"]["blocks"]:
                t = b["term"]
                if t["k"] == "call":
                    still_called.add(t["callee"].get("resolved") or t["callee"].get("path"))
    gone = [hp for hp in done if hp not in still_called]
    if gone:
        fns[:] = [f for f in fns if f["path"] not in gone]
    return done
