"""C02 incremental hashing is independent of input splitting; finalize is a pure query."""
import r_state
import r_hazmat
import r_flags
import r_io

LEVEL = "other"
EXPLANATION = ("S4: finalize, finalize_xof, count, finalize_non_root, position (and final_output) take &self; Hasher / "
               "ChunkState / Output / OutputReader are Freeze with no pointer-like field and derived Clone, and no function "
               "reachable from those queries launders a shared reference into a mutable pointer -- so a query cannot change "
               "state and clones share nothing (decided by type and MIR structure). S3: every function that writes a Hasher "
               "field is reachable from the public API only through a gate (reset, set_input_offset, zeroize, "
               "update_with_join), and update/update_rayon hand their own slice to the one generic update_with_join; the "
               "adapters (Write, update_reader, mmap) are covered by I2/I3. Lazy merging: no root compression is reachable "
               "from update_with_join; merge order (right popped first, left second; stack[n-2],stack[n-1]; left half then "
               "right half of a subtree pair with counters c and c + chunks/2); count() = (chunk_counter - offset) * "
               "CHUNK_LEN + chunk_state.count(). The incremental path compresses through the same sites as the one-shot path, so the flag / "
               "counter / block-length discipline at every compression site (Fs, Fh, Fl, F5, F6), the scratch sizes (K3M1), the wide-subtree "
               "split (W1, G3) and the zero padding of the block buffer (ZP: buf_len = 0 only together with buf = [0; 64]) are decided here too. "
               "Equality of the digest across different splits (the cv-stack popcount "
               "invariant over runtime lengths) is NOT decided.")
TRUSTED = ["rustc nightly type checker / borrow checker / MIR", "mirfacts serialisation", "call graph with resolved callees (generic trait calls linked to every local impl)"]
ASSUMPTIONS = ["no unsafe code outside the kernel modules writes through a shared reference (scanned for the query closure only)"]
TECHNIQUE = "call-graph gate dominance + type-structure purity + value-flow/dominance rules + known-bits flag dataflow at compression sites over MIR"
DESIGN_REF = "DESIGN.md section 2 (S3, S4, S5, F1) and section 4 (C02)"


def run(ctx):
    cfgs = ctx.blake3_configs()
    ctx.prefetch(cfgs)
    ctx.run_rule("S3", r_state.rule_S3, cfgs)
    ctx.run_rule("S4", r_state.rule_S4, cfgs)
    ctx.run_rule("S4c", r_state.rule_clone, cfgs)
    ctx.run_rule("MO", r_state.rule_merge_order, cfgs)
    ctx.run_rule("S5", r_hazmat.rule_S5, cfgs)
    ctx.run_rule("AL", r_hazmat.rule_AL, cfgs)
    ctx.run_rule("Ff", r_flags.rule_F_fields, cfgs)
    # the incremental path compresses through the same sites as the one-shot path: flag/counter discipline at every
    # compression site, scratch sizes and the subtree split of update's wide hashing, zero padding of the block buffer
    import r_consts
    import r_globals
    for nm, fn in (("Fs", r_flags.rule_F_sinks), ("Fh", r_flags.rule_F_hash_many), ("Fl", r_flags.rule_F_literals), ("F5", r_flags.rule_F5),
                   ("F6", r_flags.rule_F6), ("K3M1", r_consts.rule_K3_M1), ("W1", r_globals.rule_W1), ("G3", r_globals.rule_G3), ("ZP", r_state.rule_ZP), ("TM", r_state.rule_TM)):
        ctx.run_rule(nm, fn, cfgs)
    import extract
    std = [c for c in cfgs if c not in extract.NO_STD]
    ctx.run_rule("LZ", r_state.rule_LZ, std)
    ctx.run_rule("I2", r_io.rule_I2, std)
    ctx.run_rule("I4", r_io.rule_I4, std)
    import r_secrecy
    ctx.run_rule("ZL", r_secrecy.rule_ZL, [c for c in cfgs if c.endswith("-full")])      # the configurations with the zeroize feature
    ctx.run_rule("I1", r_io.rule_I1, std)
    ctx.run_rule("I3", r_io.rule_I3, [c for c in std if c.endswith("-full")])
