"""C13 the b3sum checkfile format round-trips and never confuses two paths."""
import r_b3sum

LEVEL = "other"
EXPLANATION = ("Writer/reader agreement decided on b3sum's MIR (type-checked in a scratch copy with a `wild` path shim): "
               "P1 the literal pieces of the two print formats of hash_one_input ('  ' / 'BLAKE3 (' / ') = ' / leading "
               "backslash iff is_escaped; decoded from rustc's format templates) equal the delimiters used by "
               "split_untagged_check_line, split_tagged_check_line and the escape-marker test; P2 the escape table "
               "(trigger set = replaced set = backslash, LF, CR; backslash first) and unescape's arms are inverse maps and "
               "everything else is an error; P3 ordered-choice soundness: no line of a later alternative's shape can satisfy "
               "an earlier alternative's matcher (decided on the small string languages PATH / HEX and the literals); "
               "P4 panic-freedom of the parse path: every unwrap / str index / overflow assert in parse_check_line and its "
               "callees is discharged by a recognised guard idiom or by interval analysis (a byte-length guard does NOT "
               "discharge a chars().next().unwrap()); P5 hex_half_byte accepts exactly lowercase hex (path-enumerated "
               "partition of char), the 64-byte length test dominates decoding, NUL / U+FFFD / empty paths are rejected. "
               "Full round-trip equality for arbitrary paths and Windows normalisation are not decided.")
TRUSTED = ["rustc nightly MIR", "mirfacts serialisation", "format-template decoding (length-prefixed literals, 0xC0 placeholders)",
           "str::split_once / rsplit_once / starts_with / find semantics", "anyhow::__private::not is logical negation"]
ASSUMPTIONS = ["PATH holes are escaped text without raw CR/LF; HEX holes are lowercase hex of any length (--length)"]
TECHNIQUE = "writer/reader table agreement + ordered-choice language check + panic-site guard idioms / interval analysis over MIR"
DESIGN_REF = "DESIGN.md section 2 (P1-P5) and section 4 (C13)"


def run(ctx):
    ctx.prefetch(["b3sum"])
    for r in ("P1", "P2", "P3", "P4", "P5"):
        ctx.run_rule(r, getattr(r_b3sum, "rule_" + r), ["b3sum"])
    # the reader side of the round trip starts in check_one_checkfile: lines are read whole and each is handed to check_one_line
    ctx.run_rule("B1", r_b3sum.rule_B1, ["b3sum"])
