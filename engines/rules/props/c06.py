"""C06 the C library computes the same function as the specification and the crate."""
import r_c
import r_round

LEVEL = "other"
EXPLANATION = ("C twins of the Rust rules, decided on clang's typed, macro-expanded JSON AST of c/blake3.c, "
               "c/blake3_dispatch.c and c/blake3_portable.c (none of which the Rust test suite compiles): FC a known-bits "
               "analysis of every uint8_t flags value (params, struct fields, returns, locals) with the per-site table of the "
               "8 compression calls (ROOT only in output_root_bytes with the seek-derived 64-bit block counter, PARENT batch "
               "with counter 0 / blocks 1, chunk batch with CHUNK_START/CHUNK_END/increment, chunk blocks with "
               "flags|start_flag and blocks_compressed += 1 after each compression), make_output sites, stored flags; KC IV, "
               "MSG_SCHEDULE, flag enum, size macros, struct layouts and scratch-array sizes; modeC the initialiser mode table "
               "and init_derive_key == init_derive_key_raw(context, strlen(context)); S1C/S2C reset coverage and reset "
               "values (cv_stack is length-guarded by cv_stack_len); S4C finalize* take const self, write nothing through it "
               "and cast no const away; M3C zero-length update/output are early-return no-ops; D1C every blake3_*_<isa> call "
               "in the dispatcher sits under the matching `features &` test with its arguments passed through, absent when "
               "BLAKE3_NO_<ISA> is defined, simd_degree's chain equals hash_many's and stays <= MAX_SIMD_DEGREE, the "
               "xof_many fallback loops counter+i; R1c blake3_portable.c g/round_fn/compress_pre and feed-forward against "
               "the spec terms; K4c/K5c lane counters and transposed state rows of the C intrinsics kernels; PB the caller-buffer "
               "budget discipline of c/blake3.c (see C07). "
               "All AST rules run once per C preprocessor flavour (GNU x86-64, MSVC x86-64/i686 with -U__clang__, GNU i686, aarch64/NEON, "
               "generic non-GNU compiler), so the _MSC_VER / 32-bit / fallback branches are decided too. ZPC: zero padding of the block "
               "buffer (buf_len = 0 only together with memset of buf). M1C: for every BLAKE3_NO_<ISA> configuration the widest degree "
               "blake3_simd_degree can return fits the five scratch arrays (>=). HBC: highest_one returns the index of the highest set bit "
               "in every #if form (interval interpretation over the 64 highest-bit classes), popcnt / round_down_to_power_of_2 forms. "
               "D3C/D4C: cpuid/xgetbv probes and the CPUID feature-bit decode against the architectural table. "
               "Byte-exact output is NOT decided.")
TRUSTED = ["declaration-only header stand-ins under engines/cfront/stubs (MSVC CRT, Windows.h, glibc 32-bit stub list)", "Intel SDM CPUID/XCR0 bit table (r_c.CPUID_BITS)", "clang 14 parser / Sema (JSON AST)", "engines/cfront/cast.py mini-IR", "engines/rules/csym.py term evaluation", "spec model"]
ASSUMPTIONS = ["memcpy/memset write exactly their destination argument", "x86-64 configuration of blake3_impl.h (MAX_SIMD_DEGREE 16)"]
TECHNIQUE = "clang-AST rules per preprocessor flavour: known-bits dataflow, field write sets, guard nesting, table comparison, symbolic round evaluation, interval interpretation over highest-bit classes"
DESIGN_REF = "DESIGN.md section 1 (E3), section 2 (C twins) and section 4 (C06)"


def run(ctx):
    # the AST rules run once per C preprocessor flavour: GNU x86-64 (the build analysed everywhere else), the MSVC personality
    # (_MSC_VER branches: __cpuid/_xgetbv, Interlocked* cache access, _BitScanReverse64/__popcnt64) and, in the thorough tier,
    # the 32-bit x86 and aarch64 parses of the same sources
    fl = ["gnu-x86_64", "msvc-x86_64", "generic"] if ctx.tier == "quick" else list(r_c.C_FLAVOURS)
    for name in ("FC", "KC", "modeC", "S1C", "S4C", "M3C", "D1C", "G1C", "LZC", "ZPC", "M1C", "D3C", "D4C", "MOC", "X0C", "TMC"):
        ctx.run_c_rule(name, getattr(r_c, "rule_" + name), fl)
    ctx.run_c_rule("HBC", r_c.rule_HBC, list(r_c.C_FLAVOURS))     # every #if branch of the bit helpers, in both tiers
    ctx.run_rule("R1c", r_round.rule_R1_c)
    ctx.run_rule("W1C", r_c.rule_W1C)
    ctx.run_rule("K4c", r_round.rule_K4_c)
    ctx.run_rule("K5c", r_round.rule_K5_c)
    ctx.run_rule("R1cv", r_round.rule_R1_cvec)
    ctx.run_rule("TPc", r_round.rule_TP_c)
    ctx.run_rule("XNc", r_round.rule_XN_c)
    ctx.run_rule("HNc", r_round.rule_HN_c)
    ctx.run_rule("F8c", r_round.rule_F8_c)
    ctx.run_rule("STc", r_round.rule_ST_c)
    import r_cbudget
    ctx.run_rule("PB", r_cbudget.rule_PB)
