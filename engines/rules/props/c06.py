"""C06 the C library computes the same function as the specification and the crate."""
import r_c
import r_round

LEVEL = "other"
EXPLANATION = ("C twins of the Rust rules, decided on clang's typed, macro-expanded JSON AST of c/blake3.c, "
               "c/blake3_dispatch.c and c/blake3_portable.c (none of which the Rust test suite compiles): FC a known-bits "
               "analysis of every uint8_t flags value (params, struct fields, returns, locals) with the per-site table of the "
               "8 compression calls (ROOT only in output_root_bytes with the seek-derived 64-bit block counter, PARENT batch "
               "with counter 0 / blocks 1, chunk batch with CHUNK_START/CHUNK_END/increment, chunk blocks with "
               "flags|start_flag and blocks_compressed += 1 after each compression), make_output sites, stored flags; KC IV, "
               "MSG_SCHEDULE, flag enum, size macros, struct layouts and scratch-array sizes; modeC the initialiser mode table "
               "and init_derive_key == init_derive_key_raw(context, strlen(context)); S1C/S2C reset coverage and reset "
               "values (cv_stack is length-guarded by cv_stack_len); S4C finalize* take const self, write nothing through it "
               "and cast no const away; M3C zero-length update/output are early-return no-ops; D1C every blake3_*_<isa> call "
               "in the dispatcher sits under the matching `features &` test with its arguments passed through, absent when "
               "BLAKE3_NO_<ISA> is defined, simd_degree's chain equals hash_many's and stays <= MAX_SIMD_DEGREE, the "
               "xof_many fallback loops counter+i; R1c blake3_portable.c g/round_fn/compress_pre and feed-forward against "
               "the spec terms; K4c/K5c lane counters and transposed state rows of the C intrinsics kernels; PB the caller-buffer "
               "budget discipline of c/blake3.c (see C07). Byte-exact output and the update loop's subtree arithmetic are NOT decided.")
TRUSTED = ["clang 14 parser / Sema (JSON AST)", "engines/cfront/cast.py mini-IR", "engines/rules/csym.py term evaluation", "spec model"]
ASSUMPTIONS = ["memcpy/memset write exactly their destination argument", "x86-64 configuration of blake3_impl.h (MAX_SIMD_DEGREE 16)"]
TECHNIQUE = "clang-AST rules: known-bits dataflow, field write sets, guard nesting, table comparison, symbolic round evaluation"
DESIGN_REF = "DESIGN.md section 1 (E3), section 2 (C twins) and section 4 (C06)"


def run(ctx):
    for name in ("FC", "KC", "modeC", "S1C", "S4C", "M3C", "D1C", "G1C"):
        ctx.run_rule(name, getattr(r_c, "rule_" + name))
    ctx.run_rule("R1c", r_round.rule_R1_c)
    ctx.run_rule("LZC", r_c.rule_LZC)
    ctx.run_rule("W1C", r_c.rule_W1C)
    ctx.run_rule("K4c", r_round.rule_K4_c)
    ctx.run_rule("K5c", r_round.rule_K5_c)
    ctx.run_rule("R1cv", r_round.rule_R1_cvec)
    ctx.run_rule("TPc", r_round.rule_TP_c)
    ctx.run_rule("XNc", r_round.rule_XN_c)
    ctx.run_rule("HNc", r_round.rule_HN_c)
    ctx.run_rule("F8c", r_round.rule_F8_c)
    ctx.run_rule("STc", r_round.rule_ST_c)
    import r_cbudget
    ctx.run_rule("PB", r_cbudget.rule_PB)
