"""C15 the reference implementation and the published test vectors agree with the spec."""
import r_spec

LEVEL = "other"
EXPLANATION = ("test_vectors.json is a finite datum and is validated exhaustively: all 35 cases x 3 modes x 131 bytes "
               "(13755 bytes) are recomputed by a checker-side BLAKE3 model written from the paper (no repository code "
               "runs), and the key / context / input lengths / OUTPUT_LEN equal the generator's constants read from the "
               "compiled test_vectors crate. reference_impl: IV, MSG_PERMUTATION, flag and size constants equal the spec; "
               "permute() applies MSG_PERMUTATION; compress() is 7 rounds with 6 permutes and the spec state layout; a "
               "known-bits analysis of every flags value shows ROOT only at root_output_bytes (with the block counter "
               "0,+1,..), PARENT only at parent_output (counter 0, block_len 64, left then right), CHUNK_START/END as in the "
               "spec, stored flags are mode bits only; the mode table of the three constructors; add_chunk_chaining_value "
               "merges exactly on the total_chunks&1==0 edge with (popped, new) operand order. reference_impl's output "
               "values for arbitrary inputs are not decided.")
TRUSTED = ["engines/specmodel/blake3_spec.py (independent of the repository; anchored on IV derivation and the published hash of the empty input)",
           "rustc nightly MIR and const evaluation", "mirfacts serialisation"]
ASSUMPTIONS = ["the JSON and the spec model were produced independently, so agreement on 13755 bytes is evidence both are right"]
TECHNIQUE = "exhaustive data validation against a spec model + known-bits dataflow / value-flow rules over reference_impl MIR"
DESIGN_REF = "DESIGN.md section 1 (E6), section 2 (K1, F twins) and section 4 (C15)"


def run(ctx):
    ctx.prefetch(["refimpl", "testvec"])
    ctx.run_rule("TV", r_spec.rule_testvectors)
    ctx.run_rule("TVc", r_spec.rule_testvec_consts, ["testvec"])
    ctx.run_rule("RK", r_spec.rule_ref_consts, ["refimpl"])
    ctx.run_rule("RF", r_spec.rule_ref_flags, ["refimpl"])
    ctx.run_rule("RM", r_spec.rule_ref_merge, ["refimpl"])
    ctx.run_rule("RL", r_spec.rule_ref_lazy_chunk, ["refimpl"])
    import r_state
    ctx.run_rule("ZP", r_state.rule_ZP, ["refimpl"])
    try:
        import r_round
        ctx.run_rule("R1r", r_round.rule_R1_refimpl, ["refimpl"])
    except ImportError:
        pass
