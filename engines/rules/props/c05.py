"""C05 every SIMD kernel equals the portable compression function on all arguments."""
import r_round

LEVEL = "other"
EXPLANATION = ("R1: every array-indexed copy of the BLAKE3 round function is evaluated symbolically as straight-line code "
               "(hash-consed terms over 16 state and 16 message symbols; add mod 2^32 and xor flattened as "
               "associative-commutative; lane-wise vector ops treated as scalar ops on the lane; or(x>>n, x<<(32-n)) "
               "normalised to rotr n) and its 16 output terms are required to be identical to the terms generated from the "
               "spec's G network, schedule and rotation amounts, for each of the 7 rounds: portable.rs round+g and the whole "
               "7-round compress_pre from the spec state layout, rust_sse2/sse41/avx2.rs round, reference_impl round, and "
               "(rule R1c) the C copies blake3_portable.c g/round_fn/compress_pre, blake3_sse2/sse41/avx2.c round_fn and "
               "blake3_avx512.c round_fn4/8/16. R2: feed-forward st[i]^st[i+8] (and st[i+8]^cv[i] for the XOF form). "
               "K4: every load_counters* (C sse2/sse41/avx2/avx512 x3; Rust sse2/sse41/avx2) is decided lane by lane by an "
               "exact piecewise-affine abstract interpretation over the counter's low word with partition refinement: lane i "
               "= (lo32, hi32)(counter + i*increment) on every cell, for both increment modes. F8: the block-flag schedule inside every hash1/hashN copy (Rust x6, C x10): flags|flags_start before the first block, |= flags_end under the last-block test, reset to flags after each compression. ST: every stage of the hash_many / xof_many drivers (C x14 stages, Rust x3) consumes N items, advances the counter by N (under increment_counter for hash_many), the output by N*32 (N*64 for xof) and passes the cursors through to the width-N kernel. K5: the 16 rows of every transposed state (C hash4/8/16, xof4/8/16; Rust hash4/hash8) are "
               "h_vecs[0..8] = set1(key|cv[i]), set1(IV[0..4]), counter lo, counter hi (the two outputs of load_counters*), block length, flags. "
               "R1asm (the hand-written assembly, i.e. the default build, ELF and Windows-GNU objects): lane-precise symbolic value "
               "numbering of the ASSEMBLED code with the exact lane semantics of every shuffle/blend/permute/insert it uses. "
               "R1asm1: all 12 compress_in_place / compress_xof routines, whole function (the 7-round loop has a constant trip count), "
               "output words, reads and writes equal the spec term for term. R1asmH: every stage of every hash_many (60 stage "
               "instances: 16/8/4/2/1-input x 4 ISAs x 2 flavours x 2 increment modes) as cut-point regions -- loop body = spec "
               "compression per input incl. the transposition, h := key and flags := flags|flags_start in the preheader, |flags_end on "
               "the last block and reset to flags, message = 64 bytes at inputs[g]+offset, counter slots per lane, epilogue stores "
               "out[32g+4i], cursor/counter updates with carry, stage guards, prologue counter arrays, and the memory footprint of "
               "every region. R1asmX: xof_many stage by stage likewise. "
               "Intrinsics flavours, lane-precise (cvec.py: every SIMD value is a list of 32-bit lane terms, exact shuffle/blend/unpack/permute "
               "semantics): R1cv/R1rv the shuffle-based compress_in_place and compress_xof of blake3_sse2/sse41/avx512.c and rust_sse2/sse41.rs, "
               "whole function; TPc/TPr transpose_vecs is the N x N transposition (4/8/16); TPc/TPmr the message loaders give "
               "out[j].lane[k] = word j of input k's block; XNc blake3_xof4/8/16_avx512 whole function; HNc the six C hashN kernels as "
               "three straight-line regions (before the block loop, loop body at a representative index, after the loop). "
               "HNr: the Rust hash4/hash8 kernels likewise as three MIR regions. "
               "The NEON C kernel (parsed for aarch64) goes through R1c/K4c/K5c/F8c/STc/TPc/HNc as well; the crate is type-checked for aarch64 (config neon1, thorough). "
               "Residual: the wasm32 SIMD kernel (no wasm32 target here) (src/wasm32_simd.rs cannot be type-checked offline: build-std for wasm32 needs the uncached dlmalloc crate). The MSVC .asm flavour is decided through a mechanical MASM->GNU directive translation (masm2gas.py).")
TRUSTED = ["rustc nightly MIR; clang JSON AST", "clang -c + llvm-objdump disassembly and engines/asmabi/asmsym.py instruction semantics (about 100 mnemonics, lane-exact; unknown forms fail closed)", "engines/rules/symexec.py term normal form", "engines/specmodel/blake3_spec.py G network",
           "vendor intrinsics _mm*_add_epi32 / xor / or / srli / slli / ror are lane-wise 32-bit operations"]
ASSUMPTIONS = ["uint8_t / bool register arguments arrive zero-extended (as every mainstream compiler passes them; the sse2/sse41 kernels rely on it)", "stores through `out` do not alias the inputs read later in the same region"]
TECHNIQUE = "symbolic value numbering (hash-consed terms, no solver, nothing executed) of round functions in MIR / clang AST and of cut-point regions of the assembled kernels, against spec-generated terms; piecewise-affine lane-counter interpretation"
DESIGN_REF = "DESIGN.md section 2 (R1-R3, K2, K4, M2, M5-M7, A7, A8) and section 4 (C05)"


def run(ctx):
    ctx.prefetch(["asm-full", "pure-full", "portable1", "refimpl"])
    ctx.run_rule("R1p", r_round.rule_R1_portable, ["asm-full", "portable1"])
    ctx.run_rule("R1s", r_round.rule_R1_rust_simd, ["pure-full"] + (["intr-full"] if ctx.tier == "thorough" else []))
    ctx.run_rule("R1r", r_round.rule_R1_refimpl, ["refimpl"])
    import r_asm
    import r_ffi
    ctx.prefetch(["asm-full", "intr-full", "neon1"] if ctx.tier == "thorough" else ["asm-full"])
    ctx.run_rule("M2", r_ffi.rule_M2, ["asm-full"] + (["intr-full", "neon1"] if ctx.tier == "thorough" else []))
    ctx.run_rule("M3", r_ffi.rule_M3, ["pure-full"])
    ctx.run_rule("A9", r_asm.rule_A9)
    import r_asmsym
    ctx.run_rule("R1asm1", r_asmsym.rule_R1asm_single)
    ctx.run_rule("R1asmH", r_asmsym.rule_R1asm_hash)
    ctx.run_rule("R1asmX", r_asmsym.rule_R1asm_xof)
    ctx.run_rule("K1asm", r_asm.rule_K1asm)
    ctx.run_rule("K4c", r_round.rule_K4_c)
    ctx.run_rule("K4r", r_round.rule_K4_rust, ["pure-full"])
    ctx.run_rule("F8r", r_round.rule_F8_rust, ["pure-full", "asm-full", "portable1"])
    ctx.run_rule("F8c", r_round.rule_F8_c)
    ctx.run_rule("STc", r_round.rule_ST_c)
    ctx.run_rule("STr", r_round.rule_ST_rust, ["pure-full"])
    ctx.run_rule("K5c", r_round.rule_K5_c)
    ctx.run_rule("R1cv", r_round.rule_R1_cvec)
    ctx.run_rule("R1rv", r_round.rule_R1_rvec, ["pure-full"])
    ctx.run_rule("TPc", r_round.rule_TP_c)
    ctx.run_rule("TPr", r_round.rule_TP_rust, ["pure-full"])
    ctx.run_rule("TPmr", r_round.rule_TPm_rust, ["pure-full"])
    ctx.run_rule("XNc", r_round.rule_XN_c)
    ctx.run_rule("HNc", r_round.rule_HN_c)
    ctx.run_rule("HNr", r_round.rule_HN_rust, ["pure-full"])
    ctx.run_rule("K5r", r_round.rule_K5_rust, ["pure-full"])
    for name in ("rule_R1_c",):
        if hasattr(r_round, name):
            ctx.run_rule("R1c", getattr(r_round, name))
