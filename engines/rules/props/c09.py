"""C09 subtree hashing composes (hazmat)."""
import r_hazmat

LEVEL = "other"
EXPLANATION = ("Decides structural necessary conditions of subtree composition, not the composed hash value: "
               "H1 totality of left_subtree_len / max_subtree_len / largest_power_of_two_leq on the property's "
               "declared domains by interval x congruence abstract interpretation of their MIR under dominating "
               "guards (every arithmetic operator, division, next_power_of_two precondition and explicit panic "
               "path is an obligation); H2 the three merge functions funnel through merge_subtrees_inner -> "
               "parent_node_output(left, right, mode key, mode flags) and end in chaining_value / root_hash / "
               "OutputReader::new; mode table pairing of Mode::key_words with Mode::flags_byte per variant; S5 the "
               "input offset is written only by set_input_offset (and reset), to both counters, under both asserts, "
               "root finalizers refuse a non-zero offset, and count()/merge_cv_stack subtract it consistently; H5 every ChunkState built "
               "while updating takes an absolute counter (chunk_counter + 1), never the offset-relative count(). "
               "Subtree hashing runs through the same Hasher, so also: S1 reset restores every field a gate can write (the hazmat "
               "offset included), MO merge order, the flag/counter discipline at every compression site (Fs, Fh, Fl, F5, F6), K3M1 "
               "scratch sizes, W1/G3 the wide-subtree split, LZ lazy merging, ZP zero padding of the block buffer. "
               "That left_subtree_len returns the *largest* power of two, and equality of composed and one-shot "
               "hashes, are value-level and not decided.")
TRUSTED = ["rustc nightly MIR (-Zmir-opt-level=0)", "mirfacts serialisation", "engines/rules/absint.py transfer "
           "functions for core integer methods (next_power_of_two, trailing_zeros, div_ceil, min/max)",
           "engines/rules/mirlib.py dominance and value-flow"]
ASSUMPTIONS = ["usize is 64 or 32 bits wide as the analysed configuration says (thorough tier includes riscv32 and i686)"]
TECHNIQUE = "abstract interpretation (interval x congruence) of MIR + dominance/value-flow pattern rules + reset write-set fixpoint + known-bits flag dataflow"
DESIGN_REF = "DESIGN.md section 2 (H1, H2, S5, F6) and section 4 (C09)"


def run(ctx):
    cfgs = ctx.blake3_configs()
    ctx.prefetch(cfgs)
    ctx.run_rule("H1", r_hazmat.rule_H1, cfgs)
    ctx.run_rule("H2", r_hazmat.rule_H2, cfgs)
    ctx.run_rule("F6m", r_hazmat.rule_mode_pairing, cfgs)
    ctx.run_rule("S5", r_hazmat.rule_S5, cfgs)
    ctx.run_rule("H4", r_hazmat.rule_H4, cfgs)
    ctx.run_rule("H5", r_hazmat.rule_H5, cfgs)
    # subtree hashing goes through the same Hasher: reset must clear the hazmat offset, merges keep their order, the
    # compression sites keep their flag/counter discipline, wide subtrees split as W1 says, buffers are zero padded
    import r_state
    import r_flags
    import r_consts
    import r_globals
    for nm, fn in (("S1", r_state.rule_S1), ("MO", r_state.rule_merge_order), ("Fs", r_flags.rule_F_sinks), ("Fh", r_flags.rule_F_hash_many),
                   ("Fl", r_flags.rule_F_literals), ("F5", r_flags.rule_F5), ("F6", r_flags.rule_F6), ("K3M1", r_consts.rule_K3_M1),
                   ("W1", r_globals.rule_W1), ("G3", r_globals.rule_G3), ("ZP", r_state.rule_ZP)):
        ctx.run_rule(nm, fn, cfgs)
    ctx.run_rule("LZ", r_state.rule_LZ, [c for c in cfgs if c not in __import__("extract").NO_STD])
    # chunk counters >= 2^32 are reachable only through set_input_offset: the 64-bit counter handling of every hash_many kernel
    # (lane counters of the C/Rust intrinsics kernels, the assembled kernels decided region by region) belongs to this property
    import r_round
    import r_asmsym
    ctx.run_rule("K4c", r_round.rule_K4_c)
    ctx.run_rule("K4r", r_round.rule_K4_rust, ["pure-full"])
    ctx.run_rule("R1asm1", r_asmsym.rule_R1asm_single)
    ctx.run_rule("R1asmH", r_asmsym.rule_R1asm_hash)
