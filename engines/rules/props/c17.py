"""C17 secret state is neither printed by Debug nor left behind by zeroize."""
import r_secrecy

LEVEL = "proof"
EXPLANATION = ("Z1: for Hasher, OutputReader and guts::ChunkState the closure of Debug::fmt bodies (hand-written and "
               "derived, following local callees such as count()/position() and nested Debug impls) reads only "
               "fields of integer/bool/Platform type -- never an array, ArrayVec or key/cv/buffer field. "
               "Z2: every `impl Zeroize` in the crate calls Zeroize::zeroize on `&mut self.<field>` for every field "
               "except the fieldless Platform enum, on every path to return (call block dominates all returns). "
               "Field-level completeness is decided; padding bytes and compiler-made stack copies are not.")
TRUSTED = ["rustc nightly MIR (-Zmir-opt-level=0)", "mirfacts serialisation", "engines/rules/r_secrecy.py read-set closure",
           "zeroize / arrayvec Zeroize impls for [T; N], integers and ArrayVec (dependencies, not analysed)"]
ASSUMPTIONS = ["a value is revealed by Debug only if it is read from self inside the fmt closure"]
TECHNIQUE = "MIR read-set closure over Debug::fmt + per-field must-call (dominance) check of Zeroize impls"
DESIGN_REF = "DESIGN.md section 2 (Z1, Z2) and section 4 (C17)"


def run(ctx):
    cfgs = ["asm-full", "pure-full"] if ctx.tier == "quick" else ["asm-full", "pure-full", "intr-full"]
    ctx.prefetch(cfgs)
    ctx.run_rule("Z1", r_secrecy.rule_Z1, cfgs + (["portable1", "asm-nostd"] if ctx.tier == "thorough" else ["portable1"]))
    ctx.run_rule("Z2", r_secrecy.rule_Z2, cfgs)
    ctx.run_rule("ZL", r_secrecy.rule_ZL, cfgs)
