"""C04 results do not depend on SIMD level, build flavour or feature set."""
import r_dispatch
import r_consts
import r_xof

LEVEL = "other"
EXPLANATION = ("D3 (the core claim): the span-free MIR of every function of the tree logic (lib.rs, hazmat.rs, guts.rs, "
               "portable.rs, join.rs, io.rs, traits.rs and the non-dispatch part of platform.rs) is identical across all "
               "analysed feature sets and flavours (named MAX_SIMD_DEGREE* constants compared by name; array lengths "
               "abstracted only between configurations whose MAX_SIMD_DEGREE differs), so a configuration can only add entry "
               "points or swap kernels -- never alter tree logic. D1: each *_detected asks cpufeatures for exactly the spec "
               "feature set and reads its own cache behind the miri/no_* short-circuits; detect()/constructors return a "
               "variant only on the matching *_detected true edge; on every dispatch arm the kernel module's ISA requirement "
               "(#[target_feature] set of the Rust intrinsics, or the ISA suffix of the extern symbol) is implied by the "
               "variant's detected features. D2: every dispatch method has an arm for every Platform variant, routed per the "
               "table (AVX2 uses sse41 for single-block compression, avx2 for hash_many), passing its parameters through "
               "unchanged and in order; the xof_many fallback is D2x. K3: simd_degree arms vs module DEGREE vs "
               "MAX_SIMD_DEGREE. That compress_subtree_wide yields the same value for degree 1/4/8/16 depends on C05's "
               "value-level residual and is not decided; the wasm32 flavour cannot be built here (NEON is type-checked as config neon1, the MSVC .asm files are assembled after a mechanical directive translation).")
TRUSTED = ["rustc nightly MIR for every configuration that type-checks offline (14 configurations incl. aarch64 neon1)", "mirfacts serialisation",
           "x86 feature implication table (avx512vl>avx512f>avx2>avx>sse4.2>sse4.1>ssse3>sse3>sse2)", "cpufeatures::new! checks the features it is given"]
ASSUMPTIONS = ["kernels of one ISA level compute the same function (C05)"]
TECHNIQUE = "cross-configuration structural MIR equality + dispatch-arm feature-gating / routing rules"
DESIGN_REF = "DESIGN.md section 2 (D1-D3, K3) and section 4 (C04)"


def run(ctx):
    import extract
    cfgs = ["asm-full", "pure-full", "portable1", "asm-default"] if ctx.tier == "quick" else extract.ALL_BLAKE3
    ctx.prefetch(cfgs)
    ctx.run_rule("D1", r_dispatch.rule_D1, cfgs)
    ctx.run_rule("D2", r_dispatch.rule_D2, cfgs)
    ctx.run_rule("D2x", r_xof.rule_D2x, cfgs)
    ctx.run_rule("K3M1", r_consts.rule_K3_M1, cfgs)
    # the subtree split and the hash_many flag discipline must not depend on the SIMD degree of the configuration
    import r_globals
    import r_flags
    ctx.run_rule("W1", r_globals.rule_W1, cfgs)
    ctx.run_rule("AB", r_globals.rule_AB, cfgs)
    ctx.run_rule("G3", r_globals.rule_G3, cfgs)
    ctx.run_rule("Fh", r_flags.rule_F_hash_many, cfgs)
    facts = {c: ctx.facts(c) for c in cfgs}
    ctx.run_rule("D3", lambda c: r_dispatch.rule_D3(c, facts))
    import r_round
    ctx.run_rule("K4c", r_round.rule_K4_c)
    ctx.run_rule("K4r", r_round.rule_K4_rust, ["pure-full"])
    ctx.run_rule("F8r", r_round.rule_F8_rust, ["pure-full", "asm-full", "portable1"])
    # the intrinsics flavours (Rust `pure`, C `prefer_intrinsics`) must agree with the others: their per-kernel set-up rules
    ctx.run_rule("K5r", r_round.rule_K5_rust, ["pure-full"])
    ctx.run_rule("STr", r_round.rule_ST_rust, ["pure-full"])
    ctx.run_rule("K5c", r_round.rule_K5_c)
    ctx.run_rule("F8c", r_round.rule_F8_c)
    ctx.run_rule("STc", r_round.rule_ST_c)
    ctx.run_rule("R1cv", r_round.rule_R1_cvec)
    ctx.run_rule("R1rv", r_round.rule_R1_rvec, ["pure-full"])
    ctx.run_rule("XNc", r_round.rule_XN_c)
    ctx.run_rule("HNc", r_round.rule_HN_c)
    ctx.run_rule("HNr", r_round.rule_HN_rust, ["pure-full"])
    # the assembly flavour (the default build) against the same spec terms
    import r_asmsym
    ctx.run_rule("R1asm1", r_asmsym.rule_R1asm_single)
    ctx.run_rule("R1asmH", r_asmsym.rule_R1asm_hash)
    ctx.run_rule("R1asmX", r_asmsym.rule_R1asm_xof)
