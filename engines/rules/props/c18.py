"""C18 independent hashers are isolated: concurrent use from many threads is safe."""
import r_globals
import r_state

LEVEL = "proof"
EXPLANATION = ("Decides the structural clause 'neither library keeps shared mutable state other than the idempotent "
               "feature-detection cache' for the Rust crate in every analysed configuration: G1 inventory of every "
               "`static` item (incl. macro-generated, fn-local ones): immutable and Freeze, or one of the cpufeatures "
               "AtomicU8 caches inside platform::*_detected; no thread_local, no hand-written Send/Sync impl; "
               "G2 Hasher/OutputReader/Hash/Output/ChunkState are Send+Sync according to rustc's trait solver; "
               "G4 no function body in the crate references a static or calls atomics/locks/thread APIs outside the "
               "detection modules, and every extern call goes to a declared kernel symbol from an ffi module; "
               "S4 the state types contain no pointer/reference/UnsafeCell (instances share nothing). "
               "The consequence 'each thread gets the result it would get alone' follows from Rust's Send/Sync "
               "semantics; it is not executed.  C twin (globals of c/*.c) is checked by rule G1c when the C front "
               "end facts are available.")
TRUSTED = ["rustc nightly type checker / trait solver / MIR", "mirfacts serialisation", "rule implementation",
           "dependencies (arrayvec, constant_time_eq, cpufeatures, rayon-core, memmap2) keep no state that affects results"]
ASSUMPTIONS = ["assembly kernels touch only their arguments (rule A6/G1-asm: objects have no writable section)"]
TECHNIQUE = "whole-crate inventory of statics/impls + MIR scan for static references, atomics and FFI callees + trait-solver Send/Sync facts"
DESIGN_REF = "DESIGN.md section 2 (G1, G2, G4, S4) and section 4 (C18)"


def run(ctx):
    cfgs = ctx.blake3_configs()
    ctx.prefetch(cfgs)
    ctx.run_rule("G1", r_globals.rule_G1, cfgs)
    ctx.run_rule("G2", r_globals.rule_G2, cfgs)
    ctx.run_rule("G4", r_globals.rule_G4, cfgs)
    ctx.run_rule("S4c", r_state.rule_clone, cfgs)
    try:
        import r_c
    except ImportError:
        r_c = None
    if r_c is not None and hasattr(r_c, "rule_G1C"):
        ctx.run_c_rule("G1C", r_c.rule_G1C, ["gnu-x86_64", "msvc-x86_64"] if ctx.tier == "quick" else list(r_c.C_FLAVOURS))
        ctx.run_rule("G1obj", r_c.rule_G1obj)
    try:
        import r_asm
    except ImportError:
        r_asm = None
    if r_asm is not None and hasattr(r_asm, "rule_G1asm"):
        ctx.run_rule("G1asm", r_asm.rule_G1asm)
