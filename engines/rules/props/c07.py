"""C07 native code stays inside its buffers and obeys the calling convention."""
import r_asm
import r_dispatch
import r_consts

LEVEL = "other"
EXPLANATION = ("Calling-convention and alignment clauses decided on the ASSEMBLED objects of all eight c/*.S files (ELF and "
               "Windows-GNU COFF; assembled with clang, disassembled with llvm-objdump, never run), per global symbol and "
               "per ret, by a forward dataflow over the reconstructed CFG: A1 every callee-saved GPR of the flavour's "
               "convention (SysV rbx rbp r12-r15; Win64 + rsi rdi) that is written was pushed first and is popped in reverse "
               "order on every path to every ret; A2 rsp equals its entry value at every ret, frame realignment only under "
               "a saved rbp; A3 (Win64) every xmm6-xmm15 written was spilled to a frame slot first and is reloaded from the "
               "same slot before ret; A4 caller-frame accesses are exactly the prototype's stack arguments with their widths "
               "(byte for uint8_t/bool, qword for pointers/uint64_t); A5 no std/call/syscall/indirect jump; A7 caller memory "
               "is touched only by alignment-agnostic instructions; A10 every [rsp+d] frame access lies inside the `sub rsp, N` allocation (the realigning `and` only moves rsp down, so d + width <= N is necessary and sufficient for every entry alignment); A9 no frame slot is stored back from the register just "
               "loaded from it; G1asm no writable data sections; K1asm constant pools (IV, block length, lane deltas, "
               "rotation shuffles, blend masks) equal the spec and agree across flavours. Rust side: D1 no kernel runs on "
               "a CPU lacking its ISA; K3/M1 scratch sizes vs SIMD degrees; M2 FFI signatures (rule M2). "
               "PB: in c/blake3.c every caller (pointer, length) buffer pair (out/out_len of finalize*, input/input_len of the "
               "update path down to compress_chunks_parallel, the derive_key context) obeys a budget discipline: each access "
               "footprint (memcpy/memset length, 64-byte block reads of the compress kernels, 64*outblocks of xof_many, "
               "pointers stored for hash_many, forwarding to another table function) is proved <= the remaining length by a "
               "syntactic <= prover over guard facts, clamp idioms and floor forms; pointer and length move only together. "
               "R1asm1/R1asmH/R1asmX: for every assembly kernel the set of caller-memory accesses is enumerated region by region from "
               "the lane-precise symbolic evaluation: compress_* read cv[0..32)+block[0..64) and write exactly 32 / 64 bytes; hash_many "
               "reads key[0..32), inputs[g] and the 64 bytes of each input at the block offset and writes 32 bytes per input in the stage "
               "epilogues only; xof_many reads cv/block and writes 64 bytes per block. (This rule found the over-read repaired by 33f270a.) "
               "Extents of reads/writes inside the C/Rust INTRINSICS kernels and UB-freedom of C in general are NOT decided. The MSVC .asm files are translated "
               "directive-by-directive to GNU syntax (masm2gas.py), assembled with clang and decided by the same rules as the other two flavours.")
TRUSTED = ["masm2gas.py directive translation (instruction text passes through unchanged); ml64 and clang encode the same mnemonics alike", "clang integrated assembler + llvm-objdump 14 disassembly", "engines/asmabi/asmabi.py def/use convention (Intel syntax: first operand is the destination; unknown control flow fails closed)",
           "SysV AMD64 and Microsoft x64 calling conventions as tabulated in r_asm.py", "prototype table from c/blake3_impl.h"]
ASSUMPTIONS = ["PB summaries: round_down_to_power_of_2(x) <= x, left_subtree_len(x) <= x for x > CHUNK_LEN, chunk_state_fill_buf returns <= its length argument (itself checked)", "the assembler used by the real build produces the same instruction stream as clang's"]
TECHNIQUE = "abstract stack/register-save dataflow over disassembled object code + constant-pool comparison"
DESIGN_REF = "DESIGN.md section 1 (E4), section 2 (A1-A10, G1, K1, M1-M7, D1) and section 4 (C07)"


def run(ctx):
    ctx.run_rule("A", r_asm.rule_A)
    ctx.run_rule("A10", r_asm.rule_A10)
    ctx.run_rule("G1asm", r_asm.rule_G1asm)
    ctx.run_rule("K1asm", r_asm.rule_K1asm)
    cfgs = ["asm-full", "pure-full", "portable1"] if ctx.tier == "quick" else ["asm-full", "pure-full", "intr-full", "asm-default", "portable1", "neon1"]
    ctx.prefetch(cfgs)
    ctx.run_rule("D1", r_dispatch.rule_D1, cfgs)
    ctx.run_rule("K3M1", r_consts.rule_K3_M1, cfgs)
    import r_cbudget
    ctx.run_rule("PB", r_cbudget.rule_PB)
    import r_c
    ctx.run_rule("W1C", r_c.rule_W1C)
    # no kernel is selected on a CPU / OS that cannot run it: the probes and the CPUID decode of the C dispatcher
    import r_xof
    ctx.run_rule("X0", r_xof.rule_X0, [c for c in cfgs if c.startswith("asm")])
    ctx.run_c_rule("X0C", r_c.rule_X0C, ["gnu-x86_64"])
    for nm in ("D1C", "D3C", "D4C"):
        ctx.run_c_rule(nm, getattr(r_c, "rule_" + nm), ["gnu-x86_64", "msvc-x86_64"] if ctx.tier == "quick" else list(r_c.C_FLAVOURS))
    ctx.run_c_rule("M1C", r_c.rule_M1C, ["gnu-x86_64", "msvc-x86_64"] if ctx.tier == "quick" else list(r_c.C_FLAVOURS))
    import r_round
    ctx.run_rule("R1cv", r_round.rule_R1_cvec)
    ctx.run_rule("XNc", r_round.rule_XN_c)
    ctx.run_rule("HNc", r_round.rule_HN_c)
    import r_asmsym
    ctx.run_rule("R1asm1", r_asmsym.rule_R1asm_single)
    ctx.run_rule("R1asmH", r_asmsym.rule_R1asm_hash)
    ctx.run_rule("R1asmX", r_asmsym.rule_R1asm_xof)
    try:
        import r_ffi
        ctx.run_rule("M2", r_ffi.rule_M2, [c for c in cfgs if c.startswith("asm") or c.startswith("intr") or c == "neon1"])
        ctx.run_rule("M3", r_ffi.rule_M3, [c for c in cfgs if c != "portable1"])
    except ImportError:
        pass
