"""C03 extended output is one coherent, seekable byte stream."""
import r_xof
import r_state

LEVEL = "other"
EXPLANATION = ("X1 set_position stores (p / B, p % B) and position() returns counter * B + offset with the same constant "
               "B = BLOCK_LEN; X2 on every path of Seek::seek that returns Err no field of self is written and no "
               "&mut self method is called, the SeekFrom::End arm returns Err, and the `target < 0` test dominates "
               "set_position; X3 every integer cast in seek is lossless (interval analysis in i128 with guard "
               "refinement and cmp::min); X4 Read::read fills the whole buffer and returns Ok(buf.len()); X5 fill hands "
               "xof_many (cv, block, block_len, inner.counter, flags|ROOT, &mut buf[..full_blocks*B]) and advances the "
               "counter by the same full_blocks, fill_one_block bumps the counter and resets the offset exactly on the "
               "offset == B edge; D2x the xof_many fallback runs compress_xof once per 64-byte block with counter + 1 per "
               "block. Kernel side: the assembly compress_xof and xof_many (R1asm1, R1asmX) and the C intrinsics xof path (K4c, K5c, "
               "STc, PB) are decided against the spec per output block: block k of a call is the root compression with "
               "counter + k, written at out + 64k, and the counter arrays are handed over correctly between the 16/8/4/2/1 stages. "
               "That the composition of all layers yields S[p..p+n] byte for byte is not decided as a whole.")
TRUSTED = ["rustc nightly MIR", "mirfacts serialisation", "absint interval evaluator", "mirlib dominance/path computations"]
ASSUMPTIONS = ["Platform kernels compute the spec compression for the counter they are given (C05)"]
TECHNIQUE = "value-flow pattern rules + error-path write-freedom (reachability) + interval analysis of casts over MIR; symbolic value numbering of the assembled XOF kernels; clang-AST rules for the C intrinsics XOF path"
DESIGN_REF = "DESIGN.md section 2 (X1-X5, D2) and section 4 (C03)"


def run(ctx):
    std = ["asm-full"] if ctx.tier == "quick" else ["asm-full", "pure-full", "intr-full", "asm-default"]
    allc = ctx.blake3_configs()
    ctx.prefetch(allc)
    ctx.run_rule("X1", r_xof.rule_X1, allc)
    ctx.run_rule("X2", r_xof.rule_X2, std)
    ctx.run_rule("X3", r_xof.rule_X3, std)
    ctx.run_rule("X4", r_xof.rule_X4, std)
    ctx.run_rule("X5", r_xof.rule_X5, allc)
    ctx.run_rule("D2x", r_xof.rule_D2x, allc)
    import r_flags
    ctx.run_rule("Fs", r_flags.rule_F_sinks, allc)   # the root block is compressed with ROOT and the reader's counter at every XOF sink
    ctx.run_rule("F6", r_flags.rule_F6, allc)
    import r_asm
    ctx.run_rule("A9", lambda c: r_asm.rule_A9(c, only="xof_many"))
    import r_round
    import r_cbudget
    # the C/intrinsics XOF path (prefer_intrinsics builds call blake3_xof_many_avx512 of c/blake3_avx512.c)
    ctx.run_rule("STc", r_round.rule_ST_c)
    ctx.run_rule("K4c", r_round.rule_K4_c)
    ctx.run_rule("K5c", r_round.rule_K5_c)
    ctx.run_rule("XNc", r_round.rule_XN_c)
    ctx.run_rule("PB", r_cbudget.rule_PB)
    import r_asmsym
    ctx.run_rule("R1asm1", r_asmsym.rule_R1asm_single)
    ctx.run_rule("R1asmX", r_asmsym.rule_R1asm_xof)
    ctx.run_rule("X0", r_xof.rule_X0, ["asm-full"])
    # the XOF block function is compress_xof of whichever kernel is selected: the Rust and C single-block kernels, lane-precise
    ctx.run_rule("R1rv", r_round.rule_R1_rvec, ["pure-full"])
    ctx.run_rule("R1cv", r_round.rule_R1_cvec)
    ctx.run_rule("R1p", r_round.rule_R1_portable, ["asm-full", "portable1"])
