"""C10 reset() restores the initial state after any history; clones are independent."""
import r_state

LEVEL = "proof"
EXPLANATION = ("Decides the clauses: S1 every field of Hasher that any function can write through `&mut Hasher` "
               "(directly, via a `&mut` to the field handed to a callee, or via a summarised callee; computed as a "
               "whole-crate fixpoint over MIR) is written by Hasher::reset; S2 each value reset writes equals the "
               "constructor's value for that field after substituting fields proven immutable after construction "
               "(key, flags, platform); clone independence by type structure (no reference, pointer, Box/Rc/Arc or "
               "UnsafeCell anywhere inside Hasher/ChunkState/Output/OutputReader; Clone is derived). The observable "
               "equality of two hashers is not executed or claimed beyond these field-level facts.")
TRUSTED = ["rustc nightly front end, type checker and MIR builder (-Zmir-opt-level=0)",
           "mirfacts driver serialisation", "engines/rules/mirlib.py value-flow + write-summary fixpoint",
           "RESET_EQUIV table: ArrayVec::clear() leaves the value ArrayVec::new() builds (arrayvec 0.7, read once)"]
ASSUMPTIONS = ["foreign callees receiving `&mut field` may write the whole field and nothing else",
               "unsafe code in the crate does not write Hasher fields through raw pointers (G4/M rules cover kernels)"]


def run(ctx):
    cfgs = ctx.blake3_configs()
    ctx.prefetch(cfgs)
    ctx.run_rule("S1", r_state.rule_S1, cfgs)
    ctx.run_rule("S2", r_state.rule_S2, cfgs)
    ctx.run_rule("S4c", r_state.rule_clone, cfgs)
    import r_hazmat
    ctx.run_rule("S5", r_hazmat.rule_S5, cfgs)      # who writes the hazmat offset (reset must be one of them)

TECHNIQUE = "MIR field-write-set fixpoint (reset coverage) + constructor/reset value-flow comparison + type-structure walk"
DESIGN_REF = "DESIGN.md section 2 (S1, S2, S4) and section 4 (C10)"
