"""C01 one-shot hash, keyed_hash and derive_key compute the BLAKE3 specification."""
import r_consts
import r_flags
import r_hazmat
import r_globals
import r_round

LEVEL = "other"
EXPLANATION = ("Decides the domain-separation and table clauses that are necessary for the one-shot functions to compute "
               "the spec, in every analysed configuration (incl. pure Rust and the degree-1 portable target): "
               "K1 IV = frac(sqrt(primes)) and MSG_SCHEDULE = powers of the spec permutation (recomputed by a checker-side "
               "model), flag constants 1<<0..1<<6, sizes 32/32/64/1024/54; F1-F5 a whole-crate known-bits analysis of every "
               "u8 flag value (params, fields, returns) shows ROOT is never stored and reaches only the three final "
               "compressions, PARENT is set on exactly the parent sites with counter 0 / block_len 64 / no start-end flags, "
               "chunk batches pass CHUNK_START/CHUNK_END/IncrementCounter::Yes and the partial chunk's counter is "
               "chunk_counter + (chunks hashed), chunk blocks use self.flags|start_flag() with blocks_compressed bumped "
               "after every compression; F6 the mode table (key source, mode flag) at hash/keyed_hash/derive_key and the "
               "Hasher constructors; F7 no narrowing cast in any counter operand; K3/M1 SIMD degrees vs MAX_SIMD_DEGREE and "
               "scratch array sizes; H1 totality of the length helpers. The 32 output bytes themselves and tree shape for a "
               "given length are value-level and NOT decided.")
TRUSTED = ["rustc nightly MIR and const evaluation", "mirfacts serialisation", "known-bits fixpoint in r_flags.py",
           "engines/specmodel/blake3_spec.py (written from the paper)"]
ASSUMPTIONS = ["the Platform kernels implement the compression function for the flags/counter they are given (C05)"]
TECHNIQUE = "interprocedural known-bits dataflow over MIR + evaluated-constant comparison against a spec model + interval analysis"
DESIGN_REF = "DESIGN.md section 2 (K1, K3, F1-F7, M1, H1) and section 4 (C01)"


def run(ctx):
    cfgs = ctx.blake3_configs()
    ctx.prefetch(cfgs)
    ctx.run_rule("K1", r_flags.rule_K1_flags, cfgs)
    ctx.run_rule("K1t", r_consts.rule_K1_tables, cfgs)
    ctx.run_rule("K3M1", r_consts.rule_K3_M1, cfgs)
    ctx.run_rule("Fs", r_flags.rule_F_sinks, cfgs)
    ctx.run_rule("Fh", r_flags.rule_F_hash_many, cfgs)
    ctx.run_rule("Ff", r_flags.rule_F_fields, cfgs)
    ctx.run_rule("Fl", r_flags.rule_F_literals, cfgs)
    ctx.run_rule("F5", r_flags.rule_F5, cfgs)
    ctx.run_rule("F6", r_flags.rule_F6, cfgs)
    ctx.run_rule("H1", r_hazmat.rule_H1, cfgs)
    import r_state
    ctx.run_rule("LZ", r_state.rule_LZ, cfgs)
    ctx.run_rule("ZP", r_state.rule_ZP, cfgs)
    ctx.run_rule("TM", r_state.rule_TM, cfgs)
    import r_secrecy
    ctx.run_rule("ZL", r_secrecy.rule_ZL, [c for c in cfgs if c.endswith("-full")])
    import r_globals as _rg
    ctx.run_rule("W1", _rg.rule_W1, cfgs)
    ctx.run_rule("AB", _rg.rule_AB, cfgs)
    # the child CVs are read back as one contiguous prefix of cv_array: the split point must be degree*OUT_LEN
    ctx.run_rule("G3", r_globals.rule_G3, cfgs)
    ctx.run_rule("R1p", r_round.rule_R1_portable, [c for c in cfgs if c in ("asm-full", "portable1")])
