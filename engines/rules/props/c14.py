"""C14 Hash values convert losslessly and compare by content."""
import r_hash

LEVEL = "other"
EXPLANATION = ("T1: from_hex's hex_val is decided as an exact partition of the 256 byte values (interval path enumeration "
               "of its loop-free MIR: accepts exactly 0-9a-fA-F with the digit's value, Err elsewhere); from_hex stores "
               "16*hex_val(hex[2i])? + hex_val(hex[2i+1])? at index i with every access dominated by the len == 64 guard; "
               "to_hex pushes table[b>>4] then table[b&15] of the table \"0123456789abcdef\" over self.0. "
               "T2: each PartialEq::eq for Hash calls constant_time_eq* on (self.0, other) -- never (self, self) -- and the "
               "slice form uses the length-aware function. T3: Display/Debug/FromStr/From/as_bytes/from_bytes/from_slice "
               "forward as the spec table says; from_slice's length check is the TryInto<[u8;32]> conversion; serde impls "
               "are derived on the newtype. Serde wire formats (foreign derive output) are not analysed.")
TRUSTED = ["rustc nightly MIR", "mirfacts serialisation", "absint interval evaluator", "constant_time_eq crate compares by content",
           "ArrayString::push appends; core TryInto<[u8; N]> for &[u8] rejects other lengths"]
ASSUMPTIONS = ["serde's derive for a newtype over [u8; 32] (sequence/tuple form) is as documented"]
TECHNIQUE = "finite partition of u8 by interval path enumeration + value-flow pattern rules over MIR"
DESIGN_REF = "DESIGN.md section 2 (T1-T3) and section 4 (C14)"


def run(ctx):
    cfgs = ["asm-full", "portable1"] if ctx.tier == "quick" else ["asm-full", "pure-full", "asm-nostd", "portable1"]
    ctx.prefetch(cfgs)
    ctx.run_rule("T1a", r_hash.rule_T1_hexval, cfgs)
    ctx.run_rule("T1b", r_hash.rule_T1_tohex, cfgs)
    ctx.run_rule("T1c", r_hash.rule_T1_fromhex, cfgs)
    ctx.run_rule("T2", r_hash.rule_T2, cfgs)
    ctx.run_rule("T3", r_hash.rule_T3_hash, cfgs)
    ctx.run_rule("T3s", r_hash.rule_T3_serde, ["asm-full"])
