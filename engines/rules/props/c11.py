"""C11 Reader, mmap and Write adapters hash exactly the bytes of their source."""
import r_io

LEVEL = "other"
EXPLANATION = ("I1: copy_wide's control-flow protocol over MIR: one Read::read site on the whole local buffer; on the Ok(n) "
               "edge n == 0 returns Ok(total) and n != 0 always reaches exactly update(hasher, &buffer[..n]) with that n "
               "before the next read; on Err(e) the branch e.kind() == Interrupted retries the read without update and "
               "without returning, every other error returns Err(e) with the same e; no other exit. I2: Write::write "
               "forwards to update(input) and returns Ok(input.len()); flush is Ok(()); update_reader propagates errors. "
               "I3: maybe_mmap_file seeks to End(-(MIN-1)), maps offset+(MIN-1) bytes with the usize cast guarded, and "
               "every Ok(None) exit is dominated by seek failure, a zero seek result or a successful rewind()?; "
               "update_mmap{,_rayon} open the path, hash the whole map on Some with update{,_rayon}, fall back to "
               "copy_wide(&file, self) on None and propagate every error. OS behaviour of mmap/seek is not modelled.")
TRUSTED = ["rustc nightly MIR", "mirfacts serialisation", "dominance / path-avoidance computations in mirlib.py"]
ASSUMPTIONS = ["std::io::Read::read writes only into the buffer it is given and returns n <= buffer.len()"]
TECHNIQUE = "CFG protocol rules (dominating guards, must-pass-through, value-flow provenance) over MIR"
DESIGN_REF = "DESIGN.md section 2 (I1-I3) and section 4 (C11)"


def run(ctx):
    cfgs = ["asm-full"] if ctx.tier == "quick" else ["asm-full", "pure-full", "intr-full"]
    std_cfgs = cfgs + (["asm-default"] if ctx.tier == "thorough" else [])
    ctx.prefetch(std_cfgs)
    ctx.run_rule("I1", r_io.rule_I1, std_cfgs)
    ctx.run_rule("I2", r_io.rule_I2, std_cfgs)
    ctx.run_rule("I4", r_io.rule_I4, std_cfgs)
    ctx.run_rule("I3", r_io.rule_I3, cfgs)
