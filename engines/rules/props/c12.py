"""C12 b3sum prints the library's output and --check's exit status tells the truth."""
import r_b3sum

LEVEL = "other"
EXPLANATION = ("Control-flow clauses decided on b3sum's MIR: B1 the argument of process::exit is 0 only on the "
               "files_failed > 0 false edge; every Err of hash_one_input and every false of check_one_line reaches "
               "files_failed.saturating_add(1) before the next item or the exit (must-pass-through), the loop goes on to the "
               "remaining lines, check_one_checkfile(..)? propagates, Ok(()) only at EOF; B2 check_one_line returns true only "
               "on the true edge of Hash == Hash whose operands are the parsed expected_hash and the bytes filled from "
               "hash_path(args, parsed.file_path); every other return is false and is preceded by a FAILED/diagnostic "
               "print; B3 hash_path clones base_hasher, absorbs through update_reader / update_mmap_rayon with `?`, then "
               "finalize_xof and set_position(args.seek()); base_hasher follows the mode table (--keyed, --derive-key); "
               "B4 write_hex_output prints hex[..2*take] with take = min(len, block.len()), len -= take, exits on len == 0 "
               "only; write_raw_output copies output.take(args.len()); P1 for the emitted forms. The digest bytes themselves "
               "(library behaviour, C01-C03) and clap's flag parsing are not decided.")
TRUSTED = ["rustc nightly MIR", "mirfacts serialisation", "dominance / must-pass-through computations"]
ASSUMPTIONS = ["std::process::exit terminates with the given code; hex::encode is lowercase hex"]
TECHNIQUE = "exit-status / failure-counting path rules (dominance, must-pass-through) + provenance patterns over MIR"
DESIGN_REF = "DESIGN.md section 2 (B1-B4, P1) and section 4 (C12)"


def run(ctx):
    ctx.prefetch(["b3sum"])
    for r in ("B1", "B2", "B3", "B4", "P1"):
        ctx.run_rule(r, getattr(r_b3sum, "rule_" + r), ["b3sum"])
    # b3sum's digest is the library's update_mmap_rayon / update_reader output: the adapters it calls (C11's rules)
    import r_io
    ctx.prefetch(["asm-full"])
    ctx.run_rule("I1", r_io.rule_I1, ["asm-full"])
    ctx.run_rule("I3", r_io.rule_I3, ["asm-full"])
