"""C16 RustCrypto trait impls and the legacy guts API agree with the inherent API."""
import r_hash

LEVEL = "other"
EXPLANATION = ("T3 forwarding table over resolved callees: every digest trait method in traits.rs reaches exactly the "
               "inherent method of the same meaning with its own arguments (update, reset, finalize, finalize_xof, fill, "
               "new_keyed(key.into())), never itself; the *_reset variants compute and copy out the output before "
               "calling reset (dominance); guts::ChunkState wraps ChunkState::new(IV, counter, 0, detect()), forwards "
               "update/len, and finalize/parent_cv call root_hash on the is_root=true edge and chaining_value on the "
               "false edge with (IV, 0) for parents. Byte-identical results then follow from C01/C02; they are not "
               "executed here.")
TRUSTED = ["rustc nightly MIR + Instance::try_resolve (resolved callees)", "mirfacts serialisation", "rule implementation"]
ASSUMPTIONS = ["digest's provided methods (Digest::finalize etc.) are built from these required methods"]
TECHNIQUE = "resolved-callee forwarding table + call-order dominance over MIR"
DESIGN_REF = "DESIGN.md section 2 (T3) and section 4 (C16)"


def run(ctx):
    cfgs = ["asm-full"] if ctx.tier == "quick" else ["asm-full", "pure-full", "intr-full"]
    ctx.prefetch(cfgs)
    ctx.run_rule("T3t", r_hash.rule_T3_traits, cfgs)
    ctx.run_rule("T3g", r_hash.rule_T3_guts, cfgs + ["portable1"])
    import r_state
    ctx.run_rule("S1", r_state.rule_S1, cfgs)       # the trait reset methods forward to Hasher::reset, which must restore everything
    ctx.run_rule("S2", r_state.rule_S2, cfgs)
