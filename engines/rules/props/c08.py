"""C08 multithreaded hashing is deterministic under every schedule."""
import r_globals
import r_state

LEVEL = "proof"
EXPLANATION = ("Rust clause 'result independent of schedule and race-free', decided structurally: G3 the two closures handed to "
               "J::join each capture exactly one mutable thing, a [u8] that is .0 / .1 of ONE split_at_mut of the local "
               "cv_array (disjointness is then the borrow checker's theorem); every other capture is a shared reference or "
               "Copy scalar; input is split by one split_at at left_subtree_len; the right closure gets chunk_counter + "
               "left.len()/CHUNK_LEN and each closure recurses with its own half only, keeping the same J; results are used "
               "positionally. G4 nothing reachable from compress_subtree_wide touches a static, atomics/locks/threads, I/O, or "
               "FFI other than declared kernel symbols. G5 Join::join carries the Send bounds, SerialJoin is "
               "(oper_a(), oper_b()), RayonJoin is rayon_core::join(oper_a, oper_b), update_rayon is the same generic "
               "update_with_join body. G1 no hand-written Send/Sync. Hence every schedule computes what SerialJoin computes. "
               "C side (blake3_tbb.cpp seam) is checked by rule G5c when the C front-end facts are available; TBB itself and "
               "thread-pool sizing are not modelled.")
TRUSTED = ["rustc borrow checker (closure captures, split_at_mut disjointness)", "rustc MIR", "mirfacts serialisation", "rayon_core::join runs both closures exactly once and returns their results in order"]
ASSUMPTIONS = ["kernels write only through their `out` argument (C07)"]
TECHNIQUE = "closure-capture ownership analysis + effect closure over the resolved call graph + join-contract patterns (MIR)"
DESIGN_REF = "DESIGN.md section 2 (G1, G3, G4, G5) and section 4 (C08)"


def run(ctx):
    cfgs = ["asm-full", "pure-full", "portable1"] if ctx.tier == "quick" else ["asm-full", "pure-full", "intr-full", "asm-default", "asm-nostd", "portable1"]
    ctx.prefetch(cfgs)
    ctx.run_rule("G3", r_globals.rule_G3, cfgs)
    ctx.run_rule("G4j", r_globals.rule_G4_join, cfgs)
    ctx.run_rule("G5", r_globals.rule_G5, cfgs)
    ctx.run_rule("G1", r_globals.rule_G1, cfgs)
    ctx.run_rule("S3", r_state.rule_S3, cfgs)
    ctx.run_rule("W1", r_globals.rule_W1, cfgs)
    ctx.run_rule("AB", r_globals.rule_AB, cfgs)
    import r_io
    # update_mmap_rayon is one of the property's entry points: mapping => update_rayon(&*mmap), otherwise copy_wide from a rewound file
    ctx.run_rule("I3", r_io.rule_I3, [c for c in cfgs if c.endswith("-full")])
    try:
        import r_c
        if hasattr(r_c, "rule_G5C"):
            ctx.run_rule("G5C", r_c.rule_G5C)
        # the C halves write disjoint output slots only if each returns exactly what W1C says, into arrays M1C sizes
        ctx.run_rule("W1C", r_c.rule_W1C)
        ctx.run_c_rule("M1C", r_c.rule_M1C, ["gnu-x86_64"])
    except ImportError:
        pass
