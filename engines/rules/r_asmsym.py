"""R1asm: the hand-written assembly kernels against the spec's compression function, by lane-precise
symbolic value numbering of the assembled objects (engines/asmabi/asmsym.py).  Nothing is run."""
import os
import re
import sys

VERIF = os.path.dirname(os.path.dirname(os.path.dirname(os.path.abspath(__file__))))
sys.path.insert(0, os.path.join(VERIF, "engines", "asmabi"))
import asmabi  # noqa: E402
import asmsym  # noqa: E402
from asmsym import Machine, G, Unsupported  # noqa: E402
from symexec import Terms  # noqa: E402
import r_round  # noqa: E402
from r_asm import objects, op_of  # noqa: E402

# integer-class argument registers
ARGREGS = {"unix": ["rdi", "rsi", "rdx", "rcx", "r8", "r9"], "windows_gnu": ["rcx", "rdx", "r8", "r9"]}
PROTOS = {
    "compress_in_place": [("cv", "ptr"), ("block", "ptr"), ("block_len", "u8"), ("counter", "u64"), ("flags", "u8")],
    "compress_xof": [("cv", "ptr"), ("block", "ptr"), ("block_len", "u8"), ("counter", "u64"), ("flags", "u8"), ("out", "ptr")],
}


def entry_machine(o, proto):
    """machine at function entry with the prototype's arguments bound to named symbols"""
    M = Machine(o)
    T = M.T
    rsp = M.sym64("rsp0")
    M.gpr["rsp"] = rsp
    (s0, _), = rsp.items.items()
    M.frame_regs[s0] = "rsp0"
    regs = ARGREGS[o.flavour]
    args = {}
    for i, (name, ty) in enumerate(PROTOS[proto]):
        small = ty == "u8"
        sname = ("arg8:" if small else "") + name
        if i < len(regs):
            g = M.sym64(sname, small=small)
            M.gpr[regs[i]] = g
        else:
            # stack argument: [rsp0 + 8 + 8*i] (return address, then the home/argument area)
            off = 8 + 8 * i
            if small:
                t = T.sym(sname)
                M.frame[(s0, off)] = t
                g = M.from32(t)
            else:
                g = M.sym64(sname)
                M.frame64[(s0, off)] = g
        args[name] = g
    return M, args


def sym_of(g):
    (s, co), = g.items.items()
    return s


def ld32(T, g, off):
    return T.mk("ld32", g.add(G({}, off)).key())


def deep_diff(T, a, b, depth=0):
    """smallest differing pair of subterms (for diagnostics)"""
    if a == b:
        return None
    ta, tb = T.rev[a], T.rev[b]
    if ta[0] != tb[0] or len(ta) != len(tb) or depth > 60:
        return a, b
    if ta[0] in ("add", "xor", "or", "and"):
        sa, sb = set(ta[1]), set(tb[1])
        da, db = sorted(sa - sb), sorted(sb - sa)
        if len(da) == 1 and len(db) == 1 and len(ta[1]) == len(tb[1]):
            return deep_diff(T, da[0], db[0], depth + 1) or (a, b)
        return a, b
    for x, y in zip(ta[1:], tb[1:]):
        if x != y:
            if isinstance(x, int) and isinstance(y, int) and ta[0] in ("rotr", "shl", "shr", "sel", "ite") and x < len(T.rev) and y < len(T.rev) and not (ta[0] in ("rotr", "shl", "shr") and x == ta[1]):
                return deep_diff(T, x, y, depth + 1) or (a, b)
            return a, b
    return a, b


def check_single_block(ctx, o, fname, proto):
    tag = "%s:%s" % (fname, o.flavour)
    M, args = entry_machine(o, proto)
    T = M.T
    insns = o.funcs[fname]
    try:
        res, info = M.run(insns, 0)
    except Unsupported as u:
        ctx.ob(False, "asm-compress:%s" % tag, o.src, "not decidable: %s" % u)
        return
    if res != "ret":
        ctx.ob(False, "asm-compress:%s" % tag, o.src, "evaluation stopped at %s (%s) instead of reaching ret" % (res, info if not isinstance(info, tuple) else info[0].raw))
        return
    cvp, blk = args["cv"], args["block"]
    cv = [ld32(T, cvp, 4 * i) for i in range(8)]
    m = [ld32(T, blk, 4 * j) for j in range(16)]
    # block_len / flags symbols: the 32-bit view of the (zero-extended) byte arguments
    bl = M.lo32(args["block_len"])
    fl = M.lo32(args["flags"])
    cs = sym_of(args["counter"])
    v = r_round.spec_compress_pre(T, cv, m, T.mk("lo", cs), T.mk("hi", cs), bl, fl)
    if proto == "compress_in_place":
        want = {cvp.add(G({}, 4 * i)).key(): T.xor(v[i], v[i + 8]) for i in range(8)}
    else:
        outp = args["out"]
        want = {outp.add(G({}, 4 * i)).key(): T.xor(v[i], v[i + 8]) for i in range(8)}
        want.update({outp.add(G({}, 32 + 4 * i)).key(): T.xor(v[i + 8], cv[i]) for i in range(8)})
    got = {}
    extra = []
    for a, lanes in M.stores:
        for i, t in enumerate(lanes):
            k = a.add(G({}, 4 * i)).key()
            if k in got:
                extra.append("address written twice")
            got[k] = t
    bad = None
    if set(got) != set(want):
        bad = "writes %d dword(s) to caller memory, %d of them outside / missing from the %d-byte result" % (len(got), len(set(got) ^ set(want)), 4 * len(want))
    else:
        for i, k in enumerate(sorted(want, key=lambda k: k[1])):
            if got[k] != want[k]:
                dd = divergence(T, got[k], want[k]) or (got[k], want[k])
                bad = "output word %d differs from the spec; innermost difference: code has %s ; spec has %s" % (i, T.show(dd[0])[:150], T.show(dd[1])[:150])
                break
    # loads from caller memory: only the 32 bytes of cv and the 64 bytes of block
    allowed = {cvp.add(G({}, 4 * i)).key() for i in range(8)} | {blk.add(G({}, 4 * j)).key() for j in range(16)}
    over = [k for k, w in M.loads if k not in allowed]
    if bad is None and over:
        bad = "reads caller memory outside cv[0..32) and block[0..64): %d access(es)" % len(over)
    if bad is None and extra:
        bad = extra[0]
    ctx.ob(bad is None, "asm-compress:%s" % tag, o.src,
           bad or "%d instructions evaluated; the %d output words equal the spec compression of (cv, block, counter lo/hi, block_len, flags) term for term; reads = cv[0..32)+block[0..64), writes = exactly the result" % (M.executed, len(want)))


def rule_R1asm_single(ctx):
    n = 0
    for o in objects(ctx):
        for fname in sorted(o.funcs):
            op = op_of(fname)
            if op in ("compress_in_place", "compress_xof"):
                n += 1
                check_single_block(ctx, o, fname, op)
    ctx.floor("assembly single-block kernels evaluated", n, 12)


def leaf_set(T, t, memo=None):
    """leaves of a term DAG (memoised)"""
    memo = {} if memo is None else memo
    out = set()
    stack = [t]
    seen = set()
    while stack:
        x = stack.pop()
        if x in seen:
            continue
        seen.add(x)
        n = T.rev[x]
        if n[0] in ("sym", "c", "ld32", "ld64", "lo", "hi", "ld8"):
            out.add(x)
            continue
        if n[0] in ("add", "xor", "or", "and"):
            stack.extend(n[1])
        elif n[0] in ("rotr", "shl", "shr", "mul"):
            stack.append(n[2])
        else:
            for y in n[1:]:
                if isinstance(y, int) and 0 <= y < len(T.rev):
                    stack.append(y)
    return out


def divergence(T, a, b, depth=0, memo=None):
    """descend to a small differing pair of subterms (diagnostics only)"""
    memo = {} if memo is None else memo
    if a == b:
        return None
    if (a, b) in memo:
        return memo[(a, b)]
    ta, tb = T.rev[a], T.rev[b]
    res = (a, b)
    if ta[0] == tb[0] and depth < 200:
        if ta[0] in ("add", "xor", "or", "and"):
            sa, sb = set(ta[1]), set(tb[1])
            da, db = sorted(sa - sb), sorted(sb - sa)
            if len(da) == len(db) and da:
                ls = {x: frozenset(leaf_set(T, x)) for x in da + db}
                for x in da:
                    cands = [y for y in db if ls[y] == ls[x] and T.rev[y][0] == T.rev[x][0]]
                    if len(cands) >= 1:
                        r = divergence(T, x, cands[0], depth + 1, memo)
                        if r:
                            res = r
                            break
        elif ta[0] in ("rotr", "shl", "shr", "mul"):
            if ta[1] == tb[1]:
                res = divergence(T, ta[2], tb[2], depth + 1, memo) or res
        else:
            if len(ta) == len(tb):
                for x, y in zip(ta[1:], tb[1:]):
                    if x != y and isinstance(x, int) and isinstance(y, int) and x < len(T.rev) and y < len(T.rev):
                        res = divergence(T, x, y, depth + 1, memo) or res
                        break
    memo[(a, b)] = res
    return res
