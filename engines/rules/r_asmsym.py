"""R1asm: the hand-written assembly kernels against the spec's compression function, by lane-precise
symbolic value numbering of the assembled objects (engines/asmabi/asmsym.py).  Nothing is run."""
import os
import re
import sys

VERIF = os.path.dirname(os.path.dirname(os.path.dirname(os.path.abspath(__file__))))
sys.path.insert(0, os.path.join(VERIF, "engines", "asmabi"))
import asmabi  # noqa: E402
import asmsym  # noqa: E402
from asmsym import Machine, G, Unsupported  # noqa: E402
from symexec import Terms  # noqa: E402
import r_round  # noqa: E402
from r_asm import objects, op_of  # noqa: E402

# integer-class argument registers
ARGREGS = {"unix": ["rdi", "rsi", "rdx", "rcx", "r8", "r9"], "windows_gnu": ["rcx", "rdx", "r8", "r9"]}
PROTOS = {
    "compress_in_place": [("cv", "ptr"), ("block", "ptr"), ("block_len", "u8"), ("counter", "u64"), ("flags", "u8")],
    "compress_xof": [("cv", "ptr"), ("block", "ptr"), ("block_len", "u8"), ("counter", "u64"), ("flags", "u8"), ("out", "ptr")],
}


def entry_machine(o, proto):
    """machine at function entry with the prototype's arguments bound to named symbols"""
    M = Machine(o)
    T = M.T
    rsp = M.sym64("rsp0")
    M.gpr["rsp"] = rsp
    (s0, _), = rsp.items.items()
    M.frame_regs[s0] = "rsp0"
    regs = ARGREGS[o.flavour]
    args = {}
    for i, (name, ty) in enumerate(PROTOS[proto]):
        small = ty == "u8"
        sname = ("arg8:" if small else "") + name
        if i < len(regs):
            g = M.sym64(sname, small=small)
            M.gpr[regs[i]] = g
        else:
            # stack argument: [rsp0 + 8 + 8*i] (return address, then the home/argument area)
            off = 8 + 8 * i
            if small:
                t = T.sym(sname)
                M.frame[(s0, off)] = t
                g = M.from32(t)
            else:
                g = M.sym64(sname)
                M.frame64[(s0, off)] = g
        args[name] = g
    return M, args


def sym_of(g):
    (s, co), = g.items.items()
    return s


def ld32(T, g, off):
    return T.mk("ld32", g.add(G({}, off)).key())


def deep_diff(T, a, b, depth=0):
    """smallest differing pair of subterms (for diagnostics)"""
    if a == b:
        return None
    ta, tb = T.rev[a], T.rev[b]
    if ta[0] != tb[0] or len(ta) != len(tb) or depth > 60:
        return a, b
    if ta[0] in ("add", "xor", "or", "and"):
        sa, sb = set(ta[1]), set(tb[1])
        da, db = sorted(sa - sb), sorted(sb - sa)
        if len(da) == 1 and len(db) == 1 and len(ta[1]) == len(tb[1]):
            return deep_diff(T, da[0], db[0], depth + 1) or (a, b)
        return a, b
    for x, y in zip(ta[1:], tb[1:]):
        if x != y:
            if isinstance(x, int) and isinstance(y, int) and ta[0] in ("rotr", "shl", "shr", "sel", "ite") and x < len(T.rev) and y < len(T.rev) and not (ta[0] in ("rotr", "shl", "shr") and x == ta[1]):
                return deep_diff(T, x, y, depth + 1) or (a, b)
            return a, b
    return a, b


def check_single_block(ctx, o, fname, proto):
    tag = "%s:%s" % (fname, o.flavour)
    M, args = entry_machine(o, proto)
    T = M.T
    insns = o.funcs[fname]
    try:
        res, info = M.run(insns, 0)
    except Unsupported as u:
        ctx.ob(False, "asm-compress:%s" % tag, o.src, "not decidable: %s" % u)
        return
    if res != "ret":
        ctx.ob(False, "asm-compress:%s" % tag, o.src, "evaluation stopped at %s (%s) instead of reaching ret" % (res, info if not isinstance(info, tuple) else info[0].raw))
        return
    cvp, blk = args["cv"], args["block"]
    cv = [ld32(T, cvp, 4 * i) for i in range(8)]
    m = [ld32(T, blk, 4 * j) for j in range(16)]
    # block_len / flags symbols: the 32-bit view of the (zero-extended) byte arguments
    bl = M.lo32(args["block_len"])
    fl = M.lo32(args["flags"])
    cs = sym_of(args["counter"])
    v = r_round.spec_compress_pre(T, cv, m, T.mk("lo", cs), T.mk("hi", cs), bl, fl)
    if proto == "compress_in_place":
        want = {cvp.add(G({}, 4 * i)).key(): T.xor(v[i], v[i + 8]) for i in range(8)}
    else:
        outp = args["out"]
        want = {outp.add(G({}, 4 * i)).key(): T.xor(v[i], v[i + 8]) for i in range(8)}
        want.update({outp.add(G({}, 32 + 4 * i)).key(): T.xor(v[i + 8], cv[i]) for i in range(8)})
    got = {}
    extra = []
    for a, lanes in M.stores:
        for i, t in enumerate(lanes):
            k = a.add(G({}, 4 * i)).key()
            if k in got:
                extra.append("address written twice")
            got[k] = t
    bad = None
    if set(got) != set(want):
        bad = "writes %d dword(s) to caller memory, %d of them outside / missing from the %d-byte result" % (len(got), len(set(got) ^ set(want)), 4 * len(want))
    else:
        for i, k in enumerate(sorted(want, key=lambda k: k[1])):
            if got[k] != want[k]:
                dd = divergence(T, got[k], want[k]) or (got[k], want[k])
                bad = "output word %d differs from the spec; innermost difference: code has %s ; spec has %s" % (i, T.show(dd[0])[:150], T.show(dd[1])[:150])
                break
    # loads from caller memory: only the 32 bytes of cv and the 64 bytes of block
    allowed = {cvp.add(G({}, 4 * i)).key() for i in range(8)} | {blk.add(G({}, 4 * j)).key() for j in range(16)}
    over = [k for k, w in M.loads if k not in allowed]
    if bad is None and over:
        bad = "reads caller memory outside cv[0..32) and block[0..64): %d access(es)" % len(over)
    if bad is None and extra:
        bad = extra[0]
    ctx.ob(bad is None, "asm-compress:%s" % tag, o.src,
           bad or "%d instructions evaluated; the %d output words equal the spec compression of (cv, block, counter lo/hi, block_len, flags) term for term; reads = cv[0..32)+block[0..64), writes = exactly the result" % (M.executed, len(want)))


def rule_R1asm_single(ctx):
    n = 0
    for o in objects(ctx):
        for fname in sorted(o.funcs):
            op = op_of(fname)
            if op in ("compress_in_place", "compress_xof"):
                n += 1
                check_single_block(ctx, o, fname, op)
    ctx.floor("assembly single-block kernels evaluated", n, 12)


def leaf_set(T, t, memo=None):
    """leaves of a term DAG (memoised)"""
    memo = {} if memo is None else memo
    out = set()
    stack = [t]
    seen = set()
    while stack:
        x = stack.pop()
        if x in seen:
            continue
        seen.add(x)
        n = T.rev[x]
        if n[0] in ("sym", "c", "ld32", "ld64", "lo", "hi", "ld8"):
            out.add(x)
            continue
        if n[0] in ("add", "xor", "or", "and"):
            stack.extend(n[1])
        elif n[0] in ("rotr", "shl", "shr", "mul"):
            stack.append(n[2])
        else:
            for y in n[1:]:
                if isinstance(y, int) and 0 <= y < len(T.rev):
                    stack.append(y)
    return out


def divergence(T, a, b, depth=0, memo=None):
    """descend to a small differing pair of subterms (diagnostics only)"""
    memo = {} if memo is None else memo
    if a == b:
        return None
    if (a, b) in memo:
        return memo[(a, b)]
    ta, tb = T.rev[a], T.rev[b]
    res = (a, b)
    if ta[0] == tb[0] and depth < 200:
        if ta[0] in ("add", "xor", "or", "and"):
            sa, sb = set(ta[1]), set(tb[1])
            da, db = sorted(sa - sb), sorted(sb - sa)
            if len(da) == len(db) and da:
                ls = {x: frozenset(leaf_set(T, x)) for x in da + db}
                for x in da:
                    cands = [y for y in db if ls[y] == ls[x] and T.rev[y][0] == T.rev[x][0]]
                    if len(cands) >= 1:
                        r = divergence(T, x, cands[0], depth + 1, memo)
                        if r:
                            res = r
                            break
        elif ta[0] in ("rotr", "shl", "shr", "mul"):
            if ta[1] == tb[1]:
                res = divergence(T, ta[2], tb[2], depth + 1, memo) or res
        else:
            if len(ta) == len(tb):
                for x, y in zip(ta[1:], tb[1:]):
                    if x != y and isinstance(x, int) and isinstance(y, int) and x < len(T.rev) and y < len(T.rev):
                        res = divergence(T, x, y, depth + 1, memo) or res
                        break
    memo[(a, b)] = res
    return res


# ======================================================================= many-kernels: regions ====
class CFG:
    def __init__(self, insns):
        self.insns = insns
        self.idx = {i.addr: n for n, i in enumerate(insns)}
        leaders = {insns[0].addr}
        for n, i in enumerate(insns):
            if asmabi.is_jump(i.mn):
                t = asmsym.jump_target(i)
                if t in self.idx:
                    leaders.add(t)
                if n + 1 < len(insns):
                    leaders.add(insns[n + 1].addr)
            if i.mn == "ret" and n + 1 < len(insns):
                leaders.add(insns[n + 1].addr)
        self.leaders = sorted(leaders)
        self.blocks = {}
        for bi, a in enumerate(self.leaders):
            s = self.idx[a]
            e = self.idx[self.leaders[bi + 1]] if bi + 1 < len(self.leaders) else len(insns)
            self.blocks[a] = (s, e)
        # back edges (target address <= source block start): loop heads
        self.heads = {}
        for a, (s, e) in self.blocks.items():
            last = insns[e - 1]
            if asmabi.is_jump(last.mn):
                t = asmsym.jump_target(last)
                if t is not None and t in self.idx and t <= a:
                    self.heads.setdefault(t, []).append(last.addr)

    def block_of(self, addr):
        import bisect
        return self.leaders[bisect.bisect_right(self.leaders, addr) - 1]


def fresh_machine(o, frame_names=("rsp", "rbp")):
    M = Machine(o)
    for r in frame_names:
        g = M.sym64(r)
        M.gpr[r] = g
        (s, _), = g.items.items()
        M.frame_regs[s] = r
    return M


def run_region(o, insns, start_addr, stop_addrs, setup=None, follow=None):
    """evaluate from start_addr with fresh symbolic state until a stop address, ret, or an undecided branch"""
    M = fresh_machine(o)
    if setup:
        setup(M)
    idx = {i.addr: n for n, i in enumerate(insns)}
    res = M.run(insns, idx[start_addr], stop_addrs=set(stop_addrs), follow=follow)
    return M, res


def parse_lane_sym(T, t):
    n = T.rev[t]
    if n[0] == "sym":
        m = re.fullmatch(r"(xmm\d+)\.(\d+)", n[1])
        if m:
            return m.group(1), int(m.group(2))
    return None


def out_layout(E, T, nwords_per_input=8, stride=32):
    """from the stores of an epilogue region: {(g, i): (reg, lane)}, and the base address G"""
    by_base = {}
    for a, lanes in E.stores:
        base = G(dict(a.items), 0).key()
        for j, t in enumerate(lanes):
            off = (a.c + 4 * j) & ((1 << 64) - 1)
            by_base.setdefault(base, {})[off] = t
    if len(by_base) != 1:
        return None, "stores go to %d different base addresses" % len(by_base)
    (base, m), = by_base.items()
    loc = {}
    for off, t in m.items():
        p = parse_lane_sym(T, t)
        if p is None:
            return None, "a stored word is not a plain register lane of the loop's result: %s" % T.show(t)[:80]
        g, r = divmod(off, stride)
        if r % 4 or r // 4 >= nwords_per_input:
            return None, "store at offset %d does not fit the %d-byte-per-input layout" % (off, stride)
        loc[(g, r // 4)] = p
    return (loc, base, m), None


def classify_message(T, term):
    """the 16 ld32 leaves of a compression output, ordered by address: ([terms], items-key, base const) or error text"""
    lds = [x for x in leaf_set(T, term) if T.rev[x][0] == "ld32"]
    if len(lds) != 16:
        return None, "%d distinct 32-bit loads feed the output (expected the 16 message words)" % len(lds)
    keys = [T.rev[x][1] for x in lds]
    items = {k[0] for k in keys}
    if len(items) != 1:
        return None, "message words are loaded through different base expressions"
    order = sorted(zip([k[1] for k in keys], lds))
    c0 = order[0][0]
    if [c for c, _ in order] != [(c0 + 4 * j) & ((1 << 64) - 1) for j in range(16)]:
        return None, "message words are not 16 consecutive dwords"
    return ([t for _, t in order], items.pop(), c0), None


def stage_check(ctx, o, fname, insns, cfg, head, inst):
    """one loop stage of a many-kernel: body region + epilogue region"""
    where = "%s:%s+%#x" % (os.path.basename(o.src), fname, head - insns[0].addr)
    try:
        B, bres = run_region(o, insns, head, [])
    except Unsupported as u:
        return ctx.ob(False, inst, where, "loop body not decidable: %s" % u)
    if bres[0] != "branch" or bres[1][2] != head:
        return ctx.ob(False, inst, where, "loop body does not end in its own back edge (%s)" % (bres[0],))
    T = B.T
    after = insns[bres[1][3] + 1].addr
    stops = set(cfg.heads) | {insns[0].addr}
    try:
        E, eres = run_region(o, insns, after, stops - {after})
    except Unsupported as u:
        return ctx.ob(False, inst, where, "stage epilogue not decidable: %s" % u)
    lay, err = out_layout(E, E.T)
    if err:
        return ctx.ob(False, inst, where, "epilogue: %s" % err)
    loc, obase, omap = lay
    W = 1 + max(g for g, i in loc)
    if set(loc) != {(g, i) for g in range(W) for i in range(8)}:
        return ctx.ob(False, inst, where, "epilogue does not store 8 words for each of %d inputs" % W)
    # roles
    frame_written = [(k, v) for k, v in B.frame.items() if T.rev[v][0] != "sym" or not T.rev[v][1].startswith(B.frame_regs[k[0]] + "[")]
    problems = []
    roles = {}
    for g in range(W):
        out0 = B.vec[loc[(g, 0)][0]][loc[(g, 0)][1]]
        msg, err = classify_message(T, out0)
        if err:
            problems.append("input %d: %s" % (g, err))
            break
        m, items, c0 = msg
        h = [T.sym("%s.%d" % loc[(g, i)]) for i in range(8)]
        fsyms = sorted((x for x in leaf_set(T, out0) if T.rev[x][0] == "sym" and re.match(r"(rsp|rbp)\[", T.rev[x][1]) and not T.rev[x][1].endswith(":1")),
                       key=lambda x: int(re.search(r"\[(-?0x[0-9a-f]+)\]", T.rev[x][1]).group(1), 16))
        fl_cands = []
        for k, v in B.scalar_frame_log:
            if v not in fl_cands:
                fl_cands.append(v)
        found = None
        for lo, hi in [(a, b) for a in fsyms for b in fsyms if a != b]:
            for fl in fl_cands:
                v = r_round.spec_compress_pre(T, h, m, lo, hi, T.const(64), fl)
                if all(T.xor(v[i], v[i + 8]) == B.vec[loc[(g, i)][0]][loc[(g, i)][1]] for i in range(8)):
                    found = (lo, hi, fl)
                    break
            if found:
                break
        if not found:
            # diagnostics with the most plausible roles
            if len(fsyms) >= 2 and fl_cands:
                v = r_round.spec_compress_pre(T, h, m, fsyms[0], fsyms[1], T.const(64), fl_cands[0])
                for i in range(8):
                    got = B.vec[loc[(g, i)][0]][loc[(g, i)][1]]
                    want = T.xor(v[i], v[i + 8])
                    if got != want:
                        dd = divergence(T, got, want) or (got, want)
                        problems.append("input %d word %d is not the spec compression of (h, block, counter slots, 64, flags): code has %s ; spec has %s" % (g, i, T.show(dd[0])[:120], T.show(dd[1])[:120]))
                        break
            else:
                problems.append("input %d: could not identify counter slots (%d frame symbols) / flags (%d candidates)" % (g, len(fsyms), len(fl_cands)))
            break
        roles[g] = dict(m=m, items=items, c0=c0, lo=found[0], hi=found[1], fl=found[2])
    if problems:
        return ctx.ob(False, inst, where, problems[0])
    # the counter slots of input g are consecutive dwords of two arrays
    def slot(t):
        return int(re.search(r"\[(-?0x[0-9a-f]+)\]", T.rev[t][1]).group(1), 16)
    lo0, hi0 = slot(roles[0]["lo"]), slot(roles[0]["hi"])
    for g in range(W):
        if slot(roles[g]["lo"]) != lo0 + 4 * g or slot(roles[g]["hi"]) != hi0 + 4 * g:
            problems.append("input %d takes its counter from frame slots %#x/%#x ; the arrays start at %#x/%#x" % (g, slot(roles[g]["lo"]), slot(roles[g]["hi"]), lo0, hi0))
    if len({roles[g]["fl"] for g in range(W)}) != 1:
        problems.append("inputs use different flag words")
    if problems:
        return ctx.ob(False, inst, where, problems[0])
    ctx.ob(True, inst, where, "%d-way stage: %d instructions; for every input g and word i the loop body maps h -> compress(h, 64 message bytes of input g, counter slots [%#x+4g]/[%#x+4g], 64, flags) term for term; the epilogue stores word i of input g at out+32g+4i"
           % (W, B.executed, lo0, hi0))
    return dict(W=W, roles=roles, B=B, E=E, loc=loc, lo0=lo0, hi0=hi0, after=after)


def wide_heads(cfg, insns):
    out = []
    for head, srcs in sorted(cfg.heads.items()):
        s, e = cfg.blocks[head]
        selfloop = any(cfg.block_of(x) == head for x in srcs)
        nadds = sum(1 for i in insns[s:e] if i.mn in ("vpaddd", "paddd"))
        if selfloop and nadds > 100:
            out.append(head)
    return out


def rule_R1asm_xof(ctx):
    n = 0
    for o in objects(ctx):
        for fname in sorted(o.funcs):
            if op_of(fname) == "xof_many":
                n += 1
                check_xof_many(ctx, o, fname)
    ctx.floor("assembly xof_many routines", n, 1)


def rule_R1asm_many(ctx):
    n = 0
    for o in objects(ctx):
        for fname in sorted(o.funcs):
            if op_of(fname) != "hash_many":
                continue
            insns = o.funcs[fname]
            cfg = CFG(insns)
            for head in wide_heads(cfg, insns):
                n += 1
                stage_check(ctx, o, fname, insns, cfg, head, "asm-wide-stage:%s:%s:%d" % (fname, o.flavour, len([h for h in wide_heads(cfg, insns) if h <= head])))
    ctx.floor("transposed hash_many stages in assembly", n, 10)


# ======================================================================= xof_many ====
def enumerate_regions(o, insns, start_addrs, shared_T=None, limit=80, setup=None):
    """decided paths between undecided branches: [(start, machine, result)]"""
    idx = {i.addr: n for n, i in enumerate(insns)}
    todo = list(start_addrs)
    seen = set()
    out = []
    while todo and len(out) < limit:
        a = todo.pop(0)
        if a in seen or a not in idx:
            continue
        seen.add(a)
        M = fresh_machine(o)
        if setup:
            setup(M)
        res = M.run(insns, idx[a], stop_addrs=set())
        out.append((a, M, res))
        if res[0] == "branch":
            ins, cc, tgt, pc = res[1]
            if tgt is not None:
                todo.append(tgt)
            if pc + 1 < len(insns):
                todo.append(insns[pc + 1].addr)
    return out


def carry_add(T, new_lo, new_hi, old_lo, old_hi, c):
    """(new_hi:new_lo) == (old_hi:old_lo) + c as a 64-bit sum, in one of the canonical term forms"""
    if c == 0:
        return new_lo == old_lo and new_hi == old_hi
    if new_lo != T.add(old_lo, T.const(c)):
        return False
    cond = T.mk("ltu", new_lo, old_lo)
    return new_hi == T.mk("sel", cond, T.add(old_hi, T.const(1)), old_hi)


def reg_sym(M, name):
    return G({M.T.sym(name): 1})


def check_xof_many(ctx, o, fname):
    insns = o.funcs[fname]
    tag = "%s:%s" % (fname, o.flavour)
    where = o.src
    # stable argument registers: never written inside the function
    stable = {"rdi": "cv", "rsi": "block", "rdx": "block_len", "r8": "flags"}
    written = set()
    # the single-block fast path at the top (ends in its own ret) is a separate region with its own argument use
    first_ret = next((n for n, i in enumerate(insns) if i.mn == "ret"), 0)
    fast = asmabi.is_jump(insns[2].mn) or any(asmabi.is_jump(i.mn) for i in insns[:4])
    body = insns[first_ret + 1:] if fast else insns
    for i in body:
        written |= asmabi.writes(i)
    bad = sorted(r for r in stable if r in written)
    ctx.ob(not bad, "asm-xof-stable-args:%s" % tag, where, "argument registers %s are %s inside the function" % (sorted(stable), "never written" if not bad else "written: %s" % bad))
    if bad:
        return
    def setup(M):
        # the uint8_t arguments arrive zero-extended (assumption recorded in the evidence)
        M.gpr["rdx"] = M.sym64("arg8:block_len", small=True)
        M.gpr["r8"] = M.sym64("arg8:flags", small=True)
    try:
        regs = enumerate_regions(o, insns, [insns[0].addr], setup=setup)
    except Unsupported as u:
        ctx.ob(False, "asm-xof-regions:%s" % tag, where, "not decidable: %s" % u)
        return
    nstage = 0
    for start, M, res in regs:
        T = M.T
        rel = start - insns[0].addr
        outs = {}
        r9 = reg_sym(M, "r9")
        foreign = 0
        for a, lanes in M.stores:
            d = a.add(r9, -1)
            if not d.is_const():
                foreign += 1
                continue
            for j, t in enumerate(lanes):
                outs[(d.c + 4 * j) & ((1 << 64) - 1)] = t
        inst = "asm-xof-stage:%s:+%#x" % (tag, rel)
        if foreign:
            ctx.ob(False, inst, where, "%d store(s) to memory that is not the out pointer" % foreign)
            continue
        if not outs:
            # a region without output: it must not disturb the cursors either (prologue / dispatch tests), except the prologue
            continue
        nstage += 1
        W, rem = divmod(len(outs) * 4, 64)
        if rem or set(outs) != {4 * k for k in range(16 * W)}:
            ctx.ob(False, inst, where, "writes %d bytes, not whole consecutive 64-byte blocks from out" % (4 * len(outs)))
            continue
        cv = [T.mk("ld32", reg_sym(M, "rdi").add(G({}, 4 * i)).key()) for i in range(8)]
        m = [T.mk("ld32", reg_sym(M, "rsi").add(G({}, 4 * j)).key()) for j in range(16)]
        bl = T.sym("arg8:block_len")
        fl = T.sym("arg8:flags")
        in_frame = rel != 0 and "rsp[0x0]" in " ".join(T.rev[x][1] for x in leaf_set(T, outs[0]) if T.rev[x][0] == "sym")
        problem = None
        for g in range(W):
            if in_frame:
                lo, hi = T.sym("rsp[%s]" % hex(4 * g)), T.sym("rsp[%s]" % hex(0x40 + 4 * g))
            else:
                lo, hi = T.mk("lo", T.sym("rcx")), T.mk("hi", T.sym("rcx"))
            v = r_round.spec_compress_pre(T, cv, m, lo, hi, bl, fl)
            want = [T.xor(v[i], v[i + 8]) for i in range(8)] + [T.xor(v[i + 8], cv[i]) for i in range(8)]
            for i in range(16):
                got = outs[64 * g + 4 * i]
                if got != want[i]:
                    dd = divergence(T, got, want[i]) or (got, want[i])
                    problem = "output block %d word %d is not the spec XOF compression with the counter of lane %d: code has %s ; spec has %s" % (g, i, g, T.show(dd[0])[:110], T.show(dd[1])[:110])
                    break
            if problem:
                break
        # the stage is entered exactly when its bit of the remaining-block count is set (16-block loop: count >= 16)
        idx = {i.addr: n for n, i in enumerate(insns)}
        if problem is None and in_frame:
            k = idx[start]
            prev = [i for i in insns[max(0, k - 3):k] if i.mn != "nop"][-2:]
            if W == 16:
                okd = len(prev) == 2 and prev[0].mn == "cmp" and asmabi.canon_reg(prev[0].ops[0]) == "r10" and int(prev[0].ops[1], 0) == 16 and prev[1].mn in ("jb", "jc") \
                    and res[0] == "branch" and res[1][1] in ("ae", "nc") and M.flags[0] == "cmp" and M.flags[2].is_const() and M.flags[2].c == 16
            else:
                okd = len(prev) == 2 and prev[0].mn == "test" and asmabi.canon_reg(prev[0].ops[0]) == "r10" and int(prev[0].ops[1], 0) == W and prev[1].mn in ("je", "jz")
            if not okd:
                problem = "the %d-block stage is not guarded by the matching test of the remaining-block count (%s)" % (W, " ; ".join(i.raw.split("\t", 1)[-1].strip() for i in prev))
        # cursors after the stage
        if problem is None and res[0] != "ret":
            r9x = M.gpr.get("r9", r9).add(r9, -1)
            if not (r9x.is_const() and r9x.c == 64 * W):
                problem = "out advances by %s ; the stage wrote %d bytes" % (hex(r9x.c) if r9x.is_const() else "a non-constant", 64 * W)
            r10 = reg_sym(M, "r10")
            r10x = M.gpr.get("r10", r10).add(r10, -1)
            loops = res[0] == "branch" and res[1][2] == start
            if problem is None and loops and not (r10x.is_const() and r10x.c == (-W) & ((1 << 64) - 1)):
                problem = "the remaining-block count changes by %s per iteration of a %d-block stage" % (hex(r10x.c) if r10x.is_const() else "?", W)
            if problem is None and in_frame:
                if loops:
                    for j in range(16):
                        ol, oh = T.sym("rsp[%s]" % hex(4 * j)), T.sym("rsp[%s]" % hex(0x40 + 4 * j))
                        nl = M.frame.get((list(M.frame_regs)[0], 4 * j), ol)
                        nh = M.frame.get((list(M.frame_regs)[0], 0x40 + 4 * j), oh)
                        if not carry_add(T, nl, nh, ol, oh, W):
                            problem = "counter lane %d is not advanced by %d as a 64-bit value (lo %s, hi %s)" % (j, W, T.show(nl)[:60], T.show(nh)[:80])
                            break
                else:
                    # a tail stage runs at most once; at most W-1 blocks can follow: their counters must have moved down
                    fb = [k for k, nm in M.frame_regs.items() if nm == "rsp"][0]
                    for j in range(max(W - 1, 0)):
                        for base in (0, 0x40):
                            want_t = T.sym("rsp[%s]" % hex(base + 4 * (j + W)))
                            got_t = M.frame.get((fb, base + 4 * j), T.sym("rsp[%s]" % hex(base + 4 * j)))
                            if got_t != want_t:
                                problem = "after the %d-block tail, counter %s lane %d holds %s ; the next stage needs the value of lane %d" % (W, "low" if base == 0 else "high", j, T.show(got_t)[:60], j + W)
                                break
                        if problem:
                            break
        ctx.ob(problem is None, inst, where, problem or "%d-block stage (%d instructions): every output word equals the spec XOF compression of (cv, block, counter of its lane, block_len, flags); out += %d; counters %s"
               % (W, M.executed, 64 * W, "advanced by %d with carry" % W if res[0] == "branch" and res[1][2] == start else "handed to the next stage"))
    ctx.floor("xof_many stages (%s)" % o.flavour, nstage, 6)
    # prologue: the counter arrays
    for start, M, res in regs:
        T = M.T
        fb = [k for k, nm in M.frame_regs.items() if nm == "rsp"]
        hit = [k for k in M.frame if k[0] not in fb]
        # the region that realigns rsp creates a new frame base
        newb = [k for k, nm in M.frame_regs.items() if nm not in ("rsp", "rbp")]
        if not newb:
            continue
        b = newb[0]
        lo0, hi0 = T.mk("lo", T.sym("rcx")), T.mk("hi", T.sym("rcx"))
        problem = None
        for j in range(16):
            nl, nh = M.frame.get((b, 4 * j)), M.frame.get((b, 0x40 + 4 * j))
            if nl is None or nh is None or not carry_add(T, nl, nh, lo0, hi0, j):
                problem = "initial counter lane %d is (lo %s, hi %s) ; required counter + %d" % (j, T.show(nl)[:50] if nl is not None else None, T.show(nh)[:70] if nh is not None else None, j)
                break
        ctx.ob(problem is None, "asm-xof-initial-counters:%s" % tag, where, problem or "frame[4j] / frame[0x40+4j] = low/high word of counter + j for j = 0..15")
