"""R1asm: the hand-written assembly kernels against the spec's compression function, by lane-precise
symbolic value numbering of the assembled objects (engines/asmabi/asmsym.py).  Nothing is run."""
import os
import re
import sys

VERIF = os.path.dirname(os.path.dirname(os.path.dirname(os.path.abspath(__file__))))
sys.path.insert(0, os.path.join(VERIF, "engines", "asmabi"))
import asmabi  # noqa: E402
import asmsym  # noqa: E402
from asmsym import Machine, G, Unsupported  # noqa: E402
from asmabi import mem_operand  # noqa: E402
from symexec import Terms  # noqa: E402
import r_round  # noqa: E402
from r_asm import objects, op_of  # noqa: E402

# integer-class argument registers
ARGREGS = {"unix": ["rdi", "rsi", "rdx", "rcx", "r8", "r9"], "windows_gnu": ["rcx", "rdx", "r8", "r9"], "windows_msvc": ["rcx", "rdx", "r8", "r9"]}
PROTOS = {
    "compress_in_place": [("cv", "ptr"), ("block", "ptr"), ("block_len", "u8"), ("counter", "u64"), ("flags", "u8")],
    "compress_xof": [("cv", "ptr"), ("block", "ptr"), ("block_len", "u8"), ("counter", "u64"), ("flags", "u8"), ("out", "ptr")],
}


def entry_machine(o, proto):
    """machine at function entry with the prototype's arguments bound to named symbols"""
    M = Machine(o)
    T = M.T
    rsp = M.sym64("rsp0")
    M.gpr["rsp"] = rsp
    (s0, _), = rsp.items.items()
    M.frame_regs[s0] = "rsp0"
    regs = ARGREGS[o.flavour]
    args = {}
    for i, (name, ty) in enumerate(PROTOS[proto]):
        small = ty == "u8"
        sname = ("arg8:" if small else "") + name
        if i < len(regs):
            g = M.sym64(sname, small=small)
            M.gpr[regs[i]] = g
        else:
            # stack argument: [rsp0 + 8 + 8*i] (return address, then the home/argument area)
            off = 8 + 8 * i
            if small:
                t = T.sym(sname)
                M.frame[(s0, off)] = t
                g = M.from32(t)
            else:
                g = M.sym64(sname)
                M.frame64[(s0, off)] = g
        args[name] = g
    return M, args


def sym_of(g):
    (s, co), = g.items.items()
    return s


def ld32(T, g, off):
    return T.mk("ld32", g.add(G({}, off)).key())


def deep_diff(T, a, b, depth=0):
    """smallest differing pair of subterms (for diagnostics)"""
    if a == b:
        return None
    ta, tb = T.rev[a], T.rev[b]
    if ta[0] != tb[0] or len(ta) != len(tb) or depth > 60:
        return a, b
    if ta[0] in ("add", "xor", "or", "and"):
        sa, sb = set(ta[1]), set(tb[1])
        da, db = sorted(sa - sb), sorted(sb - sa)
        if len(da) == 1 and len(db) == 1 and len(ta[1]) == len(tb[1]):
            return deep_diff(T, da[0], db[0], depth + 1) or (a, b)
        return a, b
    for x, y in zip(ta[1:], tb[1:]):
        if x != y:
            if isinstance(x, int) and isinstance(y, int) and ta[0] in ("rotr", "shl", "shr", "sel", "ite") and x < len(T.rev) and y < len(T.rev) and not (ta[0] in ("rotr", "shl", "shr") and x == ta[1]):
                return deep_diff(T, x, y, depth + 1) or (a, b)
            return a, b
    return a, b


def check_single_block(ctx, o, fname, proto):
    tag = "%s:%s" % (fname, o.flavour)
    M, args = entry_machine(o, proto)
    T = M.T
    insns = o.funcs[fname]
    try:
        res, info = M.run(insns, 0)
    except Unsupported as u:
        ctx.ob(False, "asm-compress:%s" % tag, o.src, "not decidable: %s" % u)
        return
    if res != "ret":
        ctx.ob(False, "asm-compress:%s" % tag, o.src, "evaluation stopped at %s (%s) instead of reaching ret" % (res, info if not isinstance(info, tuple) else info[0].raw))
        return
    cvp, blk = args["cv"], args["block"]
    cv = [ld32(T, cvp, 4 * i) for i in range(8)]
    m = [ld32(T, blk, 4 * j) for j in range(16)]
    # block_len / flags symbols: the 32-bit view of the (zero-extended) byte arguments
    bl = M.lo32(args["block_len"])
    fl = M.lo32(args["flags"])
    cs = sym_of(args["counter"])
    v = r_round.spec_compress_pre(T, cv, m, T.mk("lo", cs), T.mk("hi", cs), bl, fl)
    if proto == "compress_in_place":
        want = {cvp.add(G({}, 4 * i)).key(): T.xor(v[i], v[i + 8]) for i in range(8)}
    else:
        outp = args["out"]
        want = {outp.add(G({}, 4 * i)).key(): T.xor(v[i], v[i + 8]) for i in range(8)}
        want.update({outp.add(G({}, 32 + 4 * i)).key(): T.xor(v[i + 8], cv[i]) for i in range(8)})
    got = {}
    extra = []
    for a, lanes in M.stores:
        for i, t in enumerate(lanes):
            k = a.add(G({}, 4 * i)).key()
            if k in got:
                extra.append("address written twice")
            got[k] = t
    bad = None
    if set(got) != set(want):
        bad = "writes %d dword(s) to caller memory, %d of them outside / missing from the %d-byte result" % (len(got), len(set(got) ^ set(want)), 4 * len(want))
    else:
        for i, k in enumerate(sorted(want, key=lambda k: k[1])):
            if got[k] != want[k]:
                dd = divergence(T, got[k], want[k]) or (got[k], want[k])
                bad = "output word %d differs from the spec; innermost difference: code has %s ; spec has %s" % (i, T.show(dd[0])[:150], T.show(dd[1])[:150])
                break
    # loads from caller memory: only the 32 bytes of cv and the 64 bytes of block
    allowed = {cvp.add(G({}, 4 * i)).key() for i in range(8)} | {blk.add(G({}, 4 * j)).key() for j in range(16)}
    over = [k for k, w in M.loads if k not in allowed]
    if bad is None and over:
        bad = "reads caller memory outside cv[0..32) and block[0..64): %d access(es)" % len(over)
    if bad is None and extra:
        bad = extra[0]
    ctx.ob(bad is None, "asm-compress:%s" % tag, o.src,
           bad or "%d instructions evaluated; the %d output words equal the spec compression of (cv, block, counter lo/hi, block_len, flags) term for term; reads = cv[0..32)+block[0..64), writes = exactly the result" % (M.executed, len(want)))


def rule_R1asm_single(ctx):
    n = 0
    for o in objects(ctx):
        for fname in sorted(o.funcs):
            op = op_of(fname)
            if op in ("compress_in_place", "compress_xof"):
                n += 1
                check_single_block(ctx, o, fname, op)
    ctx.floor("assembly single-block kernels evaluated", n, 18)


def leaf_set(T, t, memo=None):
    """leaves of a term DAG (memoised)"""
    memo = {} if memo is None else memo
    out = set()
    stack = [t]
    seen = set()
    while stack:
        x = stack.pop()
        if x in seen:
            continue
        seen.add(x)
        n = T.rev[x]
        if n[0] in ("sym", "c", "ld32", "ld64", "lo", "hi", "ld8"):
            out.add(x)
            continue
        if n[0] in ("add", "xor", "or", "and"):
            stack.extend(n[1])
        elif n[0] in ("rotr", "shl", "shr", "mul"):
            stack.append(n[2])
        else:
            for y in n[1:]:
                if isinstance(y, int) and 0 <= y < len(T.rev):
                    stack.append(y)
    return out


def divergence(T, a, b, depth=0, memo=None):
    """descend to a small differing pair of subterms (diagnostics only)"""
    memo = {} if memo is None else memo
    if a == b:
        return None
    if (a, b) in memo:
        return memo[(a, b)]
    ta, tb = T.rev[a], T.rev[b]
    res = (a, b)
    if ta[0] == tb[0] and depth < 200:
        if ta[0] in ("add", "xor", "or", "and"):
            sa, sb = set(ta[1]), set(tb[1])
            da, db = sorted(sa - sb), sorted(sb - sa)
            if len(da) == len(db) and da:
                ls = {x: frozenset(leaf_set(T, x)) for x in da + db}
                for x in da:
                    cands = [y for y in db if ls[y] == ls[x] and T.rev[y][0] == T.rev[x][0]]
                    if len(cands) >= 1:
                        r = divergence(T, x, cands[0], depth + 1, memo)
                        if r:
                            res = r
                            break
        elif ta[0] in ("rotr", "shl", "shr", "mul"):
            if ta[1] == tb[1]:
                res = divergence(T, ta[2], tb[2], depth + 1, memo) or res
        else:
            if len(ta) == len(tb):
                for x, y in zip(ta[1:], tb[1:]):
                    if x != y and isinstance(x, int) and isinstance(y, int) and x < len(T.rev) and y < len(T.rev):
                        res = divergence(T, x, y, depth + 1, memo) or res
                        break
    memo[(a, b)] = res
    return res


# ======================================================================= many-kernels: regions ====
class CFG:
    def __init__(self, insns):
        self.insns = insns
        self.idx = {i.addr: n for n, i in enumerate(insns)}
        leaders = {insns[0].addr}
        for n, i in enumerate(insns):
            if asmabi.is_jump(i.mn):
                t = asmsym.jump_target(i)
                if t in self.idx:
                    leaders.add(t)
                if n + 1 < len(insns):
                    leaders.add(insns[n + 1].addr)
            if i.mn == "ret" and n + 1 < len(insns):
                leaders.add(insns[n + 1].addr)
        self.leaders = sorted(leaders)
        self.blocks = {}
        for bi, a in enumerate(self.leaders):
            s = self.idx[a]
            e = self.idx[self.leaders[bi + 1]] if bi + 1 < len(self.leaders) else len(insns)
            self.blocks[a] = (s, e)
        # back edges (target address <= source block start): loop heads
        self.heads = {}
        for a, (s, e) in self.blocks.items():
            last = insns[e - 1]
            if asmabi.is_jump(last.mn):
                t = asmsym.jump_target(last)
                if t is not None and t in self.idx and t <= a:
                    self.heads.setdefault(t, []).append(last.addr)

    def block_of(self, addr):
        import bisect
        return self.leaders[bisect.bisect_right(self.leaders, addr) - 1]


def fresh_machine(o, frame_names=("rsp", "rbp")):
    M = Machine(o)
    for r in frame_names:
        g = M.sym64(r)
        M.gpr[r] = g
        (s, _), = g.items.items()
        M.frame_regs[s] = r
    return M


def run_region(o, insns, start_addr, stop_addrs, setup=None, follow=None):
    """evaluate from start_addr with fresh symbolic state until a stop address, ret, or an undecided branch"""
    M = fresh_machine(o)
    if setup:
        setup(M)
    idx = {i.addr: n for n, i in enumerate(insns)}
    res = M.run(insns, idx[start_addr], stop_addrs=set(stop_addrs), follow=follow)
    return M, res


def parse_lane_sym(T, t):
    n = T.rev[t]
    if n[0] == "sym":
        m = re.fullmatch(r"(xmm\d+)\.(\d+)", n[1])
        if m:
            return m.group(1), int(m.group(2))
    return None


def out_layout(E, T, nwords_per_input=8, stride=32):
    """from the stores of an epilogue region: {(g, i): (reg, lane)}, and the base address G"""
    by_base = {}
    for a, lanes in E.stores:
        base = G(dict(a.items), 0).key()
        for j, t in enumerate(lanes):
            off = (a.c + 4 * j) & ((1 << 64) - 1)
            by_base.setdefault(base, {})[off] = t
    if len(by_base) != 1:
        return None, "stores go to %d different base addresses" % len(by_base)
    (base, m), = by_base.items()
    loc = {}
    for off, t in m.items():
        p = parse_lane_sym(T, t)
        if p is None:
            return None, "a stored word is not a plain register lane of the loop's result: %s" % T.show(t)[:80]
        g, r = divmod(off, stride)
        if r % 4 or r // 4 >= nwords_per_input:
            return None, "store at offset %d does not fit the %d-byte-per-input layout" % (off, stride)
        loc[(g, r // 4)] = p
    return (loc, base, m), None


def classify_message(T, term):
    """the 16 ld32 leaves of a compression output, ordered by address: ([terms], items-key, base const) or error text"""
    lds = [x for x in leaf_set(T, term) if T.rev[x][0] == "ld32"]
    if len(lds) != 16:
        return None, "%d distinct 32-bit loads feed the output (expected the 16 message words)" % len(lds)
    keys = [T.rev[x][1] for x in lds]
    items = {k[0] for k in keys}
    if len(items) != 1:
        return None, "message words are loaded through different base expressions"
    order = sorted(zip([k[1] for k in keys], lds))
    c0 = order[0][0]
    if [c for c, _ in order] != [(c0 + 4 * j) & ((1 << 64) - 1) for j in range(16)]:
        return None, "message words are not 16 consecutive dwords"
    return ([t for _, t in order], items.pop(), c0), None


def stage_check(ctx, o, fname, insns, cfg, head, inst):
    """one loop stage of a many-kernel: body region + epilogue region"""
    where = "%s:%s+%#x" % (os.path.basename(o.src), fname, head - insns[0].addr)
    try:
        B, bres = run_region(o, insns, head, [])
    except Unsupported as u:
        return ctx.ob(False, inst, where, "loop body not decidable: %s" % u)
    if bres[0] != "branch" or bres[1][2] != head:
        return ctx.ob(False, inst, where, "loop body does not end in its own back edge (%s)" % (bres[0],))
    T = B.T
    after = insns[bres[1][3] + 1].addr
    stops = set(cfg.heads) | {insns[0].addr}
    try:
        E, eres = run_region(o, insns, after, stops - {after})
    except Unsupported as u:
        return ctx.ob(False, inst, where, "stage epilogue not decidable: %s" % u)
    lay, err = out_layout(E, E.T)
    if err:
        return ctx.ob(False, inst, where, "epilogue: %s" % err)
    loc, obase, omap = lay
    W = 1 + max(g for g, i in loc)
    if set(loc) != {(g, i) for g in range(W) for i in range(8)}:
        return ctx.ob(False, inst, where, "epilogue does not store 8 words for each of %d inputs" % W)
    # roles
    frame_written = [(k, v) for k, v in B.frame.items() if T.rev[v][0] != "sym" or not T.rev[v][1].startswith(B.frame_regs[k[0]] + "[")]
    problems = []
    roles = {}
    for g in range(W):
        out0 = B.vec[loc[(g, 0)][0]][loc[(g, 0)][1]]
        msg, err = classify_message(T, out0)
        if err:
            problems.append("input %d: %s" % (g, err))
            break
        m, items, c0 = msg
        h = [T.sym("%s.%d" % loc[(g, i)]) for i in range(8)]
        fsyms = sorted((x for x in leaf_set(T, out0) if T.rev[x][0] == "sym" and re.match(r"(rsp|rbp)\[", T.rev[x][1]) and not T.rev[x][1].endswith(":1")),
                       key=lambda x: int(re.search(r"\[(-?0x[0-9a-f]+)\]", T.rev[x][1]).group(1), 16))
        fl_cands = []
        for k, v in B.scalar_frame_log:
            if v not in fl_cands:
                fl_cands.append(v)
        found = None
        for lo, hi in [(a, b) for a in fsyms for b in fsyms if a != b]:
            for fl in fl_cands:
                v = r_round.spec_compress_pre(T, h, m, lo, hi, T.const(64), fl)
                if all(T.xor(v[i], v[i + 8]) == B.vec[loc[(g, i)][0]][loc[(g, i)][1]] for i in range(8)):
                    found = (lo, hi, fl)
                    break
            if found:
                break
        if not found:
            # diagnostics with the most plausible roles
            if len(fsyms) >= 2 and fl_cands:
                v = r_round.spec_compress_pre(T, h, m, fsyms[0], fsyms[1], T.const(64), fl_cands[0])
                for i in range(8):
                    got = B.vec[loc[(g, i)][0]][loc[(g, i)][1]]
                    want = T.xor(v[i], v[i + 8])
                    if got != want:
                        dd = divergence(T, got, want) or (got, want)
                        problems.append("input %d word %d is not the spec compression of (h, block, counter slots, 64, flags): code has %s ; spec has %s" % (g, i, T.show(dd[0])[:120], T.show(dd[1])[:120]))
                        break
            else:
                problems.append("input %d: could not identify counter slots (%d frame symbols) / flags (%d candidates)" % (g, len(fsyms), len(fl_cands)))
            break
        roles[g] = dict(m=m, items=items, c0=c0, lo=found[0], hi=found[1], fl=found[2])
    if problems:
        return ctx.ob(False, inst, where, problems[0])
    # the counter slots of input g are consecutive dwords of two arrays
    def slot(t):
        return int(re.search(r"\[(-?0x[0-9a-f]+)\]", T.rev[t][1]).group(1), 16)
    lo0, hi0 = slot(roles[0]["lo"]), slot(roles[0]["hi"])
    for g in range(W):
        if slot(roles[g]["lo"]) != lo0 + 4 * g or slot(roles[g]["hi"]) != hi0 + 4 * g:
            problems.append("input %d takes its counter from frame slots %#x/%#x ; the arrays start at %#x/%#x" % (g, slot(roles[g]["lo"]), slot(roles[g]["hi"]), lo0, hi0))
    if len({roles[g]["fl"] for g in range(W)}) != 1:
        problems.append("inputs use different flag words")
    if problems:
        return ctx.ob(False, inst, where, problems[0])
    ctx.ob(True, inst, where, "%d-way stage: %d instructions; for every input g and word i the loop body maps h -> compress(h, 64 message bytes of input g, counter slots [%#x+4g]/[%#x+4g], 64, flags) term for term; the epilogue stores word i of input g at out+32g+4i"
           % (W, B.executed, lo0, hi0))
    return dict(W=W, roles=roles, B=B, E=E, loc=loc, lo0=lo0, hi0=hi0, after=after)


def wide_heads(cfg, insns):
    out = []
    for head, srcs in sorted(cfg.heads.items()):
        s, e = cfg.blocks[head]
        selfloop = any(cfg.block_of(x) == head for x in srcs)
        nadds = sum(1 for i in insns[s:e] if i.mn in ("vpaddd", "paddd"))
        if selfloop and nadds > 100:
            out.append(head)
    return out


def rule_R1asm_hash(ctx):
    """every stage of every assembly hash_many, both increment modes"""
    n = 0
    for o in objects(ctx):
        for fname in sorted(o.funcs):
            if op_of(fname) == "hash_many":
                for inc in (1, 0):
                    n += check_hash_many(ctx, o, fname, inc)
    ctx.floor("assembly hash_many stages decided (both increment modes)", n, 90)


def rule_R1asm_xof(ctx):
    n = 0
    for o in objects(ctx):
        for fname in sorted(o.funcs):
            if op_of(fname) == "xof_many":
                n += 1
                check_xof_many(ctx, o, fname)
    ctx.floor("assembly xof_many routines", n, 1)


def rule_R1asm_many(ctx):
    n = 0
    for o in objects(ctx):
        for fname in sorted(o.funcs):
            if op_of(fname) != "hash_many":
                continue
            insns = o.funcs[fname]
            cfg = CFG(insns)
            for head in wide_heads(cfg, insns):
                n += 1
                stage_check(ctx, o, fname, insns, cfg, head, "asm-wide-stage:%s:%s:%d" % (fname, o.flavour, len([h for h in wide_heads(cfg, insns) if h <= head])))
    ctx.floor("transposed hash_many stages in assembly", n, 10)


# ======================================================================= xof_many ====
def enumerate_regions(o, insns, start_addrs, shared_T=None, limit=80, setup=None):
    """decided paths between undecided branches: [(start, machine, result)]"""
    idx = {i.addr: n for n, i in enumerate(insns)}
    todo = list(start_addrs)
    seen = set()
    out = []
    while todo and len(out) < limit:
        a = todo.pop(0)
        if a in seen or a not in idx:
            continue
        seen.add(a)
        M = fresh_machine(o)
        if setup:
            setup(M)
        res = M.run(insns, idx[a], stop_addrs=set())
        out.append((a, M, res))
        if res[0] == "branch":
            ins, cc, tgt, pc = res[1]
            if tgt is not None:
                todo.append(tgt)
            if pc + 1 < len(insns):
                todo.append(insns[pc + 1].addr)
    return out


def carry_add(T, new_lo, new_hi, old_lo, old_hi, c):
    """(new_hi:new_lo) == (old_hi:old_lo) + c as a 64-bit sum, in one of the canonical term forms"""
    if c == 0:
        return new_lo == old_lo and new_hi == old_hi
    if new_lo != T.add(old_lo, T.const(c)):
        return False
    for cond in (T.mk("ltu", new_lo, old_lo), T.mk("ltu", new_lo, T.const(c))):
        # new = old + c (mod 2^32) wrapped  <=>  new <u old  <=>  new <u c
        if new_hi == T.mk("sel", cond, T.add(old_hi, T.const(1)), old_hi):
            return True
    return False


def reg_sym(M, name):
    return G({M.T.sym(name): 1})


def check_xof_many(ctx, o, fname):
    insns = o.funcs[fname]
    tag = "%s:%s" % (fname, o.flavour)
    where = o.src
    # stable argument registers: never written inside the function
    stable = {"rdi": "cv", "rsi": "block", "rdx": "block_len", "r8": "flags"}
    written = set()
    # the single-block fast path at the top (ends in its own ret) is a separate region with its own argument use
    first_ret = next((n for n, i in enumerate(insns) if i.mn == "ret"), 0)
    fast = asmabi.is_jump(insns[2].mn) or any(asmabi.is_jump(i.mn) for i in insns[:4])
    body = insns[first_ret + 1:] if fast else insns
    for i in body:
        written |= asmabi.writes(i)
    bad = sorted(r for r in stable if r in written)
    ctx.ob(not bad, "asm-xof-stable-args:%s" % tag, where, "argument registers %s are %s inside the function" % (sorted(stable), "never written" if not bad else "written: %s" % bad))
    if bad:
        return
    def setup(M):
        # the uint8_t arguments arrive zero-extended (assumption recorded in the evidence)
        M.gpr["rdx"] = M.sym64("arg8:block_len", small=True)
        M.gpr["r8"] = M.sym64("arg8:flags", small=True)
    try:
        regs = enumerate_regions(o, insns, [insns[0].addr], setup=setup)
    except Unsupported as u:
        ctx.ob(False, "asm-xof-regions:%s" % tag, where, "not decidable: %s" % u)
        return
    nstage = 0
    for start, M, res in regs:
        T = M.T
        rel = start - insns[0].addr
        outs = {}
        r9 = reg_sym(M, "r9")
        foreign = 0
        for a, lanes in M.stores:
            d = a.add(r9, -1)
            if not d.is_const():
                foreign += 1
                continue
            for j, t in enumerate(lanes):
                outs[(d.c + 4 * j) & ((1 << 64) - 1)] = t
        inst = "asm-xof-stage:%s:+%#x" % (tag, rel)
        if foreign:
            ctx.ob(False, inst, where, "%d store(s) to memory that is not the out pointer" % foreign)
            continue
        if not outs:
            # a region without output: it must not disturb the cursors either (prologue / dispatch tests), except the prologue
            continue
        nstage += 1
        W, rem = divmod(len(outs) * 4, 64)
        if rem or set(outs) != {4 * k for k in range(16 * W)}:
            ctx.ob(False, inst, where, "writes %d bytes, not whole consecutive 64-byte blocks from out" % (4 * len(outs)))
            continue
        cv = [T.mk("ld32", reg_sym(M, "rdi").add(G({}, 4 * i)).key()) for i in range(8)]
        m = [T.mk("ld32", reg_sym(M, "rsi").add(G({}, 4 * j)).key()) for j in range(16)]
        bl = T.sym("arg8:block_len")
        fl = T.sym("arg8:flags")
        in_frame = rel != 0 and "rsp[0x0]" in " ".join(T.rev[x][1] for x in leaf_set(T, outs[0]) if T.rev[x][0] == "sym")
        problem = None
        for g in range(W):
            if in_frame:
                lo, hi = T.sym("rsp[%s]" % hex(4 * g)), T.sym("rsp[%s]" % hex(0x40 + 4 * g))
            else:
                lo, hi = T.mk("lo", T.sym("rcx")), T.mk("hi", T.sym("rcx"))
            v = r_round.spec_compress_pre(T, cv, m, lo, hi, bl, fl)
            want = [T.xor(v[i], v[i + 8]) for i in range(8)] + [T.xor(v[i + 8], cv[i]) for i in range(8)]
            for i in range(16):
                got = outs[64 * g + 4 * i]
                if got != want[i]:
                    dd = divergence(T, got, want[i]) or (got, want[i])
                    problem = "output block %d word %d is not the spec XOF compression with the counter of lane %d: code has %s ; spec has %s" % (g, i, g, T.show(dd[0])[:110], T.show(dd[1])[:110])
                    break
            if problem:
                break
        # the stage is entered exactly when its bit of the remaining-block count is set (16-block loop: count >= 16)
        idx = {i.addr: n for n, i in enumerate(insns)}
        if problem is None and in_frame:
            k = idx[start]
            prev = [i for i in insns[max(0, k - 3):k] if i.mn != "nop"][-2:]
            if W == 16:
                okd = len(prev) == 2 and prev[0].mn == "cmp" and asmabi.canon_reg(prev[0].ops[0]) == "r10" and int(prev[0].ops[1], 0) == 16 and prev[1].mn in ("jb", "jc") \
                    and res[0] == "branch" and res[1][1] in ("ae", "nc") and M.flags[0] == "cmp" and M.flags[2].is_const() and M.flags[2].c == 16
            else:
                okd = len(prev) == 2 and prev[0].mn == "test" and asmabi.canon_reg(prev[0].ops[0]) == "r10" and int(prev[0].ops[1], 0) == W and prev[1].mn in ("je", "jz")
            if not okd:
                problem = "the %d-block stage is not guarded by the matching test of the remaining-block count (%s)" % (W, " ; ".join(i.raw.split("\t", 1)[-1].strip() for i in prev))
        # cursors after the stage
        if problem is None and res[0] != "ret":
            r9x = M.gpr.get("r9", r9).add(r9, -1)
            if not (r9x.is_const() and r9x.c == 64 * W):
                problem = "out advances by %s ; the stage wrote %d bytes" % (hex(r9x.c) if r9x.is_const() else "a non-constant", 64 * W)
            r10 = reg_sym(M, "r10")
            r10x = M.gpr.get("r10", r10).add(r10, -1)
            loops = res[0] == "branch" and res[1][2] == start
            if problem is None and loops and not (r10x.is_const() and r10x.c == (-W) & ((1 << 64) - 1)):
                problem = "the remaining-block count changes by %s per iteration of a %d-block stage" % (hex(r10x.c) if r10x.is_const() else "?", W)
            if problem is None and in_frame:
                if loops:
                    for j in range(16):
                        ol, oh = T.sym("rsp[%s]" % hex(4 * j)), T.sym("rsp[%s]" % hex(0x40 + 4 * j))
                        nl = M.frame.get((list(M.frame_regs)[0], 4 * j), ol)
                        nh = M.frame.get((list(M.frame_regs)[0], 0x40 + 4 * j), oh)
                        if not carry_add(T, nl, nh, ol, oh, W):
                            problem = "counter lane %d is not advanced by %d as a 64-bit value (lo %s, hi %s)" % (j, W, T.show(nl)[:60], T.show(nh)[:80])
                            break
                else:
                    # a tail stage runs at most once; at most W-1 blocks can follow: their counters must have moved down
                    fb = [k for k, nm in M.frame_regs.items() if nm == "rsp"][0]
                    for j in range(max(W - 1, 0)):
                        for base in (0, 0x40):
                            want_t = T.sym("rsp[%s]" % hex(base + 4 * (j + W)))
                            got_t = M.frame.get((fb, base + 4 * j), T.sym("rsp[%s]" % hex(base + 4 * j)))
                            if got_t != want_t:
                                problem = "after the %d-block tail, counter %s lane %d holds %s ; the next stage needs the value of lane %d" % (W, "low" if base == 0 else "high", j, T.show(got_t)[:60], j + W)
                                break
                        if problem:
                            break
        ctx.ob(problem is None, inst, where, problem or "%d-block stage (%d instructions): every output word equals the spec XOF compression of (cv, block, counter of its lane, block_len, flags); out += %d; counters %s"
               % (W, M.executed, 64 * W, "advanced by %d with carry" % W if res[0] == "branch" and res[1][2] == start else "handed to the next stage"))
    badloads = []
    for start, M, res in regs:
        T = M.T
        for key, width in M.loads:
            items, c = dict(key[0]), key[1]
            if items == {T.sym("rdi"): 1} and c + width <= 32:
                continue
            if items == {T.sym("rsi"): 1} and c + width <= 64:
                continue
            if items == {T.sym("rsp"): 1} and c == 8 and width == 8:
                continue            # the seventh argument (outblocks) on the caller's stack
            badloads.append("+%#x: %d bytes at %s%+d" % (start - insns[0].addr, width, [(T.show(x)[:30], v) for x, v in items.items()], c))
    ctx.ob(not badloads, "asm-xof-memory:%s" % tag, where, "; ".join(badloads[:3]) or "caller memory is read only at cv[0..32) and block[0..64) and written only at out[0..64*outblocks) stage by stage")
    ctx.floor("xof_many stages (%s)" % o.flavour, nstage, 6)
    # prologue: the counter arrays
    for start, M, res in regs:
        T = M.T
        fb = [k for k, nm in M.frame_regs.items() if nm == "rsp"]
        hit = [k for k in M.frame if k[0] not in fb]
        # the region that realigns rsp creates a new frame base
        newb = [k for k, nm in M.frame_regs.items() if nm not in ("rsp", "rbp")]
        if not newb:
            continue
        b = newb[0]
        lo0, hi0 = T.mk("lo", T.sym("rcx")), T.mk("hi", T.sym("rcx"))
        problem = None
        for j in range(16):
            nl, nh = M.frame.get((b, 4 * j)), M.frame.get((b, 0x40 + 4 * j))
            if nl is None or nh is None or not carry_add(T, nl, nh, lo0, hi0, j):
                problem = "initial counter lane %d is (lo %s, hi %s) ; required counter + %d" % (j, T.show(nl)[:50] if nl is not None else None, T.show(nh)[:70] if nh is not None else None, j)
                break
        ctx.ob(problem is None, "asm-xof-initial-counters:%s" % tag, where, problem or "frame[4j] / frame[0x40+4j] = low/high word of counter + j for j = 0..15")


# ======================================================================= hash_many: cut-point analysis ====
HASH_MANY_ARGS = [("inputs", "ptr"), ("num_inputs", "u64"), ("blocks", "u64"), ("key", "ptr"), ("counter", "u64"),
                  ("increment_counter", "u8"), ("flags", "u8"), ("flags_start", "u8"), ("flags_end", "u8"), ("out", "ptr")]


class ManyAnalysis:
    """regions of a many-kernel between cut points (function entry, loop heads with a symbolic trip count,
    undecided forward branches), all evaluated over ONE term store so that values can be carried from the
    prologue / preheaders into loop bodies for registers and stack slots that the loop does not write"""

    def __init__(self, o, fname, args, increment=None):
        self.o, self.fname, self.insns = o, fname, o.funcs[fname]
        self.idx = {i.addr: n for n, i in enumerate(self.insns)}
        self.cfg = CFG(self.insns)
        self.T = Terms()
        self.args = args
        self.increment = increment
        self.base = self.insns[0].addr
        self.argsyms = {}
        # loop heads with a symbolic trip count: their back edge is a conditional jump (the constant-trip round loops
        # of the kernels close with an unconditional jmp and leave through `dec al; jz`)
        self.sym_heads = set()
        for head, srcs in self.cfg.heads.items():
            for a in srcs:
                if self.insns[self.idx[a]].mn != "jmp":
                    self.sym_heads.add(head)
        self.def_values = {}
        self.all_written_gprs = set()
        for i in self.insns:
            if i.mn not in ("push", "pop"):
                self.all_written_gprs |= {r for r in asmabi.writes(i) if r in asmabi.GPR64}
        self.regions = {}
        for start, M, res in self._enumerate(stops=self.sym_heads):
            self.regions[start] = (M, res)

    # ---- machines ----
    def entry_machine(self):
        o = self.o
        M = Machine(o, self.T)
        rsp = M.sym64("rsp0")
        M.gpr["rsp"] = rsp
        (s0, _), = rsp.items.items()
        M.frame_regs[s0] = "rsp0"
        self.s0 = s0
        regs = ARGREGS[o.flavour]
        for i, (name, ty) in enumerate(self.args):
            small = ty == "u8"
            sname = ("arg8:" if small else "") + name
            if name == "increment_counter" and self.increment is not None:
                g = G({}, self.increment)
            elif small:
                g = M.sym64(sname, small=True)
            else:
                g = M.sym64(sname)
            self.argsyms[name] = g
            if i < len(regs):
                M.gpr[regs[i]] = g
            else:
                off = 8 + 8 * i if o.flavour != "unix" else 8 + 8 * (i - len(regs))
                if small or g.is_const():
                    M.frame[(s0, off)] = M.lo32(g)
                else:
                    M.frame64[(s0, off)] = g
        return M

    def unique_reaching_def(self, start, reg):
        """address of the single instruction whose write of `reg` reaches `start` on every path, else None"""
        blocks = self.cfg.blocks
        preds = {}
        for a, (s, e) in blocks.items():
            last = self.insns[e - 1]
            succs = []
            if asmabi.is_jump(last.mn):
                t = asmsym.jump_target(last)
                if t in blocks:
                    succs.append(t)
                if last.mn != "jmp" and e < len(self.insns):
                    succs.append(self.insns[e].addr)
            elif last.mn != "ret" and e < len(self.insns):
                succs.append(self.insns[e].addr)
            for x in succs:
                preds.setdefault(x, []).append(a)
        defs = set()
        seen = set()
        work = list(preds.get(self.cfg.block_of(start), [])) if start in blocks else []
        if start not in blocks:
            return None
        while work:
            b = work.pop()
            if b in seen:
                continue
            seen.add(b)
            s, e = blocks[b]
            d = None
            for i in reversed(self.insns[s:e]):
                if i.mn != "pop" and reg in asmabi.writes(i):
                    d = i.addr
                    break
            if d is not None:
                defs.add(d)
            elif b == self.insns[0].addr:
                defs.add("entry")
            else:
                work.extend(preds.get(b, []))
        return defs.pop() if len(defs) == 1 and "entry" not in defs else None

    def is_global(self, g):
        """the value mentions only argument symbols (no region-local register or memory symbols)"""
        T = self.T
        for sid in g.items:
            stack = [sid]
            while stack:
                x = stack.pop()
                n = T.rev[x]
                if n[0] == "sym":
                    nm = n[1]
                    if not (nm.startswith("arg8:") or nm in [a for a, _ in self.args]):
                        return False
                elif n[0] == "c":
                    pass
                elif n[0] in ("z32", "lo", "hi", "b0"):
                    stack.append(n[1])
                elif n[0] in ("or", "and", "add", "xor"):
                    stack.extend(n[1])
                else:
                    return False
        return True

    def value_after(self, addr, reg):
        """value of `reg` right after the instruction at `addr`, in the region that executes it (None if unknown)"""
        for start, (M, res) in self.regions.items():
            pass
        return None

    def region_machine(self, start):
        """fresh symbols, except values that are function-level invariants established by the prologue"""
        M = Machine(self.o, self.T)
        P = self.prologue
        # frame bases keep their identity
        M.frame_regs = dict(P.frame_regs)
        for r in ("rsp", "rbp"):
            if r in self.stable_gprs or r == "rsp":
                M.gpr[r] = P.gpr[r]
        for r in self.stable_gprs:
            M.gpr[r] = P.gpr[r]
        for r in self.stable_vecs:
            M.vec[r] = list(P.vec[r])
        for r in self.stable_k:
            M.k[r] = list(P.k[r])
        for k, v in P.frame.items():
            if k not in self.unstable_slots:
                M.frame[k] = v
        for k, v in P.frame64.items():
            if k not in self.unstable_slots:
                M.frame64[k] = v
        M.small |= P.small
        return M

    def _enumerate(self, stops):
        insns = self.insns
        first = True
        todo = [insns[0].addr]
        seen = set()
        out = []
        stop_states = {}
        self.stop_states = stop_states
        inherit = {}
        first_region_done = [False]
        jump_targets = {asmsym.jump_target(i) for i in insns if asmabi.is_jump(i.mn)}
        while todo and len(out) < 120:
            a = todo.pop(0)
            if a in seen or a not in self.idx:
                continue
            seen.add(a)
            if first:
                M = self.entry_machine()
            elif a in inherit:
                M = inherit[a].clone()       # the only way here is the fall-through of one undecided forward branch
            else:
                M = self.region_machine(a)
                # a general register that is fresh here but has ONE reaching definition whose value is a function of the
                # arguments only (e.g. 64*blocks, the flag bytes) carries that value
                for r in sorted(self.all_written_gprs):
                    if r in M.gpr or r in ("rsp", "rbp"):
                        continue
                    d = self.unique_reaching_def(a, r)
                    v = self.def_values.get((d, r)) if d is not None else None
                    if v is not None and self.is_global(v):
                        M.gpr[r] = v
                P = stop_states.get(a)
                if P is not None and a in self.sym_heads:
                    wr, _ = self.loop_written(a)
                    for r, g in P.gpr.items():
                        if r not in wr:
                            M.gpr[r] = g
                    for r, v in P.vec.items():
                        if r not in wr:
                            M.vec[r] = list(v)
                    for r, v in P.k.items():
                        if r not in wr:
                            M.k[r] = list(v)
                    lw = self.loop_written_slots(a, P)
                    for k, v in P.frame.items():
                        if k not in lw:
                            M.frame[k] = v
                    for k, v in P.frame64.items():
                        if k not in lw and (k[0], k[1] + 4) not in lw:
                            M.frame64[k] = v
            M.def_values = self.def_values
            res = M.run(insns, self.idx[a], stop_addrs=set(stops))
            if res[0] == "stop":
                stop_states.setdefault(res[1], M)
            if first:
                self._finish_prologue(M, res)
                first = False
            out.append((a, M, res))
            if res[0] == "branch":
                ins, cc, tgt, pc = res[1]
                if tgt is not None:
                    todo.append(tgt)
                if pc + 1 < len(insns):
                    ft = insns[pc + 1].addr
                    todo.append(ft)
                    if ft not in jump_targets and ft not in seen and tgt is not None and tgt > ins.addr:
                        inherit.setdefault(ft, M)
            elif res[0] == "stop":
                todo.append(res[1])
            first_region_done[0] = True
        return out

    def _finish_prologue(self, M, res):
        """what the first region establishes and nothing later overwrites"""
        self.prologue = M
        insns = self.insns
        pro_end = res[1][3] if res[0] == "branch" else len(insns) - 1
        later = insns[pro_end + 1:]
        written = set()
        slot_writes = set()
        for i in later:
            if i.mn != "pop":            # the restoring pops of the function epilogue end the frame's life, they are not updates
                written |= asmabi.writes(i)
            if i.ops:
                mem = mem_operand(i.ops[0])
                if mem and asmabi.canon_reg(i.ops[0]) is None and i.mn not in asmabi.NO_WRITE and mem[1] in ("rsp", "rbp") and not mem[2]:
                    slot_writes.add((mem[1], mem[3], mem[4]))
        written -= {"rsp"} if all(i.mn in ("mov", "pop", "ret", "vzeroupper") or "rsp" not in asmabi.writes(i) for i in later) else set()
        self.stable_gprs = {r for r in M.gpr if r not in written and r != "rsp"}
        self.stable_vecs = {r for r in M.vec if r not in written}
        self.stable_k = {r for r in M.k if r not in written}
        self.unstable_slots = set()
        for base, disp, width in slot_writes:
            g = M.gpr.get(base)
            if g is None:
                continue
            fr = M.split_frame(g.add(G({}, disp)))
            if fr:
                for d in range(0, max(width, 4), 4):
                    self.unstable_slots.add((fr[0], fr[1] + d))

    # ---- queries ----
    def state_at(self, head):
        """(machine stopped at `head`) of the region that falls into the loop, i.e. the preheader"""
        for start, (M, res) in self.regions.items():
            if res[0] == "stop" and res[1] == head and start != head:
                return start, M
        return None, None

    def loop_written(self, head):
        srcs = self.cfg.heads.get(head, [])
        if not srcs:
            return set(), set()
        lo, hi = self.idx[head], max(self.idx[a] for a in srcs)
        regs = set()
        for i in self.insns[lo:hi + 1]:
            regs |= asmabi.writes(i)
        return regs, (lo, hi)

    def loop_written_slots(self, head, P):
        """frame slots (dword granular) stored to by any instruction of the loop"""
        _, rng = self.loop_written(head)
        out = set()
        if not rng:
            return out
        for i in self.insns[rng[0]:rng[1] + 1]:
            if not i.ops or i.mn in asmabi.NO_WRITE:
                continue
            mem = mem_operand(i.ops[0])
            if mem and asmabi.canon_reg(i.ops[0]) is None and mem[1] in ("rsp", "rbp") and not mem[2]:
                g = P.gpr.get(mem[1])
                fr = P.split_frame(g.add(G({}, mem[3]))) if g is not None else None
                if fr:
                    for d in range(0, max(mem[4], 4), 4):
                        out.add((fr[0], fr[1] + d))
                else:
                    return set(P.frame) | set(P.frame64)      # unknown base: nothing is invariant
        return out

    def body_machine(self, head):
        """the loop body evaluated from its head: loop-invariant registers carry their preheader values"""
        pstart, P = self.state_at(head)
        M = self.region_machine(head)
        if P is not None:
            wr, _ = self.loop_written(head)
            for r, g in P.gpr.items():
                if r not in wr:
                    M.gpr[r] = g
            for r, v in P.vec.items():
                if r not in wr:
                    M.vec[r] = list(v)
            for r, v in P.k.items():
                if r not in wr:
                    M.k[r] = list(v)
        res = M.run(self.insns, self.idx[head], stop_addrs=set())
        return M, res, P


def frame_off(T, t):
    m = re.search(r"\[(-?0x[0-9a-f]+)\]", T.rev[t][1])
    return int(m.group(1), 16)


def check_hash_many(ctx, o, fname, inc):
    tag = "%s:%s:inc%d" % (fname, o.flavour, inc)
    where = o.src
    try:
        A = ManyAnalysis(o, fname, HASH_MANY_ARGS, increment=inc)
    except Unsupported as u:
        ctx.ob(False, "asm-hash-many:%s" % tag, where, "not decidable: %s" % u)
        return 0
    T = A.T
    insns = A.insns
    a = A.argsyms
    F_, S_, E_ = T.sym("arg8:flags"), T.sym("arg8:flags_start"), T.sym("arg8:flags_end")
    KEY, CTR = a["key"], a["counter"]
    BLOCKS64 = a["blocks"].scale(64)
    nstage = 0
    for head in sorted(A.sym_heads):
        if head not in A.regions:
            continue
        B, bres = A.regions[head]
        if not (bres[0] == "branch" and bres[1][2] == head):
            continue                      # an outer loop head / join point, not a block loop
        lo_i, hi_i = A.idx[head], bres[1][3]
        if sum(1 for i in insns[lo_i:hi_i + 1] if i.mn in ("paddd", "vpaddd")) < 12:
            continue
        nstage += 1
        rel = head - A.base
        inst = "asm-hash-stage:%s:+%#x" % (tag, rel)
        after = insns[bres[1][3] + 1].addr
        if after not in A.regions:
            ctx.ob(False, inst, where, "no epilogue region after the block loop")
            continue
        E, eres = A.regions[after]
        lay, err = out_layout(E, T)
        if err:
            ctx.ob(False, inst, where, "epilogue: %s" % err)
            continue
        loc, obase, omap = lay
        W = 1 + max(g for g, i in loc)
        if set(loc) != {(g, i) for g in range(W) for i in range(8)}:
            ctx.ob(False, inst, where, "the epilogue does not store exactly 8 words for each of %d inputs" % W)
            continue
        pstart, P = A.state_at(head)
        problem = None
        if P is None:
            problem = "no preheader region falls into this loop"
        roles = {}
        fl_cands = []
        for k, v in B.scalar_frame_log:
            if v not in fl_cands:
                fl_cands.append(v)
        for g in range(W):
            if problem:
                break
            outs = [B.vec[loc[(g, i)][0]][loc[(g, i)][1]] for i in range(8)]
            msg, err = classify_message(T, outs[0])
            if err:
                problem = "input %d: %s" % (g, err)
                break
            m, items, c0 = msg
            h = [T.sym("%s.%d" % loc[(g, i)]) for i in range(8)]
            fsyms = sorted((x for x in leaf_set(T, outs[0]) if T.rev[x][0] == "sym" and re.match(r"frame\[", T.rev[x][1])), key=lambda x: frame_off(T, x))
            found = None
            for lo, hi in [(x, y) for x in fsyms for y in fsyms if x != y]:
                for fl in fl_cands:
                    v = r_round.spec_compress_pre(T, h, m, lo, hi, T.const(64), fl)
                    if all(T.xor(v[i], v[i + 8]) == outs[i] for i in range(8)):
                        found = (lo, hi, fl)
                        break
                if found:
                    break
            if not found:
                if len(fsyms) >= 2 and fl_cands:
                    v = r_round.spec_compress_pre(T, h, m, fsyms[0], fsyms[1], T.const(64), fl_cands[-1])
                    for i in range(8):
                        want = T.xor(v[i], v[i + 8])
                        if outs[i] != want:
                            dd = divergence(T, outs[i], want) or (outs[i], want)
                            problem = "input %d word %d is not the spec compression of (h, block, counter slots, 64, flags): code has %s ; spec has %s" % (g, i, T.show(dd[0])[:110], T.show(dd[1])[:110])
                            break
                problem = problem or "input %d: counter slots / flags could not be identified (%d frame symbols, %d scalar candidates)" % (g, len(fsyms), len(fl_cands))
                break
            roles[g] = dict(m=m, items=items, c0=c0, lo=found[0], hi=found[1], fl=found[2])
        if problem is None:
            lo0, hi0 = frame_off(T, roles[0]["lo"]), frame_off(T, roles[0]["hi"])
            rdx0 = None
            for g in range(W):
                r = roles[g]
                if frame_off(T, r["lo"]) != lo0 + 4 * g or frame_off(T, r["hi"]) != hi0 + 4 * g:
                    problem = "input %d takes its counter from frame slots %#x/%#x ; the arrays start at %#x/%#x" % (g, frame_off(T, r["lo"]), frame_off(T, r["hi"]), lo0, hi0)
                    break
                # message address = inputs[g] + (block offset at loop entry)
                its = dict(r["items"])
                ptr = T.mk("ld64", P.gpr.get("rdi", reg_sym(P, "rdi")).add(G({}, 8 * g)).key()) if P is not None else None
                rest = {k: v for k, v in its.items() if k != ptr}
                if its.get(ptr) != 1 or len(rest) != 1 or list(rest.values()) != [1] or r["c0"] != 0:
                    problem = "input %d: message words are read from %s%+d ; required inputs[%d] + block offset" % (g, [(T.show(k)[:40], v) for k, v in its.items()], r["c0"], g)
                    break
                off_sym = list(rest)[0]
                if rdx0 is None:
                    rdx0 = off_sym
                elif rdx0 != off_sym:
                    problem = "inputs use different block offsets"
                    break
        if problem is None:
            if len({roles[g]["fl"] for g in range(W)}) != 1:
                problem = "inputs use different flag words"
        if problem is None:
            # block offset register: += 64 per iteration, 0 at loop entry; loop while offset+64 != 64*blocks
            offreg = [r for r, g in B.gpr.items() if set(g.items) == {rdx0} and g.items[rdx0] == 1 and g.c == 64]
            if not offreg:
                problem = "no register holds (block offset + 64) at the end of the body"
            else:
                orr = offreg[0]
                if not (P.gpr[orr].is_const() and P.gpr[orr].c == 0):
                    problem = "block offset register %s is not 0 on loop entry" % orr
                f = B.flags
                if problem is None and not (f[0] == "cmp" and bres[1][1] in ("ne", "nz") and f[1].key() == G({rdx0: 1}, 64).key() and f[2].key() == BLOCKS64.key()):
                    problem = "the block loop does not run while offset + 64 != 64 * blocks (%s %s)" % (bres[1][1], f[0])
        if problem is None:
            # flags: (first ? flags|flags_start : flags) | (last ? flags_end : 0)
            fl = roles[0]["fl"]
            cur_reg = None
            n = T.rev[fl]
            ok = n[0] == "ite" and T.rev[n[1]][0] == "cc" and T.rev[n[1]][1] == "e" and T.rev[n[1]][3] == G({rdx0: 1}, 64).key() and T.rev[n[1]][4] == BLOCKS64.key()
            if ok:
                last_v, other_v = n[2], n[3]
                ok = last_v == asmsym.t_or(T, other_v, E_) and T.rev[other_v][0] in ("lo", "sym")
            if not ok:
                problem = "block flags are %s ; required (offset+64 == 64*blocks) ? cur | flags_end : cur" % T.show(fl)[:160]
            else:
                cur = other_v
                regs = [r for r, g in P.gpr.items() if P.lo32(g) == asmsym.t_or(T, F_, S_)]
                curname = T.rev[cur][1] if T.rev[cur][0] == "sym" else T.rev[T.rev[cur][1]][1]
                if curname not in regs:
                    problem = "the flags register %s is not flags|flags_start on loop entry (registers holding that value: %s)" % (curname, regs)
                elif B.lo32(B.gpr[curname]) != F_:
                    problem = "after a block the flags register %s is %s ; required flags" % (curname, T.show(B.lo32(B.gpr[curname]))[:80])
        if problem is None:
            # chaining value on loop entry = key
            for g in range(W):
                for i in range(8):
                    R, k = loc[(g, i)]
                    if P.vec.get(R, [None] * 16)[k] != T.mk("ld32", KEY.add(G({}, 4 * i)).key()):
                        problem = "on loop entry, word %d of input %d is %s ; required key[%d]" % (i, g, T.show(P.vec.get(R, [0] * 16)[k])[:60] if R in P.vec else "unset", i)
                        break
                if problem:
                    break
        if problem is None:
            # epilogue: cursors and counters
            OUTB = G(dict(obase[0]), 0)
            outreg = [r for r, g in E.gpr.items() if g.add(OUTB, -1).is_const() and g.add(OUTB, -1).c == 32 * W]
            inp, cnt = "rdi", "rsi"      # the Windows flavour moves its arguments into the System V registers in the prologue
            di = E.gpr.get(inp, reg_sym(E, inp)).add(reg_sym(E, inp), -1)
            ni = E.gpr.get(cnt, reg_sym(E, cnt)).add(reg_sym(E, cnt), -1)
            if W == 1:
                pass        # nothing can follow the single-input stage
            elif not outreg:
                problem = "no register holds out + %d after the stage" % (32 * W)
            elif not (di.is_const() and di.c == 8 * W):
                problem = "the inputs pointer advances by %s ; required %d" % (hex(di.c) if di.is_const() else "?", 8 * W)
            elif not (ni.is_const() and ni.c == (-W) & ((1 << 64) - 1)):
                problem = "num_inputs changes by %s ; required -%d" % (hex(ni.c) if ni.is_const() else "?", W)
        if problem is None:
            fb = [k for k, nm in E.frame_regs.items() if nm == "frame"][0]
            L = min(16, abs(hi0 - lo0) // 4)
            loops = eres[0] == "branch" and eres[1][2] is not None and eres[1][2] == pstart
            for j in (range(L) if loops else range(max(W - 1, 0))):
                ol, oh = T.sym("frame[%s]" % hex(lo0 + 4 * j)), T.sym("frame[%s]" % hex(hi0 + 4 * j))
                nl, nh = E.frame.get((fb, lo0 + 4 * j), ol), E.frame.get((fb, hi0 + 4 * j), oh)
                if loops:
                    if not carry_add(T, nl, nh, ol, oh, W * inc):
                        problem = "after a pass of the %d-input loop stage counter lane %d is (lo %s, hi %s) ; required + %d (increment_counter = %d)" % (W, j, T.show(nl)[:50], T.show(nh)[:60], W * inc, inc)
                        break
                else:
                    sl, sh = T.sym("frame[%s]" % hex(lo0 + 4 * (j + W))), T.sym("frame[%s]" % hex(hi0 + 4 * (j + W)))
                    if not ((nl == sl and nh == sh) or (inc == 0 and nl == ol and nh == oh)):
                        problem = "after the %d-input tail stage counter lane %d is (lo %s, hi %s) ; the next stage needs the value of lane %d" % (W, j, T.show(nl)[:50], T.show(nh)[:60], j + W)
                        break
        if problem is None:
            # the stage is entered under the matching test of the remaining-input count
            k = A.idx[pstart]
            prev = [i for i in insns[max(0, k - 4):k] if i.mn != "nop"][-2:]
            okd = False
            if len(prev) == 2 and asmabi.is_jump(prev[1].mn) and asmabi.canon_reg(prev[0].ops[0]) == "rsi" and re.fullmatch(r"(0x[0-9a-f]+|\d+)", prev[0].ops[1].strip()):
                imm = int(prev[0].ops[1], 0)
                if loops:
                    okd = prev[0].mn == "cmp" and imm == W and prev[1].mn in ("jb", "jc")
                else:
                    okd = prev[0].mn == "test" and imm == W and prev[1].mn in ("je", "jz")
            if not okd and loops:
                # the outer loop is re-entered from its own tail: cmp rsi, W; jae head
                f = eres[1][0]
                okd = E.flags[0] == "cmp" and E.flags[2].is_const() and E.flags[2].c == W and eres[1][1] in ("ae", "nc")
                prev2 = [i for i in insns[max(0, k - 4):k] if i.mn != "nop"][-2:]
                okd = okd and len(prev2) == 2 and prev2[0].mn == "cmp" and int(prev2[0].ops[1], 0) == W
            if not okd:
                problem = "the %d-input stage is not guarded by the matching test of num_inputs (%s)" % (W, " ; ".join(i.raw.split("\t", 1)[-1].strip() for i in prev))
        if problem is None and loops and rel == min(h - A.base for h in A.sym_heads if h in A.regions and A.regions[h][1][0] == "branch" and A.regions[h][1][1][2] == h):
            # prologue: the counter arrays
            PR = A.prologue
            pfb = [kk for kk, nm in PR.frame_regs.items() if nm == "frame"]
            lo_c, hi_c = T.mk("lo", list(CTR.items)[0]), T.mk("hi", list(CTR.items)[0])
            for j in range(L):
                nl, nh = PR.frame.get((pfb[0], lo0 + 4 * j)) if pfb else None, PR.frame.get((pfb[0], hi0 + 4 * j)) if pfb else None
                if nl is None or nh is None or not carry_add(T, nl, nh, lo_c, hi_c, j * inc):
                    problem = "initial counter lane %d is (lo %s, hi %s) ; required counter + %d (increment_counter = %d)" % (j, T.show(nl)[:50] if nl is not None else None, T.show(nh)[:70] if nh is not None else None, j * inc, inc)
                    break
        ctx.ob(problem is None, inst, where, problem or "%d-input stage: body = spec compression per input (h, 64 message bytes at inputs[g]+offset, counter slots %#x/%#x + 4g, 64, block flags), h := key and flags := flags|flags_start on entry, |flags_end on the last block, reset to flags; epilogue stores out[32g+4i], advances out/inputs/num_inputs by %d and the counters by %d"
               % (W, lo0, hi0, W, W * inc))
    # memory footprint of the whole routine, region by region: stores only in the stage epilogues (exactly the 32 bytes per
    # input checked above); loads only from key[0..32), the inputs pointer array, and 64 message bytes at the block offset
    used_epilogues = set()
    for head in A.sym_heads:
        if head in A.regions and A.regions[head][1][0] == "branch" and A.regions[head][1][1][2] == head:
            used_epilogues.add(insns[A.regions[head][1][1][3] + 1].addr)
    stray = []
    badloads = []
    keysym = list(KEY.items)[0]
    for start, (M, res) in A.regions.items():
        if M.stores and start not in used_epilogues:
            stray.append("+%#x" % (start - A.base))
        for key, width in M.loads:
            items, c = dict(key[0]), key[1]
            c = c if c < (1 << 63) else c - (1 << 64)
            if items == {keysym: 1} and 0 <= c and c + width <= 32:
                continue
            syms = list(items)
            names = [T.rev[x] for x in syms]
            if len(syms) == 1 and names[0][0] == "sym" and names[0][1] == "rdi" and c % 8 == 0 and 0 <= c < 128 and width == 8:
                continue            # inputs[g]
            if len(syms) == 1 and syms[0] in A.argsyms["inputs"].items and c % 8 == 0 and 0 <= c < 128 and width == 8:
                continue
            ptrs = [x for x in syms if T.rev[x][0] == "ld64"]
            offs = [x for x in syms if T.rev[x][0] == "sym"]
            if len(ptrs) == 1 and len(offs) <= 1 and all(v == 1 for v in items.values()) and 0 <= c and c + width <= 64:
                continue            # 64 message bytes of one input at the current block offset
            badloads.append("+%#x: %d bytes at %s%+d" % (start - A.base, width, [(T.show(x)[:40], v) for x, v in items.items()], c))
    ctx.ob(not stray and not badloads, "asm-hash-memory:%s" % tag, where,
           ("stores outside the stage epilogues in regions %s; " % stray if stray else "") + ("; ".join(badloads[:2]) if badloads else "") or
           "%d regions: caller memory is written only by the stage epilogues (32 bytes per input) and read only at key[0..32), inputs[g] and the 64 bytes of each input at the block offset" % len(A.regions))
    return nstage


def xof_zero_block_safe(o, fname):
    """does the assembled xof_many return without storing when outblocks == 0?  Explore from the entry every path a ZERO count
    can take: a conditional jump that directly follows a cmp/test of the count register against an immediate (or itself) is
    decided for the value 0; every other conditional jump is explored both ways.  Returns (safe, witness text)."""
    insns = o.funcs[fname]
    idx = {i.addr: n for n, i in enumerate(insns)}
    cnt = None
    for i in insns[:6]:
        if i.mn == "mov" and len(i.ops) == 2 and "[rsp" in i.ops[1]:
            cnt = asmabi.canon_reg(i.ops[0])       # the 7th argument (outblocks) loaded from the caller's frame
            break
    if cnt is None:
        return False, "the count register could not be identified"
    work = [(0, None)]
    seen = set()
    while work:
        k, flags = work.pop()
        while k < len(insns):
            if (k, flags) in seen:
                break
            seen.add((k, flags))
            i = insns[k]
            if i.mn == "ret":
                break
            if i.mn in ("cmp", "test") and cnt is not None and asmabi.canon_reg(i.ops[0]) == cnt:
                if i.mn == "test" and asmabi.canon_reg(i.ops[1]) == cnt:
                    flags = ("z",)
                elif re.fullmatch(r"(0x[0-9a-f]+|\d+)", i.ops[1].strip()):
                    flags = ("cmp0", int(i.ops[1], 0)) if i.mn == "cmp" else ("z",)
                else:
                    flags = None
                k += 1
                continue
            if asmabi.is_jump(i.mn):
                try:
                    tgt = idx[int(i.ops[0].split()[0], 16)]
                except (KeyError, ValueError):
                    return False, "jump target outside the routine at +%#x" % (i.addr - insns[0].addr)
                if i.mn == "jmp":
                    k, flags = tgt, None
                    continue
                taken = None
                if flags == ("z",):
                    taken = {"je": True, "jz": True, "jne": False, "jnz": False}.get(i.mn)
                elif flags is not None:
                    imm = flags[1]          # flags of (0 - imm), unsigned
                    taken = {"je": imm == 0, "jz": imm == 0, "jne": imm != 0, "jnz": imm != 0, "ja": False, "jnbe": False, "jae": imm == 0, "jnb": imm == 0, "jnc": imm == 0,
                             "jb": imm != 0, "jc": imm != 0, "jbe": True, "jna": True}.get(i.mn)
                if taken is None:
                    work.append((tgt, None))
                    k, flags = k + 1, None
                elif taken:
                    k, flags = tgt, None
                else:
                    k, flags = k + 1, None
                continue
            if i.ops and "[" in i.ops[0] and "rsp" not in i.ops[0] and "rbp" not in i.ops[0] and i.mn not in asmabi.NO_WRITE and not i.mn.startswith("prefetch"):
                return False, "with outblocks == 0 the store `%s` at +%#x is reached" % (" ".join(i.raw.split("\t", 1)[-1].split()), i.addr - insns[0].addr)
            if i.ops and asmabi.canon_reg(i.ops[0]) == cnt and not (i.mn == "mov" and "[rsp" in i.ops[-1] and k < 6):
                # the count changes: it is no longer known to be zero, later tests of it are explored both ways
                cnt = None
            flags = None
            k += 1
    return True, "every path a zero count can take reaches ret without a store to caller memory"


def rule_X0asm(ctx):
    """precondition of the assembled xof_many kernels: record whether each returns without storing for outblocks == 0"""
    res = {}
    for o in objects(ctx):
        for fname in sorted(o.funcs):
            if op_of(fname) == "xof_many":
                res["%s:%s" % (fname, o.flavour)] = xof_zero_block_safe(o, fname)
    ctx.extra["xof_zero_block_safe"] = {k: dict(safe=v[0], witness=v[1]) for k, v in res.items()}
    return res
