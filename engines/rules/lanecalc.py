"""K4: lane-counter set-up (load_counters*) decided by exact piecewise-affine abstract
interpretation with partition refinement (no solver, nothing executed).

Every 32/64-bit lane value is represented, on a cell [L,R] of the counter's low word `lo`, as
    a*lo + b + hm*H   (mod 2^w),  a in {0,1},  H = the counter's high word (symbolic)
An operation that is not uniform over the cell (a wrap, a sign-bit crossing, a comparison that
changes its outcome) raises Split(p); the driver splits the cell at p and re-evaluates.  The
finite result is compared, lane by lane and cell by cell, with the specification
    lo_i = lo + i*inc (mod 2^32),   hi_i = H + [lo + i*inc >= 2^32].
Unsupported constructs fail closed (Unsupported)."""
import re
import cast
from cast import walk_stmts


class Split(Exception):
    def __init__(self, p):
        self.p = p


class Unsupported(Exception):
    pass


class Aff:
    __slots__ = ("w", "a", "b", "hm")

    def __init__(self, w, a, b, hm):
        self.w, self.a, self.b, self.hm = w, a, b % (1 << w), hm % (1 << w)

    def is_const(self):
        return self.a == 0 and self.hm == 0

    def key(self):
        return (self.w, self.a, self.b, self.hm)

    def __repr__(self):
        s = []
        if self.a:
            s.append("lo")
        if self.hm:
            s.append("H" if self.hm == 1 else "%#x*H" % self.hm)
        if self.b or not s:
            s.append("%#x" % self.b)
        return "u%d(%s)" % (self.w, " + ".join(s))


class Bits31:
    """a 32-bit lane of which only bit 31 is known"""
    def __init__(self, bit):
        self.bit = bit


class Vec:
    def __init__(self, lanes, w):
        self.lanes, self.w = list(lanes), w


class Cell:
    def __init__(self, L, R):
        self.L, self.R = L, R


def lo_range(x, cell):
    """range of the lo-part a*lo+b (b already reduced) over the cell, requiring a uniform wrap count"""
    lo, hi = x.a * cell.L + x.b, x.a * cell.R + x.b
    m = 1 << x.w
    if lo // m != hi // m:
        raise Split(((hi // m) * m - x.b))
    return lo % m, hi % m


def msb(x, cell):
    if isinstance(x, Bits31):
        return x.bit
    if x.hm:
        raise Unsupported("sign bit of a value that contains the high word")
    lo, hi = lo_range(x, cell)
    half = 1 << (x.w - 1)
    if (lo >= half) != (hi >= half):
        # crossing point: smallest lo with value >= half (a == 1 here)
        raise Split(cell.L + (half - lo))
    return 1 if lo >= half else 0


def add(x, y):
    if isinstance(x, Bits31) or isinstance(y, Bits31):
        raise Unsupported("arithmetic on a lane of which only the sign bit is known")
    if x.a + y.a > 1:
        raise Unsupported("2*lo")
    return Aff(x.w, x.a + y.a, x.b + y.b, x.hm + y.hm)


def sub(x, y):
    if isinstance(x, Bits31) or isinstance(y, Bits31):
        raise Unsupported("arithmetic on a lane of which only the sign bit is known")
    if x.a - y.a < 0 or (y.hm and x.hm != y.hm):
        raise Unsupported("negative coefficient")
    return Aff(x.w, x.a - y.a, x.b - y.b, x.hm - y.hm)


def bitop(op, x, y, cell):
    w = x.w if isinstance(x, Aff) else 32
    ones = (1 << w) - 1
    cx = x.b if isinstance(x, Aff) and x.is_const() else None
    cy = y.b if isinstance(y, Aff) and y.is_const() else None
    if op == "andnot":      # (~x) & y
        if cx is not None:
            return bitop("and", Aff(w, 0, ones ^ cx, 0), y, cell)
        if cy == 0:
            return Aff(w, 0, 0, 0)
        return Bits31((1 - msb(x, cell)) & msb(y, cell))
    if cx is not None and cy is not None:
        return Aff(w, 0, {"and": cx & cy, "or": cx | cy, "xor": cx ^ cy}[op], 0)
    for c, o in ((cx, y), (cy, x)):
        if c is None:
            continue
        if op == "and" and c == 0:
            return Aff(w, 0, 0, 0)
        if op == "and" and c == ones:
            return o
        if op in ("or", "xor") and c == 0:
            return o
        if op == "xor" and c == 1 << (w - 1) and isinstance(o, Aff):
            return Aff(w, o.a, o.b + c, o.hm)      # flipping the top bit == adding 2^(w-1)
    if op == "and":
        return Bits31(msb(x, cell) & msb(y, cell))
    if op == "or":
        return Bits31(msb(x, cell) | msb(y, cell))
    return Bits31(msb(x, cell) ^ msb(y, cell))


def shift_right(x, n, cell, arithmetic=False):
    if isinstance(x, Aff) and x.is_const():
        v = x.b
        if arithmetic and v >> (x.w - 1):
            v -= 1 << x.w
        return Aff(x.w, 0, v >> n, 0)
    w = 32 if isinstance(x, Bits31) else x.w
    if n == w - 1 and w == 32:
        bit = msb(x, cell)
        return Aff(32, 0, ((1 << 32) - 1) * bit if arithmetic else bit, 0)
    if isinstance(x, Aff) and x.w == 64 and n == 32 and not arithmetic:
        # (a*lo + b + hm*H) >> 32 with hm == 2^32: high word + carry of the low part
        if x.hm not in (0, 1 << 32):
            raise Unsupported("64-bit shift of an unexpected form")
        lo, hi = x.a * cell.L + x.b, x.a * cell.R + x.b
        if lo >> 32 != hi >> 32:
            raise Split(((hi >> 32) << 32) - x.b)
        return Aff(64, 0, lo >> 32, 1 if x.hm else 0)
    raise Unsupported("shift right by %d of a non-constant lane" % n)


def cmpgt_signed(x, y, cell):
    if isinstance(x, Bits31) or isinstance(y, Bits31) or x.hm or y.hm:
        raise Unsupported("signed compare of this form")
    def signed(v):
        m = msb(v, cell)
        lo, hi = lo_range(v, cell)
        return lo - (m << v.w), hi - (m << v.w), v.a
    xl, xh, xa = signed(x)
    yl, yh, ya = signed(y)
    dl, dh = xl - yl, xh - yh      # difference at the two ends (affine in lo)
    if (dl > 0) != (dh > 0):
        # sign change inside the cell: first lo where the outcome flips
        step = xa - ya
        p = cell.L + ((0 - dl) // step + 1 if step > 0 else (dl - 1) // (-step) + 1)
        raise Split(max(cell.L + 1, min(cell.R, p)))
    return Aff(x.w, 0, ((1 << x.w) - 1) if dl > 0 else 0, 0)


class LaneEval:
    def __init__(self, f, inc, cell):
        self.f, self.inc, self.cell = f, inc, cell
        self.env = {}
        self.out = {}

    def scalar(self, e):
        k = e[0]
        if k == "int":
            return Aff(64, 0, e[1], 0)
        if k == "var":
            if e[1] == "counter":
                return Aff(64, 1, 0, 1 << 32)
            if e[1] == "increment_counter":
                return Aff(64, 0, self.inc, 0)
            if e[1] in self.env:
                return self.env[e[1]]
            raise Unsupported("variable %s" % e[1])
        if k == "cast":
            v = self.ev(e[1])
            ty = e[2].replace("const ", "")
            w = {"int32_t": 32, "uint32_t": 32, "int": 32, "int64_t": 64, "uint64_t": 64, "long long": 64, "long": 64, "unsigned long": 64, "size_t": 64, "bool": 64, "_Bool": 64}.get(ty)
            if w is None or not isinstance(v, Aff):
                raise Unsupported("cast to %s" % ty)
            return Aff(w, v.a, v.b, v.hm if w == 64 else (v.hm % (1 << 32)))
        if k == "un" and e[1] == "-":
            v = self.ev(e[2])
            if not v.is_const():
                raise Unsupported("negation of a non-constant")
            return Aff(v.w, 0, -v.b, 0)
        if k == "un" and e[1] == "~":
            v = self.ev(e[2])
            if not v.is_const():
                raise Unsupported("~ of a non-constant")
            return Aff(v.w, 0, ~v.b, 0)
        if k == "bin" and e[1] == ">>":
            return shift_right(self.ev(e[2]), self.ev(e[3]).b, self.cell)
        if k == "cond":
            c = self.ev(e[1])
            if not c.is_const():
                raise Unsupported("?: on a non-constant")
            return self.ev(e[2] if c.b else e[3])
        if k == "bin" and e[1] == "+":
            a, b = self.ev(e[2]), self.ev(e[3])
            w = max(a.w, b.w)
            return add(Aff(w, a.a, a.b, a.hm), Aff(w, b.a, b.b, b.hm))
        if k == "bin" and e[1] == "&":
            a, b = self.ev(e[2]), self.ev(e[3])
            if not (a.is_const() and b.is_const()):
                raise Unsupported("& of non-constants")
            return Aff(max(a.w, b.w), 0, a.b & b.b, 0)
        raise Unsupported("scalar expression %s" % (e[:2],))

    def lanewise(self, fn, *vs):
        w = vs[0].w
        n = len(vs[0].lanes)
        return Vec([fn(*[v.lanes[i] for v in vs]) for i in range(n)], w)

    def ev(self, e):
        if e[0] != "call":
            return self.scalar(e)
        name, args = e[1], e[2]
        if not isinstance(name, str):
            raise Unsupported("indirect call")
        if name == "counter_low":
            v = self.ev(args[0])
            return Aff(32, v.a, v.b, v.hm % (1 << 32))
        if name == "counter_high":
            return_v = shift_right(self.ev(args[0]), 32, self.cell)
            return Aff(32, return_v.a, return_v.b, return_v.hm)
        if name == "set4":
            lanes = [self.ev(a) for a in args]
            return Vec([Aff(32, l.a, l.b, l.hm) for l in lanes], 32)
        m = re.fullmatch(r"_mm(256|512)?_set1_epi(32|64x?)", name)
        if m:
            bits = int(m.group(1) or 128)
            w = 32 if m.group(2) == "32" else 64
            s = self.ev(args[0])
            lane = Aff(w, s.a, s.b, s.hm if w == 64 else s.hm % (1 << 32))
            return Vec([lane] * (bits // w), w)
        m = re.fullmatch(r"_mm(256|512)?_set(r)?_epi(32|64x?)", name)
        if m:
            w = 32 if m.group(3) == "32" else 64
            lanes = [self.ev(a) for a in args]
            lanes = [Aff(w, l.a, l.b, l.hm) for l in lanes]
            if not m.group(2):
                lanes.reverse()
            return Vec(lanes, w)
        m = re.fullmatch(r"_mm(256|512)?_(and|andnot|or|xor)_si(128|256|512)", name)
        if m:
            x, y = self.ev(args[0]), self.ev(args[1])
            if x.w != y.w or len(x.lanes) != len(y.lanes):
                # a 64-bit-lane mask combined with 64-bit deltas etc. must agree; reinterpretation is not modelled
                raise Unsupported("bitwise op across different lane widths")
            return self.lanewise(lambda a, b: bitop(m.group(2), a, b, self.cell), x, y)
        m = re.fullmatch(r"_mm(256|512)?_(add|sub)_epi(32|64)", name)
        if m:
            x, y = self.ev(args[0]), self.ev(args[1])
            w = int(m.group(3))
            if x.w != w or y.w != w:
                raise Unsupported("%s on lanes of another width" % name)
            return self.lanewise(add if m.group(2) == "add" else sub, x, y)
        m = re.fullmatch(r"_mm(256|512)?_(srli|srai)_epi(32|64)", name)
        if m:
            x = self.ev(args[0])
            n = self.ev(args[1]).b
            if x.w != int(m.group(3)):
                raise Unsupported("%s on lanes of another width" % name)
            return self.lanewise(lambda a: shift_right(a, n, self.cell, m.group(2) == "srai"), x)
        m = re.fullmatch(r"_mm(256|512)?_cmpgt_epi32", name)
        if m:
            x, y = self.ev(args[0]), self.ev(args[1])
            return self.lanewise(lambda a, b: cmpgt_signed(a, b, self.cell), x, y)
        m = re.fullmatch(r"_mm(256|512)?_cvtepi64_epi32", name)
        if m:
            x = self.ev(args[0])
            if x.w != 64:
                raise Unsupported("cvtepi64_epi32 of 32-bit lanes")
            return Vec([Aff(32, l.a, l.b, l.hm % (1 << 32)) for l in x.lanes], 32)
        raise Unsupported("intrinsic %s" % name)

    def run(self):
        for s in self.f["body"]:
            if s[0] == "decl":
                self.env[s[1]] = self.ev(s[3]) if s[3] is not None else None
            elif s[0] == "assign" and s[1] == "=":
                tgt = s[2]
                v = self.ev(s[3])
                if tgt[0] == "un" and tgt[1] == "*" and tgt[2][0] == "var":
                    self.out[tgt[2][1]] = v
                elif tgt[0] == "var":
                    self.env[tgt[1]] = v
                else:
                    raise Unsupported("assignment target")
            elif s[0] == "expr":
                self.ev(s[1])
            else:
                raise Unsupported("statement %s" % s[0])
        return self.out


def decide_load_counters(f, nlanes):
    """returns (ok, detail, ncells)"""
    ncells = 0
    for inc in (0, 1):
        work = [Cell(0, (1 << 32) - 1)]
        while work:
            c = work.pop()
            if ncells > 400:
                return False, "partition refinement did not converge", ncells
            try:
                out = LaneEval(f, inc, c).run()
                pn = [p[0] for p in f.get("params", [])]
                lo_v, hi_v = (out.get(pn[2]), out.get(pn[3])) if len(pn) >= 4 else (out.get("out_lo"), out.get("out_hi"))
                if lo_v is None or hi_v is None or len(lo_v.lanes) != nlanes or len(hi_v.lanes) != nlanes:
                    return False, "out_lo/out_hi not written with %d lanes each" % nlanes, ncells
                for i in range(nlanes):
                    d = i * inc
                    if d and c.L < (1 << 32) - d <= c.R:
                        raise Split((1 << 32) - d)
                    carry = 1 if c.L + d >= (1 << 32) else 0
                    want_lo = Aff(32, 1, d, 0)
                    want_hi = Aff(32, 0, carry, 1)
                    gl, gh = lo_v.lanes[i], hi_v.lanes[i]
                    if not isinstance(gl, Aff) or gl.key() != want_lo.key():
                        return False, "lane %d low word is %r for counter low word in [%#x, %#x], increment=%d ; spec %r" % (i, gl, c.L, c.R, inc, want_lo), ncells
                    if not isinstance(gh, Aff) or gh.key() != want_hi.key():
                        return False, "lane %d high word is %r for counter low word in [%#x, %#x], increment=%d ; spec %r" % (i, gh, c.L, c.R, inc, want_hi), ncells
                ncells += 1
            except Split as s:
                p = s.p
                if not (c.L < p <= c.R):
                    return False, "internal: split point %#x outside cell [%#x, %#x]" % (p, c.L, c.R), ncells
                work.append(Cell(c.L, p - 1))
                work.append(Cell(p, c.R))
            except Unsupported as u:
                return False, "not decidable by the piecewise-affine lane domain: %s" % u, ncells
    return True, "lanes equal (lo + i*inc, H + carry) on all %d cells of the low word (both increment modes)" % ncells, ncells
