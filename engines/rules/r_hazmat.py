"""H rules: hazmat helper totality (H1) and merge structure (H2)."""
from mirlib import *
from absint import Evaluator, AV

U64 = (1 << 64) - 1
H1_DOMAINS = [
    # (function, {param: domain}, text) -- domains are the property's: n in (1024, 2^64-1], chunk-aligned o
    ("hazmat::left_subtree_len", {"input_len": AV(1025, U64)}, "input_len in (1024, 2^64-1]"),
    ("hazmat::max_subtree_len", {"input_offset": AV(0, U64 - 1023, 1024, 0)}, "input_offset chunk-aligned in [0, 2^64-1024]"),
    ("largest_power_of_two_leq", {"n": AV(0, U64)}, "any usize"),
]


def rule_H1(ctx, F):
    nsites = 0
    for path, dom, text in H1_DOMAINS:
        fn = F.need_fn(path)
        for name in dom:
            if name not in fn.names.values():
                raise MissingAnchor("parameter %s of %s" % (name, path))
        ev = Evaluator(F, fn, dom)
        sites = ev.check_sites()
        cnt = {}
        for s in sites:
            # the explicit debug_assert / assert panics are part of the documented contract only when
            # they are reachable inside the declared domain
            nsites += 1
            cnt[s.kind] = cnt.get(s.kind, 0) + 1
            inst = "%s:%s#%d" % (path, s.kind, cnt[s.kind])
            ctx.ob(s.ok, "total:%s" % inst, s.where, "%s ; domain: %s" % (s.detail, text))
    ctx.floor("panic-capable sites in the hazmat length helpers", nsites, 6)


def _ret(fn):
    return val(fn.expr_local(0))


def rule_H2(ctx, F):
    """merge_subtrees_* all go through merge_subtrees_inner -> parent_node_output with (left,right,
    mode key, mode flags) in order, and finish with chaining_value / root_hash / OutputReader::new"""
    inner = F.need_fn("hazmat::merge_subtrees_inner")
    L, R, M = P.arg("left_child"), P.arg("right_child"), P.arg("mode")
    want_inner = P.call("parent_node_output", L, R, P.call("hazmat::Mode::<'a>::key_words", M),
                        P.call("hazmat::Mode::<'a>::flags_byte", M), W("platform"))
    got = _ret(inner)
    ctx.ob(unify(want_inner, got) is not None, "merge-inner-shape", inner.loc,
           "merge_subtrees_inner returns %s ; required parent_node_output(left_child, right_child, mode.key_words(), mode.flags_byte(), _)" % show(got))
    finishers = {
        "hazmat::merge_subtrees_non_root": "Output::chaining_value",
        "hazmat::merge_subtrees_root": "Output::root_hash",
        "hazmat::merge_subtrees_root_xof": "OutputReader::new",
    }
    for name, fin in finishers.items():
        f = F.need_fn(name)
        got = _ret(f)
        want = P.call(fin, P.call("hazmat::merge_subtrees_inner", L, R, M))
        ctx.ob(unify(want, got) is not None, "merge-finisher:%s" % name.split("::")[-1], f.loc,
               "%s returns %s ; required %s(merge_subtrees_inner(left_child, right_child, mode))" % (name, show(got), fin))


MODE_TABLE = {
    # variant -> (key source, flag constant name or literal 0)
    "Hash": (("const", "IV", W()), ("const", None, 0)),
    "KeyedHash": (P.call("platform::words_from_le_bytes_32", ("path", ("arg", 1, "self"), (("as", "KeyedHash"), "0"))), ("const", "KEYED_HASH", 16)),
    "DeriveKeyMaterial": (P.call("platform::words_from_le_bytes_32", ("path", ("arg", 1, "self"), (("as", "DeriveKeyMaterial"), "0"))), ("const", "DERIVE_KEY_MATERIAL", 64)),
}


def rule_mode_pairing(ctx, F):
    """F6 (hazmat half): Mode::key_words and Mode::flags_byte pair key and flag per variant as the
    spec's mode table does (sibling agreement between the two matches, variant by variant)"""
    adt = F.adts.get("hazmat::Mode")
    if adt is None:
        raise MissingAnchor("type hazmat::Mode")
    variants = [v["name"] for v in adt["variants"]]
    ctx.ob(sorted(variants) == sorted(MODE_TABLE), "mode-variants", adt["s"],
           "hazmat::Mode variants %s ; spec modes %s" % (variants, sorted(MODE_TABLE)))
    for which, idx in (("key_words", 0), ("flags_byte", 1)):
        fn = F.need_fn("hazmat::Mode::<'a>::%s" % which)
        arms = {}
        for b, gs, e in ret_alternatives(fn):
            vi = None
            for c, tr in gs:
                if isinstance(c, tuple) and c and c[0] == "switchval":
                    vi = tr
            if vi is not None and vi < len(variants):
                arms[variants[vi]] = (e, fn.blocks[b]["term"].get("s"))
        for v in variants:
            if v not in MODE_TABLE:
                continue
            if v not in arms:
                ctx.ob(False, "mode-arm:%s:%s" % (which, v), fn.loc, "no arm found for variant %s" % v)
                continue
            e, where = arms[v]
            want = MODE_TABLE[v][idx]
            ctx.ob(unify(want, e) is not None, "mode-arm:%s:%s" % (which, v), fn.loc,
                   "Mode::%s => %s" % (v, show(e)))


def rule_S5(ctx, F):
    """offset discipline"""
    sio = F.need_fn("<Hasher as hazmat::HasherExt>::set_input_offset")
    # (a) writers of initial_chunk_counter
    F.write_summaries()
    direct = F._wdirect
    writers = sorted(p for p, w in direct.items() if any(el and el[0] == "initial_chunk_counter" for a, el in w)
                     and any(F.fns[p].locals[a]["ty"] == "&mut Hasher" for a, el in w if el and el[0] == "initial_chunk_counter"))
    allowed = {"<Hasher as hazmat::HasherExt>::set_input_offset", "Hasher::reset"}
    extra = [w for w in writers if w not in allowed]
    ctx.ob(not extra and "<Hasher as hazmat::HasherExt>::set_input_offset" in writers, "offset-writers", sio.loc,
           "initial_chunk_counter is assigned in %s ; allowed: set_input_offset, reset" % writers)
    # (b) both counters receive offset / CHUNK_LEN under the two asserts
    want_val = P.bin("Div", P.arg("offset"), P.cast(P.named("CHUNK_LEN"), "u64"))
    g_count = P.bin("Eq", P.call("Hasher::count", ("arg", 1, "self")), ("const", W(), 0))
    g_align = P.bin("Eq", P.bin("Rem", P.arg("offset"), P.cast(P.named("CHUNK_LEN"), "u64")), ("const", W(), 0))
    seen = {}
    for bi, si, s in sio.stmts():
        if not s["place"]["p"] or s["place"]["p"][0] != "deref":
            continue
        tgt = val(sio.expr_place(s["place"]))
        root, el = path_fields(tgt)
        name = ".".join(x for x in el if isinstance(x, str))
        v = val(sio.expr_rvalue(s["rv"]))
        gs = guards_at(sio, bi)
        has_count = any(tr and unify(g_count, c) is not None for c, tr in gs)
        has_align = any(tr and unify(g_align, c) is not None for c, tr in gs)
        seen[name] = (unify(want_val, v) is not None, has_count, has_align, s.get("s"), show(v))
    for name in ("chunk_state.chunk_counter", "initial_chunk_counter"):
        if name not in seen:
            ctx.ob(False, "offset-assign:%s" % name, sio.loc, "set_input_offset does not assign self.%s" % name)
            continue
        okv, c1, c2, where, sv = seen[name]
        ctx.ob(okv, "offset-assign:%s" % name, where, "self.%s = %s ; required offset / CHUNK_LEN" % (name, sv))
        ctx.ob(c1, "offset-guard-empty:%s" % name, where, "assignment dominated by assert count()==0: %s" % c1)
        ctx.ob(c2, "offset-guard-aligned:%s" % name, where, "assignment dominated by assert offset %% CHUNK_LEN == 0: %s" % c2)
    other = [n for n in seen if n not in ("chunk_state.chunk_counter", "initial_chunk_counter")]
    ctx.ob(not other, "offset-no-other-writes", sio.loc, "set_input_offset writes only the two counters (also writes: %s)" % other)
    # (c) root finalizers refuse a non-zero offset
    g_zero = P.bin("Eq", P.self_("initial_chunk_counter"), ("const", W(), 0))
    for name in ("Hasher::finalize", "Hasher::finalize_xof"):
        f = F.need_fn(name)
        n = 0
        for bi, t in f.calls():
            if callee_name(t["callee"]) == "Hasher::final_output":
                n += 1
                gs = guards_at(f, bi)
                ok = any(tr and unify(g_zero, c) is not None for c, tr in gs)
                ctx.ob(ok, "root-finalize-refuses-offset:%s" % name.split("::")[-1], t.get("s"),
                       "final_output() call dominated by initial_chunk_counter == 0: %s" % ok)
        ctx.ob(n == 1, "root-finalize-calls-final_output:%s" % name.split("::")[-1], f.loc, "%d call(s) to final_output" % n)
    # (d) count() and merge_cv_stack subtract the same offset from the same counter
    cnt = F.need_fn("Hasher::count")
    e = _ret(cnt)
    want = P.bin("Add", P.bin("Mul", P.bin("Sub", P.self_("chunk_state", "chunk_counter"), P.self_("initial_chunk_counter")),
                               P.cast(P.named("CHUNK_LEN"), "u64")),
                 P.cast(P.call("ChunkState::count", P.self_("chunk_state")), "u64"))
    ctx.ob(unify(want, e) is not None, "count-formula", cnt.loc,
           "count() = %s ; required (chunk_counter - initial_chunk_counter) * CHUNK_LEN + chunk_state.count()" % show(e))
    m = F.need_fn("Hasher::merge_cv_stack")
    found = False
    for bi, t in m.calls():
        e = val(m.expr_call(t))
        if unify(P.call(W(pred=lambda x: isinstance(x, str) and x.endswith("count_ones")),
                        P.bin("Sub", P.arg("chunk_counter"), P.self_("initial_chunk_counter"))), e) is not None:
            found = True
    ctx.ob(found, "merge-stack-len-formula", m.loc,
           "merge_cv_stack computes count_ones(chunk_counter - self.initial_chunk_counter): %s" % found)
    cs = F.need_fn("ChunkState::count")
    e = _ret(cs)
    want = P.bin("Add", P.bin("Mul", P.named("BLOCK_LEN"), P.cast(P.self_("blocks_compressed"), "usize")),
                 P.cast(P.self_("buf_len"), "usize"))
    ctx.ob(unify(want, e) is not None, "chunk-count-formula", cs.loc,
           "ChunkState::count() = %s ; required BLOCK_LEN * blocks_compressed + buf_len" % show(e))
