"""H rules: hazmat helper totality (H1) and merge structure (H2)."""
from mirlib import *
from absint import Evaluator, AV, ty_range, is_intlike


def subterms(e):
    if isinstance(e, tuple):
        yield e
        for x in e:
            if isinstance(x, tuple):
                yield from subterms(x)

U64 = (1 << 64) - 1
H1_DOMAINS = [
    # (function, {param: domain}, text) -- domains are the property's: n in (1024, 2^64-1], chunk-aligned o
    ("hazmat::left_subtree_len", {"input_len": AV(1025, U64)}, "input_len in (1024, 2^64-1]"),
    ("hazmat::max_subtree_len", {"input_offset": AV(0, U64 - 1023, 1024, 0)}, "input_offset chunk-aligned in [0, 2^64-1024]"),
    ("largest_power_of_two_leq", {"n": AV(0, U64)}, "any usize"),
]


def rule_H1(ctx, F):
    nsites = 0
    for path, dom, text in H1_DOMAINS:
        fn = F.need_fn(path)
        if text == "any usize":
            from absint import INT_BITS
            dom = {k: AV(0, (1 << INT_BITS["usize"]) - 1) for k in dom}      # the configuration's pointer width
        for name in dom:
            if name not in fn.names.values():
                raise MissingAnchor("parameter %s of %s" % (name, path))
        ev = Evaluator(F, fn, dom)
        sites = ev.check_sites()
        cnt = {}
        for s in sites:
            # the explicit debug_assert / assert panics are part of the documented contract only when
            # they are reachable inside the declared domain
            nsites += 1
            cnt[s.kind] = cnt.get(s.kind, 0) + 1
            inst = "%s:%s#%d" % (path, s.kind, cnt[s.kind])
            ctx.ob(s.ok, "total:%s" % inst, s.where, "%s ; domain: %s" % (s.detail, text))
    ctx.floor("panic-capable sites in the hazmat length helpers", nsites, 6)


def _ret(fn):
    return val(fn.expr_local(0))


def rule_H2(ctx, F):
    """merge_subtrees_* all go through merge_subtrees_inner -> parent_node_output with (left,right,
    mode key, mode flags) in order, and finish with chaining_value / root_hash / OutputReader::new"""
    inner = F.need_fn("hazmat::merge_subtrees_inner")
    L, R, M = P.arg("left_child"), P.arg("right_child"), P.arg("mode")
    want_inner = P.call("parent_node_output", L, R, P.call("hazmat::Mode::<'a>::key_words", M),
                        P.call("hazmat::Mode::<'a>::flags_byte", M), W("platform"))
    got = _ret(inner)
    ctx.ob(unify(want_inner, got) is not None, "merge-inner-shape", inner.loc,
           "merge_subtrees_inner returns %s ; required parent_node_output(left_child, right_child, mode.key_words(), mode.flags_byte(), _)" % show(got))
    finishers = {
        "hazmat::merge_subtrees_non_root": "Output::chaining_value",
        "hazmat::merge_subtrees_root": "Output::root_hash",
        "hazmat::merge_subtrees_root_xof": "OutputReader::new",
    }
    for name, fin in finishers.items():
        f = F.need_fn(name)
        got = _ret(f)
        want = P.call(fin, P.call("hazmat::merge_subtrees_inner", L, R, M))
        ctx.ob(unify(want, got) is not None, "merge-finisher:%s" % name.split("::")[-1], f.loc,
               "%s returns %s ; required %s(merge_subtrees_inner(left_child, right_child, mode))" % (name, show(got), fin))


MODE_TABLE = {
    # variant -> (key source, flag constant name or literal 0)
    "Hash": (("const", "IV", W()), ("const", None, 0)),
    "KeyedHash": (P.call("platform::words_from_le_bytes_32", ("path", ("arg", 1, "self"), (("as", "KeyedHash"), "0"))), ("const", "KEYED_HASH", 16)),
    "DeriveKeyMaterial": (P.call("platform::words_from_le_bytes_32", ("path", ("arg", 1, "self"), (("as", "DeriveKeyMaterial"), "0"))), ("const", "DERIVE_KEY_MATERIAL", 64)),
}


def rule_mode_pairing(ctx, F):
    """F6 (hazmat half): Mode::key_words and Mode::flags_byte pair key and flag per variant as the
    spec's mode table does (sibling agreement between the two matches, variant by variant)"""
    adt = F.adts.get("hazmat::Mode")
    if adt is None:
        raise MissingAnchor("type hazmat::Mode")
    variants = [v["name"] for v in adt["variants"]]
    ctx.ob(sorted(variants) == sorted(MODE_TABLE), "mode-variants", adt["s"],
           "hazmat::Mode variants %s ; spec modes %s" % (variants, sorted(MODE_TABLE)))
    for which, idx in (("key_words", 0), ("flags_byte", 1)):
        fn = F.need_fn("hazmat::Mode::<'a>::%s" % which)
        arms = {}
        def specialise(e, vname):
            """in an or-pattern arm the bound payload is a phi over the variants' payloads: keep the one of variant vname"""
            if not isinstance(e, tuple):
                return e
            if e and e[0] == "phi" and len(e) > 3 and isinstance(e[3], tuple):
                alts = [a for a in e[3] if ("as", vname) in _flat(a)]
                if len(alts) == 1:
                    return specialise(alts[0], vname)
            return tuple(specialise(x, vname) for x in e)

        def _flat(x):
            out = []
            if isinstance(x, tuple):
                out.append(x)
                for y in x:
                    out.extend(_flat(y))
            return out
        for b, gs, e in ret_alternatives(fn):
            vis = []
            for c, tr in gs:
                if isinstance(c, tuple) and c and c[0] == "switchval":
                    vis = [tr]
                elif isinstance(c, tuple) and c and c[0] == "switchin":
                    vis = list(tr)
            for vi in vis:
                if vi < len(variants):
                    arms[variants[vi]] = (specialise(e, variants[vi]) if len(vis) > 1 else e, fn.blocks[b]["term"].get("s"))
            if not vis:
                # an or-pattern arm (`A(k) | B(k) => f(k)`): the arm body is shared, the bound payload is a phi with one definition
                # per variant -- split the alternative by the variant that guards each definition of the payload
                phis = [x for x in _flat(e) if isinstance(x, tuple) and x and x[0] == "phi" and isinstance(x[1], int)]
                if len(set(phis)) == 1:
                    ph = phis[0]
                    for b2, gs2, dv in local_defs_with_guards(fn, ph[1]):
                        for c, tr in gs2:
                            if isinstance(c, tuple) and c and c[0] == "switchval" and isinstance(tr, int) and tr < len(variants):
                                sub = lambda x, ph=ph, dv=dv: dv if x == ph else (tuple(sub(y) for y in x) if isinstance(x, tuple) else x)
                                arms[variants[tr]] = (sub(e), fn.blocks[b]["term"].get("s"))
        for v in variants:
            if v not in MODE_TABLE:
                continue
            if v not in arms:
                ctx.ob(False, "mode-arm:%s:%s" % (which, v), fn.loc, "no arm found for variant %s" % v)
                continue
            e, where = arms[v]
            want = MODE_TABLE[v][idx]
            ctx.ob(unify(want, e) is not None, "mode-arm:%s:%s" % (which, v), fn.loc,
                   "Mode::%s => %s" % (v, show(e)))


def rule_S5(ctx, F):
    """offset discipline"""
    sio = F.need_fn("<Hasher as hazmat::HasherExt>::set_input_offset")
    # (a) writers of initial_chunk_counter
    F.write_summaries()
    direct = F._wdirect
    writers = sorted(p for p, w in direct.items() if any(el and el[0] == "initial_chunk_counter" for a, el in w)
                     and any(F.fns[p].locals[a]["ty"] == "&mut Hasher" for a, el in w if el and el[0] == "initial_chunk_counter"))
    allowed = {"<Hasher as hazmat::HasherExt>::set_input_offset", "Hasher::reset"}
    # a hand-written Clone::clone_from replaces the whole object (its field coverage is rule_clone's obligation)
    extra = [w for w in writers if w not in allowed and "core::clone::Clone>::clone" not in norm_path(w)]
    ctx.ob(not extra and "<Hasher as hazmat::HasherExt>::set_input_offset" in writers, "offset-writers", sio.loc,
           "initial_chunk_counter is assigned in %s ; allowed: set_input_offset, reset" % writers)
    # (b) both counters receive offset / CHUNK_LEN under the two asserts
    want_val = P.bin("Div", P.arg("offset"), P.cast(P.named("CHUNK_LEN"), "u64"))
    g_count = P.bin("Eq", P.call("Hasher::count", ("arg", 1, "self")), ("const", W(), 0))
    g_align = P.bin("Eq", P.bin("Rem", P.arg("offset"), P.cast(P.named("CHUNK_LEN"), "u64")), ("const", W(), 0))
    seen = {}
    for bi, si, s in sio.stmts():
        if not s["place"]["p"] or s["place"]["p"][0] != "deref":
            continue
        tgt = val(sio.expr_place(s["place"]))
        root, el = path_fields(tgt)
        name = ".".join(x for x in el if isinstance(x, str))
        v = val(sio.expr_rvalue(s["rv"]))
        gs = guards_at(sio, bi)
        has_count = any(tr and unify(g_count, c) is not None for c, tr in gs)
        has_align = any(tr and unify(g_align, c) is not None for c, tr in gs)
        seen[name] = (unify(want_val, v) is not None, has_count, has_align, s.get("s"), show(v))
    for name in ("chunk_state.chunk_counter", "initial_chunk_counter"):
        if name not in seen:
            ctx.ob(False, "offset-assign:%s" % name, sio.loc, "set_input_offset does not assign self.%s" % name)
            continue
        okv, c1, c2, where, sv = seen[name]
        ctx.ob(okv, "offset-assign:%s" % name, where, "self.%s = %s ; required offset / CHUNK_LEN" % (name, sv))
        ctx.ob(c1, "offset-guard-empty:%s" % name, where, "assignment dominated by assert count()==0: %s" % c1)
        ctx.ob(c2, "offset-guard-aligned:%s" % name, where, "assignment dominated by assert offset %% CHUNK_LEN == 0: %s" % c2)
    other = [n for n in seen if n not in ("chunk_state.chunk_counter", "initial_chunk_counter")]
    ctx.ob(not other, "offset-no-other-writes", sio.loc, "set_input_offset writes only the two counters (also writes: %s)" % other)
    # (c) root finalizers refuse a non-zero offset
    g_zero = P.bin("Eq", P.self_("initial_chunk_counter"), ("const", W(), 0))
    for name in ("Hasher::finalize", "Hasher::finalize_xof"):
        f = F.need_fn(name)
        n = 0
        for bi, t in f.calls():
            if callee_name(t["callee"]) == "Hasher::final_output":
                n += 1
                gs = guards_at(f, bi)
                ok = any(tr and unify(g_zero, c) is not None for c, tr in gs)
                ctx.ob(ok, "root-finalize-refuses-offset:%s" % name.split("::")[-1], t.get("s"),
                       "final_output() call dominated by initial_chunk_counter == 0: %s" % ok)
        ctx.ob(n == 1, "root-finalize-calls-final_output:%s" % name.split("::")[-1], f.loc, "%d call(s) to final_output" % n)
    # (d) count() and merge_cv_stack subtract the same offset from the same counter
    cnt = F.need_fn("Hasher::count")
    e = _ret(cnt)
    want = P.bin("Add", P.bin("Mul", P.bin("Sub", P.self_("chunk_state", "chunk_counter"), P.self_("initial_chunk_counter")),
                               P.cast(P.named("CHUNK_LEN"), "u64")),
                 P.cast(P.call("ChunkState::count", P.self_("chunk_state")), "u64"))
    ctx.ob(unify(want, e) is not None, "count-formula", cnt.loc,
           "count() = %s ; required (chunk_counter - initial_chunk_counter) * CHUNK_LEN + chunk_state.count()" % show(e))
    m = F.need_fn("Hasher::merge_cv_stack")
    found = False
    for bi, t in m.calls():
        e = val(m.expr_call(t))
        if unify(P.call(W(pred=lambda x: isinstance(x, str) and x.endswith("count_ones")),
                        P.bin("Sub", P.arg("chunk_counter"), P.self_("initial_chunk_counter"))), e) is not None:
            found = True
    ctx.ob(found, "merge-stack-len-formula", m.loc,
           "merge_cv_stack computes count_ones(chunk_counter - self.initial_chunk_counter): %s" % found)
    cs = F.need_fn("ChunkState::count")
    e = _ret(cs)
    want = P.bin("Add", P.bin("Mul", P.named("BLOCK_LEN"), P.cast(P.self_("blocks_compressed"), "usize")),
                 P.cast(P.self_("buf_len"), "usize"))
    ctx.ob(unify(want, e) is not None, "chunk-count-formula", cs.loc,
           "ChunkState::count() = %s ; required BLOCK_LEN * blocks_compressed + buf_len" % show(e))


# ------------------------------------------------------------------ H4: subtree-capacity guard ----
def field_range(F, adt, field):
    """join of the ranges of every value written to adt.field anywhere in the crate (field invariant by
    enumeration of its writers: aggregate constructions and assignments through any place)"""
    acc = None
    writers = []
    for p, f in F.fns.items():
        if not f.has_body:
            continue
        for bi, b in enumerate(f.blocks):
            for s in b["stmts"]:
                if s.get("k") != "assign":
                    continue
                op = None
                pl = s["place"]["p"]
                if pl and isinstance(pl[-1], dict) and pl[-1].get("f") == field and pl[-1].get("of") == adt:
                    if s["rv"]["k"] != "use":
                        return None, [(p, "non-trivial rvalue")]
                    op = s["rv"]["op"]
                elif s["rv"].get("k") == "agg" and s["rv"].get("adt") == adt and field in s["rv"].get("fields", []):
                    op = s["rv"]["ops"][s["rv"]["fields"].index(field)]
                elif any(isinstance(x, dict) and x.get("f") == field and x.get("of") == adt for x in pl):
                    return None, [(p, "write below the field")]
                if op is None:
                    continue
                ve = val(f.expr_operand(op))
                while ve[0] == "call" and len(ve[2]) == 1 and (ve[1].endswith("Clone::clone") or ve[1].endswith("::clone")):
                    ve = ve[2][0]
                if ve[0] == "path" and ve[2] and ve[2][-1] == field:
                    writers.append((p, s.get("s"), "copy of the same field"))   # inductive: another instance's value
                    continue
                ev = Evaluator(F, f, {})
                v = ev.eval(f.expr_operand(op), ev.env_at(bi))
                rng = AV(0, U64)
                v = v.meet(rng) if not v.empty else v
                writers.append((p, s.get("s"), str(v)))
                acc = v if acc is None else acc.join(v)
        # &mut borrows of the field would escape this enumeration
        for bi, b in enumerate(f.blocks):
            for s in b["stmts"]:
                if s.get("k") == "assign" and s["rv"].get("k") == "ref" and s["rv"].get("mut"):
                    pl = s["rv"]["place"]["p"]
                    if pl and isinstance(pl[-1], dict) and pl[-1].get("f") == field and pl[-1].get("of") == adt:
                        writers.append((p, s.get("s"), "&mut"))
    return acc, writers


def offset_only(e):
    """every leaf is the initial_chunk_counter field, a constant, or max_subtree_len of such"""
    if not isinstance(e, tuple):
        return True
    if e[0] == "const":
        return True
    if e[0] == "path":
        return e[1] == ("arg", 1, "self") and e[2] == ("initial_chunk_counter",) or (e[1][0] == "call" and offset_only(e[1]))
    if e[0] == "call":
        return e[1] == "hazmat::max_subtree_len" and all(offset_only(a) for a in e[2])
    if e[0] in ("bin", "cast", "un"):
        return all(offset_only(x) for x in e[1:] if isinstance(x, tuple))
    return False


def linform(e):
    """(a, b, c) with value = a*offset + b*max + c as exact integers, or None (offset = counter * CHUNK_LEN)"""
    if e[0] == "const":
        return (0, 0, e[2]) if isinstance(e[2], int) else None
    if e[0] == "cast":
        return linform(e[1])
    if e[0] == "path":
        if e[1][0] == "call":
            return (0, 1, 0)
        return None                      # the bare counter: only its product with CHUNK_LEN is linear in the offset
    if e[0] == "call":
        return (0, 1, 0)
    if e[0] == "bin":
        op = e[1].replace("WithOverflow", "")
        if op == "Mul":
            for x, y in ((e[2], e[3]), (e[3], e[2])):
                if x[0] == "path" and x[2] == ("initial_chunk_counter",):
                    cy = linform(y)
                    if cy and cy[0] == 0 and cy[1] == 0 and cy[2] == 1024:
                        return (1, 0, 0)
            l, r = linform(e[2]), linform(e[3])
            if l and r:
                for p, q in ((l, r), (r, l)):
                    if p[0] == 0 and p[1] == 0:
                        return (q[0] * p[2], q[1] * p[2], q[2] * p[2])
            return None
        l, r = linform(e[2]), linform(e[3])
        if l is None or r is None:
            return None
        if op == "Add":
            return (l[0] + r[0], l[1] + r[1], l[2] + r[2])
        if op == "Sub":
            return (l[0] - r[0], l[1] - r[1], l[2] - r[2])
    return None


def rule_H4(ctx, F):
    """update_with_join's subtree-capacity assertion must be decidable without upward overflow on the
    whole domain of chunk-aligned offsets: evaluated on the finite partition of offsets by their lowest
    set bit (where max_subtree_len is exact), every Add/Mul/Shl inside the assertion's condition stays
    within its type.  (A Sub there underflows exactly when the capacity is already exceeded -- the state
    the assertion exists to reject -- and is not an obligation.)"""
    fn = F.need_fn("Hasher::update_with_join")
    inv, writers = field_range(F, "Hasher", "initial_chunk_counter")
    mut_escape = [w for w in writers if w[2] == "&mut" and "zeroize" not in w[0].lower()]
    ok = inv is not None and not inv.empty and inv.lo >= 0 and inv.hi <= (1 << 54) - 1 and not mut_escape
    ctx.ob(ok, "field-invariant:Hasher.initial_chunk_counter", fn.loc,
           "writers %s => range %s ; required within [0, 2^54-1] (so that counter * CHUNK_LEN fits u64)" % ([(w[0].split("::")[-1], w[2]) for w in writers], inv))
    if not ok:
        return
    # the capacity assertion: the panic site dominated by the Some edge of max_subtree_len's result
    ms = [(bi, t) for bi, t in fn.calls() if callee_name(t["callee"]) == "hazmat::max_subtree_len"]
    ctx.ob(len(ms) == 1, "capacity-guard-present", fn.loc, "%d call(s) to max_subtree_len" % len(ms))
    if len(ms) != 1:
        return
    MS = val(fn.expr_call(ms[0][1]))
    conds = []
    for bi, b in enumerate(fn.blocks):
        t = b["term"]
        if t["k"] == "switch" and t["opty"] == "bool":
            c = val(fn.expr_operand(t["op"]))
            if find_sub(c, MS) is not None:
                conds.append((bi, fn.expr_operand(t["op"]), c, t.get("s")))
    ctx.ob(len(conds) >= 1, "capacity-assertion-found", fn.loc, "%d branch(es) on a condition involving max_subtree_len's result" % len(conds))
    nops = 0
    fails = []
    for k in range(10, 64):
        lo = 1 << (k - 10)
        dom = {"self.initial_chunk_counter": AV(lo, (1 << 54) - lo, 1 << (k - 9), lo)}
        # the callee's result on this cell (exact: 2^k), from the callee's own body
        callee = F.need_fn("hazmat::max_subtree_len")
        cev = Evaluator(F, callee, {"input_offset": AV(1 << k, (1 << 64) - (1 << k), 1 << (k + 1), 1 << k)})
        payload = None
        for cb, cgs, ce in ret_alternatives(callee):
            cenv = cev.env_at(cb)
            if cev.feasible(cenv) and ce[0] == "adt" and ce[4]:
                v = cev.eval(ce[4][0], cenv)
                payload = v if payload is None else payload.join(v)
        if payload is None:
            fails.append("max_subtree_len has no Some(..) result for offsets with lowest set bit 2^%d" % k)
            continue
        ev = Evaluator(F, fn, dom, ret_ranges={"hazmat::max_subtree_len": payload})
        for bi, raw, c, loc in conds:
            env = ev.env_at(bi)
            for node in subterms(raw):
                op = node[1].replace("WithOverflow", "") if node[0] == "bin" else None
                if op in ("Add", "Sub", "Mul") and len(node) > 4 and isinstance(node[4], str) and is_intlike(node[4]):
                    vn = val(node)
                    if not offset_only(vn):
                        continue      # operands outside the exactly-known cell values (count(), input.len()): not decidable here, no obligation
                    lf = linform(vn)
                    if lf is None:
                        continue
                    nops += 1
                    a, bm, c = lf
                    olo, ohi = 1 << k, (1 << 64) - (1 << k)
                    vals = [a * o + bm * (1 << k) + c for o in (olo, ohi)]
                    rng = ty_range(node[4])
                    if min(vals) < rng[0] or max(vals) > rng[1]:
                        o_bad = olo if not (rng[0] <= vals[0] <= rng[1]) else ohi
                        fails.append("%s = %d for input offset %#x (max_subtree_len = 2^%d), outside %s" % (show(vn)[:110], a * o_bad + bm * (1 << k) + c, o_bad, k, node[4]))
    ctx.ob(not fails, "capacity-check-no-upward-overflow", conds[0][3] if conds else fn.loc,
           "; ".join(fails[:2]) or "%d operation instance(s) over the offset and max_subtree_len inside the capacity condition, all exactly within range on the 54 offset cells" % nops)
    # the argument of max_subtree_len is the offset itself and its product does not overflow
    arg = MS[2][0]
    want = P.bin("Mul", ("path", ("arg", 1, "self"), ("initial_chunk_counter",)), W())
    ev = Evaluator(F, fn, {"self.initial_chunk_counter": inv})
    a = ev.eval(fn.expr_call(ms[0][1])[2][0] if False else arg, ev.env_at(ms[0][0]))
    ctx.ob(not a.empty and a.lo >= 0 and a.hi <= U64 - 1023, "capacity-offset-in-range", fn.loc, "max_subtree_len(%s) argument range %s" % (show(arg)[:80], a))


def rule_H5(ctx, F):
    """A chunk's counter is ABSOLUTE (offset included): a subtree hasher positioned by set_input_offset must compress
    chunk i of its input with counter initial_chunk_counter + i.  count() is offset-relative, so every ChunkState built
    while updating takes its counter from the absolute one it replaces (chunk_counter + 1) or adds initial_chunk_counter
    back.  Necessary for 'a subtree's CV depends only on its bytes, its offset and the mode key' under any update split."""
    fn = F.need_fn("Hasher::update_with_join")
    news = [(bi, val(fn.expr_call(t)), t) for bi, t in fn.calls() if callee_name(t["callee"]) == "ChunkState::new"]
    ctx.ob(len(news) >= 1, "update-next-chunk-site", fn.loc, "%d ChunkState::new call(s) in update_with_join" % len(news))
    for bi, e, t in news:
        c = e[2][1]
        # absolute = built from the absolute counter being replaced, or adds the offset back
        has_abs = find_sub(c, P.self_("chunk_state", "chunk_counter")) is not None
        has_init = find_sub(c, P.self_("initial_chunk_counter")) is not None
        ok = has_abs or has_init
        ctx.ob(ok, "update-next-chunk-counter-absolute", t.get("s"),
               "chunk counter = %s ; required: derived from chunk_state.chunk_counter or adding initial_chunk_counter: "
               "count() is relative to the input offset" % show(c)[:160])


def rule_AL(ctx, F):
    """Subtree alignment while updating: a subtree of subtree_len bytes may be compressed at count_so_far only when
    count_so_far is a multiple of subtree_len ((subtree_len - 1) & count_so_far == 0) -- otherwise its CV is not a node of
    the BLAKE3 tree.  Path rule: the failing edge of that alignment test dominates every subtree compression site of
    update_with_join (so no path reaches a compression with the test skipped)."""
    fn = F.need_fn("Hasher::update_with_join")
    sites = [(bi, t) for bi, t in fn.calls() if callee_name(t["callee"]) == "compress_subtree_to_parent_node"]
    ctx.ob(len(sites) >= 1, "update-subtree-site", fn.loc, "%d compress_subtree_to_parent_node call(s)" % len(sites))
    for bi, t in sites:
        gs = guards_at(fn, bi)
        ok = False
        for c, tr in gs:
            ands = [s for s in subterms(c) if s and s[0] == "bin" and s[1] == "BitAnd"]
            if not ands:
                continue
            txt = show(c)
            is_ne = unify(P.bin("Ne", W(), ("const", W(), 0)), c) is not None
            is_eq = unify(P.bin("Eq", W(), ("const", W(), 0)), c) is not None
            if "count" in txt and ((is_ne and not tr) or (is_eq and tr)):
                ok = True
        ctx.ob(ok, "update-subtree-alignment-dominates", t.get("s"),
               "guards at the subtree compression: %s ; required: (subtree_len - 1) & count_so_far == 0 on every path" % "; ".join("%s=%s" % (show(c)[:70], tr) for c, tr in gs)[:400])
