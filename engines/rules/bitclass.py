"""Abstract interpretation of small C bit-manipulation helpers over the partition of the nonzero 64-bit values by the position
of their highest set bit (64 classes; class q = [2^q, 2^(q+1)-1]).  Values are intervals of unsigned integers; every branch
condition must be decided by the interval (zero / nonzero), otherwise the evaluation fails closed.  Nothing is executed: the
function body is the clang AST mini-IR of engines/cfront/cast.py."""

M64 = (1 << 64) - 1


class Undecided(Exception):
    pass


class Ret(Exception):
    def __init__(self, v):
        self.v = v


def topbit(iv):
    lo, hi = iv
    if lo <= 0:
        return None
    q = lo.bit_length() - 1
    return q if hi < (1 << (q + 1)) else None


def exact(iv):
    return iv[0] if iv[0] == iv[1] else None


TYBITS = {"unsigned int": 32, "int": 32, "uint32_t": 32, "uint64_t": 64, "unsigned long long": 64, "size_t": None, "unsigned long": None, "uint8_t": 8}


class BitEval:
    def __init__(self, ulong_bits, size_bits=64):
        self.ulong = ulong_bits
        self.size = size_bits

    def bits(self, ty):
        ty = ty.replace("const ", "").strip()
        if ty == "unsigned long":
            return self.ulong
        if ty == "size_t":
            return self.size
        b = TYBITS.get(ty)
        if b is None:
            raise Undecided("cast to %s" % ty)
        return b

    def ev(self, e, env):
        k = e[0]
        if k == "int":
            return (e[1] & M64, e[1] & M64)
        if k == "var":
            if e[1] not in env or env[e[1]] is None:
                raise Undecided("read of uninitialised %s" % e[1])
            return env[e[1]]
        if k == "cast":
            v = self.ev(e[1], env)
            b = self.bits(e[2])
            if v[1] < (1 << b):
                return v
            raise Undecided("truncating cast of %s to %s" % (v, e[2]))
        if k == "call":
            if e[1] in ("__builtin_clzll",) and len(e[2]) == 1:
                q = topbit(self.ev(e[2][0], env))
                if q is None:
                    raise Undecided("clz of a value whose highest bit is not fixed (or zero)")
                return (63 - q, 63 - q)
            raise Undecided("call %s" % e[1])
        if k == "bin":
            op = e[1]
            a = self.ev(e[2], env)
            b = self.ev(e[3], env)
            ea, eb = exact(a), exact(b)
            if ea is not None and eb is not None:
                r = {"^": ea ^ eb, "&": ea & eb, "|": ea | eb, "+": (ea + eb) & M64, "-": (ea - eb) & M64, ">>": ea >> eb if eb < 64 else None,
                     "<<": (ea << eb) & M64 if eb < 64 else None, "!=": int(ea != eb), "==": int(ea == eb)}.get(op)
                if r is None:
                    raise Undecided("operator %s" % op)
                return (r, r)
            if op == ">>" and eb is not None and eb < 64:
                return (a[0] >> eb, a[1] >> eb)
            if op == "&" and (ea is not None or eb is not None):
                v, m = (b, ea) if ea is not None else (a, eb)
                q = topbit(v)
                if v[1] == 0 or m == 0:
                    return (0, 0)
                if q is not None and (m >> q) & 1:
                    return (1 << q, v[1] & M64)          # the class's top bit survives the mask: nonzero
                if q is not None and m & ((1 << (q + 1)) - 1) == 0:
                    return (0, 0)                         # the mask lies entirely above the class
                return (0, min(v[1], m))
            if op == "|" and eb is not None and a[0] > 0 and eb < (1 << (a[0].bit_length() - 1)) * 2:
                q = topbit(a)
                if q is not None and eb < (1 << q):
                    return (a[0], a[1])                   # or-ing bits below the top bit stays inside the class
            if op == "+" and (ea is not None or eb is not None):
                v, c = (b, ea) if ea is not None else (a, eb)
                if v[1] + c <= M64:
                    return (v[0] + c, v[1] + c)
            if op == "!=" and eb == 0:
                if a[0] > 0:
                    return (1, 1)
                if a[1] == 0:
                    return (0, 0)
            raise Undecided("operator %s on %s, %s" % (op, a, b))
        raise Undecided("expression %s" % k)

    def truth(self, iv):
        if iv[0] > 0:
            return True
        if iv[1] == 0:
            return False
        raise Undecided("branch condition not decided by the class: %s" % (iv,))

    def run(self, stmts, env):
        for s in stmts:
            k = s[0]
            if k == "decl":
                env[s[1]] = self.ev(s[3], env) if s[3] is not None else None
            elif k == "assign" and s[2][0] == "var":
                n = s[2][1]
                if s[1] == "=":
                    env[n] = self.ev(s[3], env)
                else:
                    env[n] = self.ev(("bin", s[1][:-1], s[2], s[3]), env)
            elif k == "expr" and s[1][0] == "call" and s[1][1] in ("_BitScanReverse64", "_BitScanReverse") and len(s[1][2]) == 2 \
                    and s[1][2][0][:2] == ("un", "&") and s[1][2][0][2][0] == "var":
                v = self.ev(s[1][2][1], env)
                lim = 64 if s[1][1].endswith("64") else 32
                q = topbit(v)
                if q is None or v[1] >= (1 << lim):
                    raise Undecided("%s of a value whose highest bit is not fixed (or zero)" % s[1][1])
                env[s[1][2][0][2][1]] = (q, q)
            elif k == "expr" and s[1][0] == "bin" and s[1][1].endswith("=") and s[1][1] not in ("==", "!=", "<=", ">=") and s[1][2][0] == "var":
                env[s[1][2][1]] = self.ev(("bin", s[1][1][:-1], s[1][2], s[1][3]), env)      # `x >>= k` written as an expression (for-loop step)
            elif k == "if":
                subs = [x for x in s if isinstance(x, list)]
                c = self.truth(self.ev(s[1], env))
                self.run(subs[0] if c else (subs[1] if len(subs) > 1 else []), env)
            elif k == "loop":
                init = s[5] if len(s) > 5 and isinstance(s[5], list) else []
                inc = s[6] if len(s) > 6 and isinstance(s[6], list) else []
                self.run(init, env)
                n_it = 0
                while self.truth(self.ev(s[2], env)):
                    n_it += 1
                    if n_it > 130:
                        raise Undecided("loop does not terminate within 130 iterations")
                    self.run(s[3], env)
                    self.run(inc, env)
            elif k == "return":
                raise Ret(self.ev(s[1], env))
            else:
                raise Undecided("statement %s" % k)

    def call(self, f, args):
        env = {pn: a for (pn, _), a in zip(f["params"], args)}
        try:
            self.run(f["body"], env)
        except Ret as r:
            return r.v
        raise Undecided("no return")
