"""F rules: domain separation -- flags / counter / block_len discipline at every compression site.

Known-bits analysis for u8 flag values over abstract locations
    ('param', fn, i) | ('field', owner adt, name) | ('ret', fn)
value = (must bits, may bits); join = (and, or); fixpoint over the whole crate (context- and
flow-insensitive for fields/params, expression-precise inside a function)."""
from mirlib import *
from r_hash import name_has, name_ends, calls_of
from r_io import has_guard
from r_secrecy import strip_amp

FLAG_NAMES = ["CHUNK_START", "CHUNK_END", "PARENT", "ROOT", "KEYED_HASH", "DERIVE_KEY_CONTEXT", "DERIVE_KEY_MATERIAL"]
SPEC_FLAGS = {n: 1 << i for i, n in enumerate(FLAG_NAMES)}
MODE_BITS = SPEC_FLAGS["KEYED_HASH"] | SPEC_FLAGS["DERIVE_KEY_CONTEXT"] | SPEC_FLAGS["DERIVE_KEY_MATERIAL"]
ROOT, PARENT, CS, CE = SPEC_FLAGS["ROOT"], SPEC_FLAGS["PARENT"], SPEC_FLAGS["CHUNK_START"], SPEC_FLAGS["CHUNK_END"]
SINKS = ("platform::Platform::compress_in_place", "platform::Platform::compress_xof",
         "platform::Platform::hash_many", "platform::Platform::xof_many")
TOP = (0, 0xFF)
BOT = (0xFF, 0)


def join(a, b):
    return (a[0] & b[0], a[1] | b[1])


def bits(m):
    return "|".join(n for n in FLAG_NAMES if m & SPEC_FLAGS[n]) or "0"


class FlagAnalysis:
    def __init__(self, F, tys=("u8",)):
        self.F = F
        self.tys = tys
        self.loc = {}
        self._busy = set()
        self.changed = False
        self.run()

    def get(self, k):
        return self.loc.get(k, BOT)

    def put(self, k, v):
        old = self.loc.get(k, BOT)
        new = join(old, v)
        if new != old:
            self.loc[k] = new
            self.changed = True

    def owner_of(self, fn, root, fields):
        if root[0] != "arg" and root[0] != "phi":
            return None
        cur = strip_amp(fn.locals[root[1]]["ty"])
        owner = None
        for f in fields:
            a = self.F.adts.get(cur.split("<")[0])
            if a is None:
                return None
            hit = None
            for v in a["variants"]:
                for fld in v["fields"]:
                    if fld["name"] == f:
                        hit = fld
            if hit is None:
                return None
            owner = a["path"]
            cur = strip_amp(hit["ty"])
        return owner

    def ev(self, fn, e, depth=0):
        e = val(e) if depth == 0 else e
        k = e[0]
        if k == "const":
            v = e[2]
            return (v & 0xFF, v & 0xFF) if isinstance(v, int) and 0 <= v <= 0xFF else TOP
        if k == "bin":
            a, b = self.ev(fn, e[2], depth + 1), self.ev(fn, e[3], depth + 1)
            if e[1] == "BitOr":
                return (a[0] | b[0], a[1] | b[1])
            if e[1] == "BitAnd":
                return (a[0] & b[0], a[1] & b[1])
            return TOP
        if k == "cast":
            return self.ev(fn, e[1], depth + 1)
        if k == "arg":
            return self.get(("param", fn.path, e[1]))
        if k == "phi":
            acc = BOT
            busy = (fn.path, e[1])
            if busy in self._busy:
                return BOT  # neutral element: least fixpoint of the self-referential definition
            self._busy.add(busy)
            try:
                return self._ev_phi(fn, e, depth)
            finally:
                self._busy.discard(busy)
        return self._ev_rest(fn, e, depth)

    def _ev_phi(self, fn, e, depth):
        if True:
            acc = BOT
            if 1 <= e[1] <= fn.argc:
                acc = join(acc, self.get(("param", fn.path, e[1])))
            for a in fn.phi_alts(e[1]):
                if a[0] == "arg":
                    continue
                acc = join(acc, self.ev(fn, val(a), depth + 1))
            return acc

    def _ev_rest(self, fn, e, depth):
        k = e[0]
        if k == "path":
            root, el = path_fields(e)
            names = tuple(x for x in el if isinstance(x, str))
            if fn.kind == "closure" and root == ("arg", 1, fn.names.get(1, "_1")) and names and names[0].startswith("upvar") and len(names) == 1:
                # captured variable: evaluate it in the enclosing function
                caps = fn.j.get("captures", [])
                i = int(names[0][5:])
                parent = self.F.fn(fn.j.get("parent", ""))
                if parent is not None and i < len(caps):
                    for l, nm in parent.names.items():
                        if nm == caps[i]["var"]:
                            return self.ev(parent, parent.expr_local(l), depth + 1)
                return TOP
            if names and len(names) == len(el):
                owner = self.owner_of(fn, root, names)
                if owner:
                    return self.get(("field", owner, names[-1]))
                # unknown root: join over every field with that name
                acc = None
                for (kk, v) in self.loc.items():
                    if kk[0] == "field" and kk[2] == names[-1]:
                        acc = v if acc is None else join(acc, v)
                return acc if acc is not None else TOP
            return TOP
        if k == "call":
            callee = self.F.fn(e[1])
            if callee is not None:
                return self.get(("ret", e[1]))
            if "clone::Clone" in norm_path(e[1]) and e[1].endswith("::clone") and len(e[2]) == 1:
                return self.ev(fn, e[2][0], depth + 1)  # <u8 as Clone>::clone is the identity
            return TOP
        return TOP

    def is_u8(self, ty):
        return ty == "u8"

    def run(self):
        F = self.F
        for _ in range(40):
            self.changed = False
            for p, fn in F.fns.items():
                if not fn.has_body:
                    continue
                # returns
                if fn.j.get("ret") in self.tys:
                    r = fn.expr_local(0)
                    self.put(("ret", p), self.ev(fn, r))
                # call sites -> params of local callees
                for bi, t in fn.calls():
                    name = callee_name(t["callee"])
                    callee = F.fn(name)
                    if callee is None:
                        continue
                    for ai, a in enumerate(t["args"]):
                        if ai + 1 <= callee.argc and callee.locals[ai + 1]["ty"] in self.tys:
                            self.put(("param", name, ai + 1), self.ev(fn, fn.expr_operand(a)))
                # stores into u8 fields and struct literals
                for bi, si, s in fn.stmts():
                    if s["k"] != "assign":
                        continue
                    pl, rv = s["place"], s["rv"]
                    if pl["p"] and isinstance(pl["p"][-1], dict) and "f" in pl["p"][-1] and pl["p"][-1]["ty"] in self.tys:
                        self.put(("field", pl["p"][-1]["of"], pl["p"][-1]["f"]), self.ev(fn, fn.expr_rvalue(rv)))
                    if rv["k"] == "agg" and rv.get("agg") == "adt":
                        adt = F.adts.get(rv["adt"])
                        if adt:
                            vs = [v for v in adt["variants"] if v["name"] == rv["variant"]]
                            for fld, o in zip(vs[0]["fields"] if vs else [], rv["ops"]):
                                if fld["ty"] in self.tys:
                                    self.put(("field", rv["adt"], fld["name"]), self.ev(fn, fn.expr_operand(o)))
            if not self.changed:
                break


def analysis(F, tys=("u8",)):
    if not hasattr(F, "_flag_analysis"):
        F._flag_analysis = FlagAnalysis(F, tys)
    return F._flag_analysis


def sinks_of(F, exclude_platform=True):
    out = []
    for p, fn in F.fns.items():
        if not fn.has_body or (exclude_platform and p.startswith("platform::")):
            continue
        n = {}
        for bi, t in fn.calls():
            name = callee_name(t["callee"])
            if name in SINKS:
                short = name.split("::")[-1]
                n[short] = n.get(short, 0) + 1
                out.append((p, fn, bi, t, short, n[short]))
    return out


def flags_arg_index(short):
    return {"compress_in_place": 5, "compress_xof": 5, "hash_many": 5, "xof_many": 5}[short]


def rule_K1_flags(ctx, F):
    for n, v in SPEC_FLAGS.items():
        got = F.const_val(n)
        ctx.ob(got == v, "flag-const:%s" % n, F.consts[n]["s"], "%s = %s ; spec 1<<%d" % (n, got, FLAG_NAMES.index(n)))
    for n, v in (("OUT_LEN", 32), ("KEY_LEN", 32), ("BLOCK_LEN", 64), ("CHUNK_LEN", 1024), ("MAX_DEPTH", 54)):
        got = F.const_val(n)
        ctx.ob(got == v, "size-const:%s" % n, F.consts[n]["s"], "%s = %s ; spec %d" % (n, got, v))


# expected per sink: (function, callee, ordinal) -> dict(must, mustnot, counter pattern, block_len pattern)
def sink_table():
    S = lambda *n: ("path", ("arg", 1, "self"), tuple(n))
    B8 = P.cast(P.named("BLOCK_LEN"), "u8")
    return {
        ("Output::chaining_value", "compress_in_place", 1): dict(mustnot=ROOT, counter=S("counter"), block_len=S("block_len")),
        ("Output::root_hash", "compress_in_place", 1): dict(must=ROOT, counter=P.const(0), block_len=S("block_len")),
        ("Output::root_output_block", "compress_xof", 1): dict(must=ROOT, counter=S("counter"), block_len=S("block_len")),
        ("ChunkState::update", "compress_in_place", 1): dict(mustnot=ROOT | PARENT | CE, counter=S("chunk_counter"), block_len=B8),
        ("ChunkState::update", "compress_in_place", 2): dict(mustnot=ROOT | PARENT | CE, counter=S("chunk_counter"), block_len=B8),
        ("OutputReader::fill", "xof_many", 1): dict(must=ROOT, counter=S("inner", "counter"), block_len=S("inner", "block_len")),
        ("compress_chunks_parallel", "hash_many", 1): dict(mustnot=ROOT | PARENT | CS | CE, counter=P.arg("chunk_counter")),
        ("compress_parents_parallel", "hash_many", 1): dict(must=PARENT, mustnot=ROOT | CS | CE, counter=P.const(0)),
    }


def rule_F_sinks(ctx, F):
    A = analysis(F)
    tab = sink_table()
    seen = set()
    sinks = sinks_of(F)
    ctx.floor("kernel sinks outside platform.rs", len(sinks), 8)
    for p, fn, bi, t, short, ordn in sinks:
        key = (p, short, ordn)
        seen.add(key)
        spec = tab.get(key)
        e = val(fn.expr_call(t))
        where = t.get("s")
        if spec is None:
            ctx.ob(False, "unknown-sink:%s:%s#%d" % key, where, "compression call site not in the spec table: %s" % show(e)[:200])
            continue
        fl = A.ev(fn, fn.expr_operand(t["args"][flags_arg_index(short)]))
        ok = True
        why = []
        if "must" in spec and (fl[0] & spec["must"]) != spec["must"]:
            ok = False
            why.append("missing %s" % bits(spec["must"] & ~fl[0]))
        if "mustnot" in spec and (fl[1] & spec["mustnot"]):
            ok = False
            why.append("may carry %s" % bits(fl[1] & spec["mustnot"]))
        ctx.ob(ok, "sink-flags:%s:%s#%d" % key, where,
               "flags operand %s: must={%s} may={%s}%s" % (show(e[2][flags_arg_index(short)])[:80], bits(fl[0]), bits(fl[1]), " -- " + ", ".join(why) if why else ""))
        ci = 4 if short != "hash_many" else 3
        ce = e[2][ci]
        ctx.ob(unify(spec["counter"], ce) is not None, "sink-counter:%s:%s#%d" % key, where, "counter operand %s" % show(ce)[:100])
        if "block_len" in spec:
            be = e[2][3]
            ctx.ob(unify(spec["block_len"], be) is not None, "sink-block_len:%s:%s#%d" % key, where, "block_len operand %s" % show(be)[:100])
        # F7: no narrowing cast inside the counter operand
        narrow = []

        def v(x):
            if x[0] == "cast" and x[-1] in ("u8", "u16", "u32", "i8", "i16", "i32"):
                narrow.append(x)
        walk_expr(ce, v)
        ctx.ob(not narrow, "sink-counter-64bit:%s:%s#%d" % key, where, "no narrowing cast in the counter operand" if not narrow else "counter passes through %s" % show(narrow[0]))
    for key in tab:
        if key not in seen:
            ctx.ob(False, "sink-missing:%s:%s#%d" % key, "", "expected compression site not found")


def rule_F_hash_many(ctx, F):
    """F3/F4: the two hash_many batches"""
    fn = F.need_fn("compress_chunks_parallel")
    hm = [(bi, val(fn.expr_call(t)), t) for bi, t in fn.calls() if callee_name(t["callee"]) == SINKS[2]]
    if len(hm) != 1:
        raise MissingAnchor("hash_many call in compress_chunks_parallel")
    bi, e, t = hm[0]
    a = e[2]
    inc = a[4]
    ctx.ob(inc[0] == "adt" and inc[2] == "Yes", "chunks-increment-counter", t.get("s"), "increment_counter = %s::%s" % (inc[1], inc[2]))
    ctx.ob(a[6] == ("const", "CHUNK_START", CS) and a[7] == ("const", "CHUNK_END", CE), "chunks-start-end-flags", t.get("s"),
           "flags_start=%s flags_end=%s" % (show(a[6]), show(a[7])))
    ctx.ob(a[2] == ("arg", 2, "key") and a[5] == ("arg", 4, "flags") and a[8] == ("arg", 6, "out"), "chunks-key-flags-out-passthrough", t.get("s"),
           "key=%s flags=%s out=%s" % (show(a[2]), show(a[5]), show(a[8])))
    # trailing partial chunk: counter = chunk_counter + chunks_array.len()
    arr = a[1]
    news = [(b2, val(fn.expr_call(t2)), t2) for b2, t2 in fn.calls() if callee_name(t2["callee"]) == "ChunkState::new"]
    ctx.ob(len(news) == 1, "chunks-partial-one-chunkstate", fn.loc, "%d ChunkState::new" % len(news))
    for b2, e2, t2 in news:
        arrl = find_sub(arr, ("built", W("l"), W()))
        want = P.bin("Add", P.arg("chunk_counter"), P.cast(("call", name_ends("::len"), (W("arr"),)), "u64"))
        m = unify(want, e2[2][1])
        same = m is not None and arrl is not None and find_sub(m["arr"], ("built", arrl[1]["l"], W())) is not None
        ctx.ob(same, "chunks-partial-counter", t2.get("s"), "partial chunk counter = %s ; required chunk_counter + len of the array handed to hash_many" % show(e2[2][1])[:120])
        ctx.ob(e2[2][0] == ("arg", 2, "key") and e2[2][2] == ("arg", 4, "flags"), "chunks-partial-key-flags", t2.get("s"), "ChunkState::new(%s, _, %s, _)" % (show(e2[2][0]), show(e2[2][2])))
    # blocks per chunk: inputs are &[u8; CHUNK_LEN] (type level)
    ctx.ob("CHUNK_LEN" in t["callee"].get("args", [""])[0] or "1024" in str(t["callee"].get("args")), "chunks-input-size", t.get("s"), "hash_many::<%s>" % t["callee"].get("args"))
    fn = F.need_fn("compress_parents_parallel")
    hm = [(bi, val(fn.expr_call(t)), t) for bi, t in fn.calls() if callee_name(t["callee"]) == SINKS[2]]
    if len(hm) != 1:
        raise MissingAnchor("hash_many call in compress_parents_parallel")
    bi, e, t = hm[0]
    a = e[2]
    ctx.ob(a[4][0] == "adt" and a[4][2] == "No", "parents-no-increment", t.get("s"), "increment_counter = %s" % a[4][2])
    ctx.ob(a[6] == ("const", None, 0) and a[7] == ("const", None, 0), "parents-no-start-end-flags", t.get("s"), "flags_start=%s flags_end=%s" % (show(a[6]), show(a[7])))
    ctx.ob(unify(P.bin("BitOr", P.arg("flags"), P.named("PARENT")), a[5]) is not None and a[2] == ("arg", 2, "key"), "parents-flags-key", t.get("s"), "flags=%s key=%s" % (show(a[5]), show(a[2])))
    ctx.ob("BLOCK_LEN" in str(t["callee"].get("args")) or "64" in str(t["callee"].get("args")), "parents-input-size", t.get("s"), "hash_many::<%s>" % t["callee"].get("args"))


def rule_F_fields(ctx, F):
    A = analysis(F)
    f1 = A.get(("field", "ChunkState", "flags"))
    ctx.ob(f1 != BOT and (f1[1] & ~MODE_BITS) == 0, "field:ChunkState.flags", F.adts["ChunkState"]["s"],
           "ChunkState.flags may={%s} ; only mode bits may be stored" % bits(f1[1]))
    f2 = A.get(("field", "Output", "flags"))
    ctx.ob(f2 != BOT and (f2[1] & ROOT) == 0, "field:Output.flags", F.adts["Output"]["s"], "Output.flags may={%s} ; ROOT is never stored" % bits(f2[1]))
    for fnname in ("compress_subtree_wide", "compress_subtree_to_parent_node", "compress_chunks_parallel", "compress_parents_parallel",
                   "hash_all_at_once", "parent_node_output", "ChunkState::new", "Hasher::new_internal"):
        fn = F.need_fn(fnname)
        idx = [i for i in range(1, fn.argc + 1) if fn.names.get(i) == "flags"]
        if not idx:
            raise MissingAnchor("flags parameter of %s" % fnname)
        v = A.get(("param", fnname, idx[0]))
        ctx.ob(v != BOT and (v[1] & ~MODE_BITS) == 0, "param-flags:%s" % fnname, fn.loc, "flags parameter may={%s} ; only mode bits flow in" % bits(v[1]))


def rule_F_literals(ctx, F):
    """the three Output literals and ChunkState::new"""
    A = analysis(F)
    n = 0
    for p, fn in F.fns.items():
        if not fn.has_body:
            continue
        for bi, si, s in fn.stmts():
            rv = s["rv"] if s["k"] == "assign" else None
            if not rv or rv["k"] != "agg" or rv.get("adt") != "Output":
                continue
            if "clone::Clone>::clone" in norm_path(p):
                continue  # derived field-wise copy, not a constructor of new domain-separation data
            n += 1
            fields = dict(zip(rv["fields"], [val(fn.expr_operand(o)) for o in rv["ops"]]))
            fl = A.ev(fn, fn.expr_operand(rv["ops"][rv["fields"].index("flags")]))
            if p == "ChunkState::output":
                ok = (fl[0] & CE) and not (fl[1] & (PARENT | ROOT)) and fields["block_len"] == P.self_("buf_len") and fields["counter"] == P.self_("chunk_counter") \
                    and fields["block"] == P.self_("buf") and fields["input_chaining_value"] == P.self_("cv")
                has_start = find_sub(fields["flags"], P.call("ChunkState::start_flag", ("arg", 1, "self"))) is not None
                ctx.ob(bool(ok) and has_start, "output-literal:chunk", s.get("s"),
                       "chunk output: flags must={%s} may={%s} includes start_flag()=%s, block_len=%s counter=%s" % (bits(fl[0]), bits(fl[1]), has_start, show(fields["block_len"]), show(fields["counter"])))
            else:
                ok = (fl[0] & PARENT) and not (fl[1] & (CS | CE | ROOT)) and fields["counter"] == ("const", None, 0) \
                    and unify(P.cast(P.named("BLOCK_LEN"), "u8"), fields["block_len"]) is not None
                keyok = fields["input_chaining_value"] in (("arg", 2, "key"), ("arg", 3, "key"))
                ctx.ob(bool(ok) and keyok, "output-literal:parent:%s" % p, s.get("s"),
                       "parent output in %s: flags must={%s} may={%s}, counter=%s, block_len=%s, cv=%s" % (p, bits(fl[0]), bits(fl[1]), show(fields["counter"]), show(fields["block_len"]), show(fields["input_chaining_value"])))
    ctx.floor("Output literals", n, 3)
    cn = F.need_fn("ChunkState::new")
    e = val(cn.expr_local(0))
    want = ("adt", "ChunkState", W(), W(), (P.arg("key"), P.arg("chunk_counter"), ("repeat", ("const", None, 0), 64), P.const(0), P.const(0), P.arg("flags"), P.arg("platform")))
    ctx.ob(unify(want, e) is not None, "chunkstate-new", cn.loc, "ChunkState::new = %s" % show(e)[:200])
    # parent_node_output builds the block from (left, right) in that order
    pn = F.need_fn("parent_node_output")
    cps = [c for c in calls_of(pn) if norm_path(c[1][1]).endswith("copy_from_slice")]
    ok = len(cps) == 2
    if ok:
        first, second = sorted(cps, key=lambda c: c[0])
        if pn.dominates(second[0], first[0]):
            first, second = second, first
        lo = find_sub(first[1][2][0], ("adt", name_ends("RangeTo"), W(), W(), (P.const(32),))) is not None and find_sub(first[1][2][1], P.arg("left_child")) is not None
        hi = find_sub(second[1][2][0], ("adt", name_ends("RangeFrom"), W(), W(), (P.const(32),))) is not None and find_sub(second[1][2][1], P.arg("right_child")) is not None
        ok = lo and hi
    ctx.ob(ok, "parent-block-left-then-right", pn.loc, "block[..32] = left_child, block[32..] = right_child: %s" % ok)


def rule_F5(ctx, F):
    sf = F.need_fn("ChunkState::start_flag")
    arms = {}
    for b, gs, e in ret_alternatives(sf):
        m = has_guard(gs, P.bin("Eq", P.self_("blocks_compressed"), P.const(0)), True)
        if m is not None:
            arms[True] = e
        elif has_guard(gs, P.bin("Eq", P.self_("blocks_compressed"), P.const(0)), False) is not None:
            arms[False] = e
    ctx.ob(arms.get(True) == ("const", "CHUNK_START", CS) and arms.get(False) == ("const", None, 0), "start_flag-on-first-block-only", sf.loc,
           "blocks_compressed == 0 => %s ; otherwise => %s" % (show(arms.get(True, ("?",))), show(arms.get(False, ("?",)))))
    up = F.need_fn("ChunkState::update")
    sinks = [(bi, t) for bi, t in up.calls() if callee_name(t["callee"]) == SINKS[0]]
    incs = []
    for bi, si, s in up.stmts():
        if s["k"] == "assign" and s["place"]["p"]:
            tgt = val(up.expr_place(s["place"]))
            if tgt == P.self_("blocks_compressed"):
                v = val(up.expr_rvalue(s["rv"]))
                incs.append((bi, v, s.get("s")))
    ctx.ob(len(incs) == len(sinks) == 2 and all(unify(P.bin("Add", P.self_("blocks_compressed"), P.const(1)), v) is not None for _, v, _ in incs),
           "blocks_compressed-increments", up.loc, "%d compression site(s), %d increment(s): %s" % (len(sinks), len(incs), [show(v) for _, v, _ in incs]))
    rets = up.returns()
    sink_blocks = [b for b, _ in sinks]
    inc_blocks = set(b for b, _, _ in incs)
    for i, (bi, t) in enumerate(sinks):
        nxt = up.succ(bi)
        # from after the compression, neither another compression nor the return is reachable without an increment
        leak = any(up.paths_avoiding(s, tgt, inc_blocks) for s in nxt for tgt in rets + sink_blocks)
        ctx.ob(not leak, "compress-then-count#%d" % (i + 1), t.get("s"), "every path from this compression passes blocks_compressed += 1 before the next compression or return: %s" % (not leak))
        e = val(up.expr_call(t))
        want = P.bin("BitOr", P.self_("flags"), P.call("ChunkState::start_flag", ("arg", 1, "self")))
        ctx.ob(unify(want, e[2][5]) is not None, "update-block-flags#%d" % (i + 1), t.get("s"), "flags = %s ; required self.flags | self.start_flag()" % show(e[2][5]))
        ctx.ob(e[2][1] == P.self_("cv"), "update-chains-cv#%d" % (i + 1), t.get("s"), "cv operand = %s" % show(e[2][1]))


MODE_CTORS = [
    ("hash", P.call("Output::root_hash", P.call("hash_all_at_once", P.arg("input"), P.named("IV"), P.const(0)))),
    ("keyed_hash", P.call("Output::root_hash", P.call("hash_all_at_once", P.arg("input"), P.call("platform::words_from_le_bytes_32", P.arg("key")), P.named("KEYED_HASH", 16)))),
    ("derive_key", ("path", P.call("Output::root_hash", P.call("hash_all_at_once", P.arg("key_material"),
                                                               P.call("platform::words_from_le_bytes_32", P.call("hazmat::hash_derive_key_context", P.arg("context"))),
                                                               P.named("DERIVE_KEY_MATERIAL", 64))), ("0",))),
    ("hazmat::hash_derive_key_context", ("path", P.call("Output::root_hash", P.call("hash_all_at_once", ("call", name_ends("::as_bytes"), (P.arg("context"),)),
                                                                                    P.named("IV"), P.named("DERIVE_KEY_CONTEXT", 32))), ("0",))),
    ("Hasher::new", P.call("Hasher::new_internal", P.named("IV"), P.const(0))),
    ("Hasher::new_keyed", P.call("Hasher::new_internal", P.call("platform::words_from_le_bytes_32", P.arg("key")), P.named("KEYED_HASH", 16))),
    ("Hasher::new_derive_key", P.call("Hasher::new_internal", P.call("platform::words_from_le_bytes_32", P.call("hazmat::hash_derive_key_context", P.arg("context"))), P.named("DERIVE_KEY_MATERIAL", 64))),
    ("<Hasher as hazmat::HasherExt>::new_from_context_key", P.call("Hasher::new_internal", P.call("platform::words_from_le_bytes_32", P.arg("context_key")), P.named("DERIVE_KEY_MATERIAL", 64))),
]


def rule_F6(ctx, F):
    for name, pat in MODE_CTORS:
        fn = F.need_fn(name)
        e = val(fn.expr_local(0))
        ctx.ob(unify(pat, e) is not None, "mode-table:%s" % name, fn.loc, "%s = %s" % (name, show(e)[:220]))
    iv = F.const_bytes("IV")
    import struct
    words = list(struct.unpack("<8I", iv)) if len(iv) == 32 else []
    ctx.extra["IV"] = ["%08x" % w for w in words]
    # Hasher::new_internal stores the key and builds ChunkState::new(key, 0, flags, detect())
    ni = F.need_fn("Hasher::new_internal")
    e = val(ni.expr_local(0))
    want = ("adt", "Hasher", W(), W(), (P.arg("key"), P.call("ChunkState::new", P.arg("key"), P.const(0), P.arg("flags"), P.call("platform::Platform::detect")), P.const(0), ("call", name_ends("ArrayVec::<T, CAP>::new"), ())))
    ctx.ob(unify(want, e) is not None, "hasher-new_internal", ni.loc, "new_internal = %s" % show(e)[:200])
    # hash_all_at_once: the one-chunk arm starts ChunkState::new(key, 0, flags, platform)
    ha = F.need_fn("hash_all_at_once")
    news = [c for c in calls_of(ha) if c[1][1] == "ChunkState::new"]
    ok = len(news) == 1 and unify(P.call("ChunkState::new", P.arg("key"), P.const(0), P.arg("flags"), W()), news[0][1]) is not None
    ctx.ob(ok, "hash_all_at_once-single-chunk", ha.loc, "single-chunk arm: %s" % [show(c[1]) for c in news])
    cs = [c for c in calls_of(ha) if c[1][1] == "compress_subtree_to_parent_node"]
    ok = len(cs) == 1 and unify(P.call("compress_subtree_to_parent_node", P.arg("input"), P.arg("key"), P.const(0), P.arg("flags"), W()), cs[0][1]) is not None
    ctx.ob(ok, "hash_all_at_once-tree", ha.loc, "tree arm: %s" % [show(c[1])[:120] for c in cs])
