"""G rules: statics inventory (G1), Send/Sync (G2), effect closure (G4), join ownership/contract (G3, G5)."""
import re
from mirlib import *

DETECT_STORAGE = re.compile(r"^platform::(avx512|avx2|sse41|sse2)_detected::has_\w+::STORAGE$")
DETECT_SCOPE = re.compile(r"^(<)?platform::(avx512|avx2|sse41|sse2)_detected(::|$)")
EXPECTED_STATICS = {"asm": 4, "pure": 3, "portable1": 0}
SHARED_STATE_CALLS = ("core::sync::atomic", "core::sync::", "core::thread", "core::cell::", "std::sys::thread_local",
                      "core::sync::mpsc", "parking_lot", "once_cell", "lazy_static")
KERNEL_MODULES = ("sse2::", "sse41::", "avx2::", "avx512::", "neon::")


def flavour(F):
    if F.cfg in ("portable1", "neon1", "portable32", "x86-32"):
        return "portable1"        # no run-time detection, hence no statics
    if F.cfg.startswith("pure"):
        return "pure"
    return "asm"


def rule_G1(ctx, F):
    st = F.statics
    want = EXPECTED_STATICS[flavour(F)]
    ctx.floor("statics in the crate (%s flavour)" % flavour(F), len(st), want)
    for s in st:
        is_cache = bool(DETECT_STORAGE.match(s["path"])) and norm_path(s["ty"]) in ("core::sync::atomic::Atomic<u8>", "core::sync::atomic::AtomicU8")
        ok = (not s["mut"]) and (not s["thread_local"]) and (s["freeze"] or is_cache)
        ctx.ob(ok, "static:%s" % s["path"], s["s"],
               "static %s: %s, mut=%s, interior-mutable=%s, thread_local=%s -- %s" %
               (s["path"], s["ty"], s["mut"], not s["freeze"], s["thread_local"],
                "idempotent CPU-feature cache" if is_cache and ok else "immutable data" if ok else
                "shared mutable state other than the feature-detection cache"))
    # unsafe impl Send / Sync, and negative impls
    n = 0
    for imp in F.impls:
        tr = norm_path(imp["trait"] or "")
        if tr in ("core::marker::Send", "core::marker::Sync"):
            n += 1
            ctx.ob(False, "manual-auto-trait:%s:%s" % (imp["self"], tr.split("::")[-1]), imp["s"],
                   "hand-written %simpl %s for %s: thread-safety no longer follows from the field types" %
                   ("unsafe " if imp.get("unsafe") else "", tr, imp["self"]))
    ctx.ob(n == 0, "no-manual-send-sync", "", "%d hand-written Send/Sync impl(s) in the crate" % n)


def rule_G2(ctx, F):
    for ty in ("Hasher", "OutputReader", "Hash", "Output", "ChunkState"):
        a = F.adts.get(ty)
        if a is None:
            raise MissingAnchor("type %s" % ty)
        ctx.ob(a.get("send") is True and a.get("sync") is True, "send-sync:%s" % ty, a["s"],
               "rustc's trait solver: %s: Send=%s Sync=%s" % (ty, a.get("send"), a.get("sync")))


def rule_G4(ctx, F):
    """no function of the crate touches shared mutable state, except the detection caches inside
    platform::*_detected; FFI calls go to the declared kernel symbols only"""
    nstatic = natomic = nffi = nbodies = 0
    for p, f in F.fns.items():
        if not f.has_body:
            continue
        nbodies += 1
        in_detect = bool(DETECT_SCOPE.match(p))
        statics_here = set()

        def visit(e):
            if e[0] == "static":
                statics_here.add(e[1])
        for bi, si, s in f.stmts():
            if s["k"] == "assign":
                walk_ops(s["rv"], lambda o: statics_here.add(o["static"]) if o.get("static") else None)
            elif s["k"] == "intrinsic":
                pass
        for bi, t in f.calls():
            for a in t["args"]:
                if a.get("static"):
                    statics_here.add(a["static"])
            c = t["callee"]
            name = norm_path(callee_name(c))
            if any(name.startswith(x) or ("<" + x) in name for x in SHARED_STATE_CALLS):
                natomic += 1
                ctx.ob(in_detect, "shared-state-call:%s:%s" % (p, name.split("::")[-1]), t.get("s"),
                       "%s calls %s %s" % (p, name, "(inside the CPU-feature detection cache)" if in_detect else
                                           "-- atomics/locks/thread state outside platform::*_detected"))
            if c.get("foreign"):
                nffi += 1
                sym = c["path"].split("::")[-1]
                ok = sym in F.foreign and any(p.startswith(m) for m in KERNEL_MODULES)
                ctx.ob(ok, "ffi-call:%s->%s" % (p, sym), t.get("s"),
                       "extern call to %s from %s %s" % (sym, p, "(declared kernel symbol in an ffi_* module)" if ok else
                                                         "-- not a declared kernel symbol / outside the kernel modules"))
        for sp in statics_here:
            nstatic += 1
            ok = in_detect and bool(DETECT_STORAGE.match(sp))
            ctx.ob(ok, "static-ref:%s:%s" % (p, sp), f.loc,
                   "%s references static %s %s" % (p, sp, "(detection cache)" if ok else "-- shared state reachable outside the detection modules"))
    fl = flavour(F)
    ctx.floor("function bodies scanned for shared state", nbodies, 150)
    ctx.floor("detection-cache static references", nstatic, {"asm": 4, "pure": 3, "portable1": 0, "neon1": 0}.get(fl, 3))
    ctx.extra.setdefault("G4", {})[F.cfg] = dict(bodies=nbodies, static_refs=nstatic, shared_state_calls=natomic, ffi_calls=nffi)


def walk_ops(rv, f):
    for k in ("op", "a", "b"):
        o = rv.get(k)
        if isinstance(o, dict):
            f(o)
    for o in rv.get("ops", []) or []:
        f(o)


# ------------------------------------------------------------------ G3 / G5 (join) ----
from r_hash import name_has, name_ends, calls_of  # noqa: E402


def rule_G3(ctx, F):
    csw = F.need_fn("compress_subtree_wide")
    cls = [F.fns[p] for p in sorted(F.fns) if p.startswith("compress_subtree_wide::{closure#")]
    ctx.floor("join closures", len(cls), 2)
    ctx.ob(len(cls) == 2, "two-join-closures", csw.loc, "%d closure(s) in compress_subtree_wide" % len(cls))
    muts = []
    for c in cls:
        caps = c.j.get("captures", [])
        m = [x for x in caps if x["mode"].startswith("ref:Mutable") or x["mode"].startswith("ref:UniqueImmutable") or x["mode"] in ("value", "use") and x["ty"].startswith("&mut")]
        byval_nonscalar = [x for x in caps if x["mode"] in ("value", "use") and x["ty"] not in ("u64", "u8", "usize", "platform::Platform") and not x["ty"].startswith("&")]
        ctx.ob(len(m) == 1 and m[0]["ty"] == "[u8]", "closure-one-mutable-capture:%s" % c.path.split("::")[-1], c.loc,
               "mutable captures: %s ; all captures: %s" % ([(x["var"], x["ty"]) for x in m], [(x["var"], x["mode"]) for x in caps]))
        ctx.ob(not byval_nonscalar, "closure-no-owned-shared-state:%s" % c.path.split("::")[-1], c.loc, "by-value non-scalar captures: %s" % [(x["var"], x["ty"]) for x in byval_nonscalar])
        if m:
            muts.append(m[0]["var"])
    # the two mutable captures are .0 / .1 of ONE split_at_mut of the local cv_array
    def local_named(n):
        for l, nm in csw.names.items():
            if nm == n:
                return l
        return None
    if len(muts) == 2:
        exprs = []
        for n in muts:
            l = local_named(n)
            exprs.append(val(csw.expr_local(l)) if l is not None else None)
        SP = W("split")
        ok = exprs[0] is not None and exprs[1] is not None
        m0 = unify(("path", SP, ("0",)), exprs[0]) if ok else None
        m1 = unify(("path", SP, ("1",)), exprs[1], m0) if m0 else None
        ok = m1 is not None and m1["split"][0] == "call" and norm_path(m1["split"][1]).endswith("split_at_mut")
        ctx.ob(ok, "outputs-are-halves-of-one-split_at_mut", csw.loc, "%s = %s ; %s = %s" % (muts[0], show(exprs[0])[:80] if exprs[0] else "?", muts[1], show(exprs[1])[:80] if exprs[1] else "?"))
        if ok:
            sp = m1["split"]
            base = sp[2][0][1] if sp[2][0][0] == "cast" else sp[2][0]
            base_ok = base[0] == "built" and base[2] == "cv_array"
            at = unify(P.bin("Mul", ("phi", W(), "degree"), P.named("OUT_LEN")), sp[2][1]) is not None
            ctx.ob(base_ok and at, "split-of-local-scratch", csw.loc, "split_at_mut(%s, %s) ; required (cv_array, degree*OUT_LEN)" % (show(sp[2][0]), show(sp[2][1])))
    # input halves and the right-hand counter
    le, re_ = local_named("left"), local_named("right")
    if le is None or re_ is None:
        raise MissingAnchor("locals left/right in compress_subtree_wide")
    el, er = val(csw.expr_local(le)), val(csw.expr_local(re_))
    SP = W("isplit")
    m0 = unify(("path", SP, ("0",)), el)
    m1 = unify(("path", SP, ("1",)), er, m0) if m0 else None
    want_at = P.cast(P.call("hazmat::left_subtree_len", P.cast(("call", name_ends("::len"), (P.arg("input"),)), "u64")), "usize")
    ok = m1 is not None and m1["isplit"][0] == "call" and norm_path(m1["isplit"][1]).endswith("::split_at") and m1["isplit"][2][0] == ("arg", 1, "input") and unify(want_at, m1["isplit"][2][1]) is not None
    ctx.ob(ok, "input-halves-of-one-split_at", csw.loc, "left/right = input.split_at(left_subtree_len(input.len())): %s" % ok)
    rc = local_named("right_chunk_counter")
    erc = val(csw.expr_local(rc)) if rc is not None else None
    # left.len() is canonicalised by val() to the split point itself (left = input.split_at(n).0)
    split_pt = m1["isplit"][2][1] if ok else W()
    want = P.bin("Add", P.arg("chunk_counter"), P.cast(P.bin("Div", split_pt, P.named("CHUNK_LEN")), "u64"))
    ctx.ob(erc is not None and unify(want, erc) is not None, "right-counter", csw.loc, "right_chunk_counter = %s ; required chunk_counter + left.len()/CHUNK_LEN" % (show(erc)[:120] if erc else "?"))
    # each closure recurses with its own side only
    want_args = [["left", "key", "chunk_counter", "flags", "platform", "left_out"], ["right", "key", "right_chunk_counter", "flags", "platform", "right_out"]]
    for c, wa in zip(cls, want_args):
        caps = [x["var"] for x in c.j.get("captures", [])]
        cs = [(bi, t) for bi, t in c.calls() if callee_name(t["callee"]) == "compress_subtree_wide"]
        got = []
        if len(cs) == 1:
            for a in cs[0][1]["args"]:
                e = val(c.expr_operand(a))
                root, el2 = path_fields(e)
                nm = [x for x in el2 if isinstance(x, str) and x.startswith("upvar")]
                got.append(caps[int(nm[0][5:])] if nm and int(nm[0][5:]) < len(caps) else "?")
        ctx.ob(got == wa, "closure-recurses-on-own-half:%s" % c.path.split("::")[-1], c.loc, "compress_subtree_wide(%s) ; required (%s)" % (", ".join(got), ", ".join(wa)))
        if cs:
            ctx.ob(cs[0][1]["callee"].get("args") == ["J"], "closure-keeps-join-type:%s" % c.path.split("::")[-1], c.loc, "recursion instantiated with %s" % cs[0][1]["callee"].get("args"))
    # the join call: (closure#0, closure#1) in order; results used positionally
    js = [(bi, t) for bi, t in csw.calls() if t["callee"]["path"] == "join::Join::join"]
    ctx.ob(len(js) == 1, "one-join-call", csw.loc, "%d J::join call(s)" % len(js))
    for bi, t in js:
        e = val(csw.expr_call(t))
        order = [a[1] if a[0] == "closure" else "?" for a in e[2]]
        ctx.ob(order == [c.path for c in cls], "join-argument-order", t.get("s"), "J::join(%s)" % ", ".join(o.split("::")[-1] for o in order))
        ln, rn = local_named("left_n"), local_named("right_n")
        ok = ln is not None and rn is not None and val(csw.expr_local(ln)) == ("path", e, ("0",)) and val(csw.expr_local(rn)) == ("path", e, ("1",))
        ctx.ob(ok, "join-results-positional", t.get("s"), "(left_n, right_n) = J::join(..): %s" % ok)


def rule_G5(ctx, F):
    decl = [f for p, f in F.fns.items() if p == "join::Join::join" and f.kind == "decl"]
    if not decl:
        raise MissingAnchor("trait method join::Join::join")
    preds = decl[0].j.get("preds", [])
    for ty in ("A", "B", "RA", "RB"):
        ctx.ob(any(norm_path(p) == "%s: core::marker::Send" % ty for p in preds), "join-send-bound:%s" % ty, decl[0].loc, "Join::join requires %s: Send (%s)" % (ty, [p for p in preds if p.startswith(ty + ":")]))
    sj = F.need_fn("<join::SerialJoin as join::Join>::join")
    e = val(sj.expr_local(0))
    ok = e[0] == "tuple" and len(e[1]) == 2 and all(x[0] == "call" and "FnOnce" in x[1] for x in e[1]) \
        and e[1][0][2][0] == ("arg", 1, "oper_a") and e[1][1][2][0] == ("arg", 2, "oper_b")
    ctx.ob(ok, "serial-join", sj.loc, "SerialJoin::join = %s ; required (oper_a(), oper_b())" % show(e)[:160])
    rj = F.fn("<join::RayonJoin as join::Join>::join")
    if rj is not None:
        e = val(rj.expr_local(0))
        ok = e[0] == "call" and norm_path(e[1]).startswith("rayon_core::join") and e[2] == (("arg", 1, "oper_a"), ("arg", 2, "oper_b"))
        ctx.ob(ok, "rayon-join", rj.loc, "RayonJoin::join = %s ; required rayon_core::join(oper_a, oper_b)" % show(e)[:160])
        ur = F.need_fn("Hasher::update_rayon")
        cs = [(bi, t) for bi, t in ur.calls()]
        ok = len(cs) == 1 and callee_name(cs[0][1]["callee"]) == "Hasher::update_with_join" and cs[0][1]["callee"].get("args") == ["join::RayonJoin"]
        ctx.ob(ok, "update_rayon-same-generic-body", ur.loc, "update_rayon = update_with_join::<RayonJoin>: %s" % ok)
    elif F.cfg in ("asm-full", "pure-full", "intr-full"):
        raise MissingAnchor("<join::RayonJoin as join::Join>::join")


def rule_G4_join(ctx, F):
    """effect closure under the join: nothing reachable from compress_subtree_wide touches statics,
    atomics/locks/threads, I/O, or FFI other than the kernel symbols"""
    reach = F.reachable_fns(["compress_subtree_wide"])
    ctx.floor("functions reachable from compress_subtree_wide", len(reach), 15)
    n = 0
    for p in sorted(reach):
        f = F.fns[p]
        if not f.has_body:
            continue
        for bi, t in f.calls():
            c = t["callee"]
            name = norm_path(callee_name(c))
            for a in t["args"]:
                if a.get("static"):
                    ctx.ob(False, "join-static-ref:%s" % p, t.get("s"), "%s passes static %s" % (p, a["static"]))
            bad = any(name.startswith(x) or ("<" + x) in name for x in SHARED_STATE_CALLS) or name.startswith("core::io") or name.startswith("core::fs") or name.startswith("core::env")
            if bad and not (p.startswith("<join::RayonJoin") or name.startswith("rayon_core::join")):
                ctx.ob(False, "join-effect:%s:%s" % (p, name.split("::")[-1]), t.get("s"), "%s calls %s under the join" % (p, name))
            if c.get("foreign"):
                n += 1
                sym = c["path"].split("::")[-1]
                ctx.ob(sym in F.foreign, "join-ffi:%s" % sym, t.get("s"), "kernel symbol %s" % sym)
        for bi, si, s in f.stmts():
            if s["k"] == "assign":
                found = []
                walk_ops(s["rv"], lambda o: found.append(o["static"]) if o.get("static") else None)
                for sp in found:
                    ctx.ob(False, "join-static-ref:%s" % p, s.get("s"), "%s references static %s" % (p, sp))
    ctx.ob(True, "join-effect-scan", "", "scanned %d reachable bodies" % len(reach))


def rule_W1(ctx, F):
    """compress_subtree_wide (Rust): the two-children shortcut (`return 2`, children copied out unmerged) is taken exactly
    when the LEFT half returned one chaining value; otherwise one parent layer is compressed over left_n + right_n children"""
    fn = F.need_fn("compress_subtree_wide")
    alts = ret_alternatives(fn)
    two = [(b, gs, e) for b, gs, e in alts if e == ("const", None, 2)]
    ok = False
    why = "%d `return 2` path(s)" % len(two)
    JOIN0 = None
    for b, gs, e in two:
        for c, tr in gs:
            if tr is True and c[0] == "bin" and c[1] == "Eq" and ("const", None, 1) in (c[2], c[3]):
                other = c[3] if c[2] == ("const", None, 1) else c[2]
                if other[0] == "path" and other[1][0] == "call" and other[1][1].endswith("Join::join") and other[2] == ("0",):
                    ok = True
                    JOIN0 = other
                why = "`return 2` under %s == 1" % show(other)[:100]
    ctx.ob(len(two) == 1 and ok, "subtree-two-children-iff-left-n-1", fn.loc, why + " ; required the first component of join(..) (left_n) == 1")
    par = [(b, gs, e) for b, gs, e in alts if e[0] == "call" and e[1] == "compress_parents_parallel"]
    okp = False
    if len(par) == 1 and JOIN0 is not None:
        JOIN1 = ("path", JOIN0[1], ("1",))
        want = P.bin("Mul", P.bin("Add", JOIN0, JOIN1), ("const", "OUT_LEN", 32))
        okp = find_sub(par[0][2][2][0], want) is not None
    ctx.ob(okp, "subtree-parents-over-all-children", fn.loc, "compress_parents_parallel(&cv_array[..(left_n + right_n) * OUT_LEN], ..): %s" % okp)
    # the leaf case hands at most simd_degree chunks to compress_chunks_parallel: a leaf returns one CV per chunk, and the
    # parent reserves max(simd_degree, 2) CV slots per child -- a wider leaf would overflow its half of cv_array
    leaf = [(b, gs, e) for b, gs, e in alts if e[0] == "call" and e[1] == "compress_chunks_parallel"]
    okl = False
    bound = None
    if len(leaf) == 1:
        SD = ("call", "platform::Platform::simd_degree", (W(),))
        for c, tr in leaf[0][1]:
            if tr is True and c[0] == "bin" and c[1] == "Le" and c[2][0] == "call" and c[2][1].endswith("len"):
                bound = c[3]
                okl = unify(P.bin("Mul", SD, ("const", "CHUNK_LEN", 1024)), c[3]) is not None or unify(P.bin("Mul", ("const", "CHUNK_LEN", 1024), SD), c[3]) is not None
    ctx.ob(okl, "subtree-leaf-width-is-simd-degree", fn.loc, "leaf case taken when input.len() <= %s ; required platform.simd_degree() * CHUNK_LEN" % (show(bound)[:100] if bound else "?"))


def _simd_degrees(F):
    """the values Platform::simd_degree can return in this configuration (constants assigned to its return place)"""
    f = F.need_fn("platform::Platform::simd_degree")
    carried = {0}
    for bi, si, s in f.stmts():      # the local copied into the return place
        if s["place"]["l"] == 0 and not s["place"]["p"] and s["rv"].get("k") == "use" and s["rv"]["op"].get("k") in ("copy", "move") and not s["rv"]["op"]["place"]["p"]:
            carried.add(s["rv"]["op"]["place"]["l"])
    out = set()
    for bi, si, s in f.stmts():
        if s["place"]["l"] in carried and not s["place"]["p"] and s["rv"].get("k") == "use" and s["rv"]["op"].get("k") == "const" \
                and s["rv"]["op"].get("ty") == "usize" and isinstance(s["rv"]["op"].get("val"), int):
            out.add(s["rv"]["op"]["val"])
    return out


def _eval_bound(e, d):
    if not isinstance(e, tuple):
        return None
    if e[0] == "const" and isinstance(e[2], int):
        return e[2]
    if e[0] == "call" and e[1].endswith("simd_degree"):
        return d
    if e[0] == "cast":
        return _eval_bound(e[1], d)
    if e[0] == "bin":
        a, b = _eval_bound(e[2], d), _eval_bound(e[3], d)
        if a is None or b is None:
            return None
        op = e[1].replace("WithOverflow", "")
        return {"Mul": a * b, "Add": a + b, "Sub": a - b, "Div": a // b if b else None, "Shl": a << b if 0 <= b < 64 else None}.get(op)
    if e[0] == "call" and e[1].endswith("::max") and len(e[2]) == 2:
        a, b = _eval_bound(e[2][0], d), _eval_bound(e[2][1], d)
        return None if a is None or b is None else max(a, b)
    return None


def rule_AB(ctx, F):
    """adequacy of the internal size assertions of the tree recursion, for every SIMD degree the configuration can select:
    compress_chunks_parallel is handed up to simd_degree chunks (W1: the leaf case is input.len() <= simd_degree * CHUNK_LEN) and
    compress_parents_parallel up to 2 * max(simd_degree, 2) children (each half returns at most max(simd_degree, 2) chaining
    values; with degree 1 it returns 2, never 1).  An upper-bound assertion on those quantities that is tighter than that for some
    degree fires on ordinary input.  Bounds that cannot be evaluated are reported as not decided."""
    degs = sorted(_simd_degrees(F) | {1})
    req = {"compress_chunks_parallel": ("len(input)", lambda d: d * 1024), "compress_parents_parallel": ("children", lambda d: 2 * max(d, 2))}
    n = 0
    for fn, (what, need_) in sorted(req.items()):
        f = F.need_fn(fn)
        for bi, t in f.calls():
            cn = callee_name(t["callee"])
            if not ("panicking::panic" in cn or "assert_failed" in cn):
                continue
            gs = guards_at(f, bi)
            if not gs:
                continue
            c, tr = gs[-1]
            if not (isinstance(c, tuple) and c[0] == "bin" and c[1] in ("Le", "Lt") and tr is False):
                continue
            lhs = show(c[2])
            if not ("len(" in lhs and ("input" in lhs or "child" in lhs)):
                continue
            n += 1
            bad = []
            und = False
            for d in degs:
                b = _eval_bound(c[3], d)
                if b is None:
                    und = True
                    break
                lim = b if c[1] == "Le" else b - 1
                if lim < need_(d):
                    bad.append("degree %d: asserts %s <= %d, but up to %d arrive" % (d, what, lim, need_(d)))
            if und:
                ctx.info("assertion bound %s in %s is not evaluable; not decided" % (show(c[3])[:60], fn))
                ctx.ob(True, "assert-bound:%s:%s" % (fn, what), t.get("s", f.loc), "bound %s not evaluable; not decided" % show(c[3])[:60])
                continue
            ctx.ob(not bad, "assert-bound:%s:%s" % (fn, what), t.get("s", f.loc), "; ".join(bad) or "assert(%s <= %s) admits everything the recursion can pass for degrees %s" % (what, show(c[3])[:50], degs))
    ctx.floor("size assertions of the tree recursion", n, 2)
