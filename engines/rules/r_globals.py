"""G rules: statics inventory (G1), Send/Sync (G2), effect closure (G4), join ownership/contract (G3, G5)."""
import re
from mirlib import *

DETECT_STORAGE = re.compile(r"^platform::(avx512|avx2|sse41|sse2)_detected::has_\w+::STORAGE$")
DETECT_SCOPE = re.compile(r"^(<)?platform::(avx512|avx2|sse41|sse2)_detected(::|$)")
EXPECTED_STATICS = {"asm": 4, "pure": 3, "portable1": 0}
SHARED_STATE_CALLS = ("core::sync::atomic", "core::sync::", "core::thread", "core::cell::", "std::sys::thread_local",
                      "core::sync::mpsc", "parking_lot", "once_cell", "lazy_static")
KERNEL_MODULES = ("sse2::", "sse41::", "avx2::", "avx512::", "neon::")


def flavour(F):
    if F.cfg == "portable1":
        return "portable1"
    if F.cfg.startswith("pure"):
        return "pure"
    return "asm"


def rule_G1(ctx, F):
    st = F.statics
    want = EXPECTED_STATICS[flavour(F)]
    ctx.floor("statics in the crate (%s flavour)" % flavour(F), len(st), want)
    for s in st:
        is_cache = bool(DETECT_STORAGE.match(s["path"])) and norm_path(s["ty"]) in ("core::sync::atomic::Atomic<u8>", "core::sync::atomic::AtomicU8")
        ok = (not s["mut"]) and (not s["thread_local"]) and (s["freeze"] or is_cache)
        ctx.ob(ok, "static:%s" % s["path"], s["s"],
               "static %s: %s, mut=%s, interior-mutable=%s, thread_local=%s -- %s" %
               (s["path"], s["ty"], s["mut"], not s["freeze"], s["thread_local"],
                "idempotent CPU-feature cache" if is_cache and ok else "immutable data" if ok else
                "shared mutable state other than the feature-detection cache"))
    # unsafe impl Send / Sync, and negative impls
    n = 0
    for imp in F.impls:
        tr = norm_path(imp["trait"] or "")
        if tr in ("core::marker::Send", "core::marker::Sync"):
            n += 1
            ctx.ob(False, "manual-auto-trait:%s:%s" % (imp["self"], tr.split("::")[-1]), imp["s"],
                   "hand-written %simpl %s for %s: thread-safety no longer follows from the field types" %
                   ("unsafe " if imp.get("unsafe") else "", tr, imp["self"]))
    ctx.ob(n == 0, "no-manual-send-sync", "", "%d hand-written Send/Sync impl(s) in the crate" % n)


def rule_G2(ctx, F):
    for ty in ("Hasher", "OutputReader", "Hash", "Output", "ChunkState"):
        a = F.adts.get(ty)
        if a is None:
            raise MissingAnchor("type %s" % ty)
        ctx.ob(a.get("send") is True and a.get("sync") is True, "send-sync:%s" % ty, a["s"],
               "rustc's trait solver: %s: Send=%s Sync=%s" % (ty, a.get("send"), a.get("sync")))


def rule_G4(ctx, F):
    """no function of the crate touches shared mutable state, except the detection caches inside
    platform::*_detected; FFI calls go to the declared kernel symbols only"""
    nstatic = natomic = nffi = nbodies = 0
    for p, f in F.fns.items():
        if not f.has_body:
            continue
        nbodies += 1
        in_detect = bool(DETECT_SCOPE.match(p))
        statics_here = set()

        def visit(e):
            if e[0] == "static":
                statics_here.add(e[1])
        for bi, si, s in f.stmts():
            if s["k"] == "assign":
                walk_ops(s["rv"], lambda o: statics_here.add(o["static"]) if o.get("static") else None)
            elif s["k"] == "intrinsic":
                pass
        for bi, t in f.calls():
            for a in t["args"]:
                if a.get("static"):
                    statics_here.add(a["static"])
            c = t["callee"]
            name = norm_path(callee_name(c))
            if any(name.startswith(x) or ("<" + x) in name for x in SHARED_STATE_CALLS):
                natomic += 1
                ctx.ob(in_detect, "shared-state-call:%s:%s" % (p, name.split("::")[-1]), t.get("s"),
                       "%s calls %s %s" % (p, name, "(inside the CPU-feature detection cache)" if in_detect else
                                           "-- atomics/locks/thread state outside platform::*_detected"))
            if c.get("foreign"):
                nffi += 1
                sym = c["path"].split("::")[-1]
                ok = sym in F.foreign and any(p.startswith(m) for m in KERNEL_MODULES)
                ctx.ob(ok, "ffi-call:%s->%s" % (p, sym), t.get("s"),
                       "extern call to %s from %s %s" % (sym, p, "(declared kernel symbol in an ffi_* module)" if ok else
                                                         "-- not a declared kernel symbol / outside the kernel modules"))
        for sp in statics_here:
            nstatic += 1
            ok = in_detect and bool(DETECT_STORAGE.match(sp))
            ctx.ob(ok, "static-ref:%s:%s" % (p, sp), f.loc,
                   "%s references static %s %s" % (p, sp, "(detection cache)" if ok else "-- shared state reachable outside the detection modules"))
    fl = flavour(F)
    ctx.floor("function bodies scanned for shared state", nbodies, 150)
    ctx.floor("detection-cache static references", nstatic, {"asm": 4, "pure": 3, "portable1": 0}[fl])
    ctx.extra.setdefault("G4", {})[F.cfg] = dict(bodies=nbodies, static_refs=nstatic, shared_state_calls=natomic, ffi_calls=nffi)


def walk_ops(rv, f):
    for k in ("op", "a", "b"):
        o = rv.get(k)
        if isinstance(o, dict):
            f(o)
    for o in rv.get("ops", []) or []:
        f(o)
