"""Straight-line symbolic evaluation ("value numbering with inlining") of MIR bodies over a
hash-consed term algebra.  No branching is interpreted: a SwitchInt on a non-constant value makes
the evaluation fail closed.  Used by the R rules (round-function sibling agreement)."""
import re
from mirlib import *


class Terms:
    """hash-consed terms; add/xor are associative-commutative and flattened with sorted operands"""
    def __init__(self):
        self.tab = {}
        self.rev = []

    def mk(self, *t):
        i = self.tab.get(t)
        if i is None:
            i = len(self.rev)
            self.tab[t] = i
            self.rev.append(t)
        return i

    def sym(self, name):
        return self.mk("sym", name)

    def const(self, v):
        return self.mk("c", v)

    def is_const(self, i):
        return self.rev[i][0] == "c"

    def cval(self, i):
        t = self.rev[i]
        return t[1] if t[0] == "c" else None

    def ac(self, op, a, b, mod=1 << 32):
        items = []
        c = 0 if op in ("add", "xor") else None
        for x in (a, b):
            t = self.rev[x]
            if t[0] == op:
                for y in t[1]:
                    if self.rev[y][0] == "c":
                        c = (c + self.rev[y][1]) % mod if op == "add" else c ^ self.rev[y][1]
                    else:
                        items.append(y)
            elif t[0] == "c":
                c = (c + t[1]) % mod if op == "add" else c ^ t[1]
            else:
                items.append(x)
        if not items:
            return self.const(c)
        if c:
            items.append(self.const(c))
        items.sort()
        if len(items) == 1:
            return items[0]
        return self.mk(op, tuple(items))

    def add(self, a, b, mod=1 << 32):
        return self.ac("add", a, b, mod)

    def xor(self, a, b):
        return self.ac("xor", a, b)

    def rotr(self, n, x):
        n %= 32
        if n == 0:
            return x
        return self.mk("rotr", n, x)

    def bor(self, a, b):
        # or(x >> n, x << (32-n)) = rotr(n, x)
        ta, tb = self.rev[a], self.rev[b]
        for p, q in ((ta, tb), (tb, ta)):
            if p[0] == "shr" and q[0] == "shl" and p[2] == q[2] and p[1] + q[1] == 32:
                return self.rotr(p[1], p[2])
        return self.mk("or", tuple(sorted((a, b))))

    def show(self, i, depth=0):
        t = self.rev[i]
        if t[0] == "sym":
            return t[1]
        if t[0] == "c":
            return hex(t[1]) if t[1] > 9 else str(t[1])
        if depth > 4:
            return "..."
        if t[0] in ("add", "xor", "or"):
            return "(" + {"add": " + ", "xor": " ^ ", "or": " | "}[t[0]].join(self.show(x, depth + 1) for x in t[1]) + ")"
        if t[0] == "rotr":
            return "rotr%d(%s)" % (t[1], self.show(t[2], depth + 1))
        if t[0] in ("shr", "shl"):
            return "%s%d(%s)" % (t[0], t[1], self.show(t[2], depth + 1))
        return "%s(%s)" % (t[0], ", ".join(self.show(x, depth + 1) if isinstance(x, int) else str(x) for x in t[1:]))


class Cell:
    __slots__ = ("v",)

    def __init__(self, v=None):
        self.v = v


class Ptr:
    __slots__ = ("cell", "path")

    def __init__(self, cell, path=()):
        self.cell, self.path = cell, path


class SymFail(Exception):
    pass


def get_path(v, path):
    for i in path:
        if not isinstance(v, tuple) or i >= len(v):
            raise SymFail("index %s into %r" % (i, type(v)))
        v = v[i]
    return v


def set_path(v, path, nv):
    if not path:
        return nv
    if not isinstance(v, tuple):
        raise SymFail("write through index into non-aggregate")
    i = path[0]
    return v[:i] + (set_path(v[i], path[1:], nv),) + v[i + 1:]


def parse_array_type(ty):
    """'[[usize; 16]; 7]' -> ('arr', 7, ('arr', 16, ('int', 8)))"""
    ty = ty.strip().lstrip("&").strip()
    ty = re.sub(r"^'static ", "", ty)
    m = re.match(r"^\[(.*); (\d+)\]$", ty)
    if m:
        return ("arr", int(m.group(2)), parse_array_type(m.group(1)))
    sizes = {"u8": 1, "u16": 2, "u32": 4, "u64": 8, "usize": 8, "i32": 4, "i8": 1, "i64": 8}
    if ty in sizes:
        return ("int", sizes[ty])
    return None


def decode_const(T, sh, b, off=0):
    if sh[0] == "int":
        return T.const(int.from_bytes(b[off:off + sh[1]], "little")), off + sh[1]
    out = []
    for _ in range(sh[1]):
        v, off = decode_const(T, sh[2], b, off)
        out.append(v)
    return tuple(out), off


class SymExec:
    def __init__(self, F, T=None, overrides=None, max_depth=12):
        self.F = F
        self.T = T or Terms()
        self.overrides = overrides or {}
        self.max_depth = max_depth
        self.steps = 0

    # ---- intrinsic semantics (lane-wise ops are scalar ops on the lane)
    def intrinsic(self, name, gargs, args, raw_callee):
        T = self.T
        n = norm_path(name)
        base = n.rsplit("::", 1)[-1]
        if re.match(r"core::num::<impl u32>::wrapping_add$", n):
            return T.add(args[0], args[1])
        if re.match(r"core::num::<impl u32>::rotate_right$", n):
            k = T.cval(args[1])
            if k is None:
                raise SymFail("rotate_right by non-constant")
            return T.rotr(k, args[0])
        if base in ("_mm_add_epi32", "_mm256_add_epi32", "_mm512_add_epi32"):
            return T.add(args[0], args[1])
        if base in ("_mm_xor_si128", "_mm256_xor_si256", "_mm512_xor_si512"):
            return T.xor(args[0], args[1])
        if base in ("_mm_or_si128", "_mm256_or_si256", "_mm512_or_si512"):
            return T.bor(args[0], args[1])
        if base in ("_mm_srli_epi32", "_mm256_srli_epi32", "_mm_slli_epi32", "_mm256_slli_epi32"):
            imm = int(gargs[0]) if gargs and re.fullmatch(r"-?\d+", gargs[0]) else (T.cval(args[1]) if len(args) > 1 else None)
            if imm is None:
                raise SymFail("shift immediate of %s not constant" % base)
            return T.mk("shr" if "srli" in base else "shl", imm, args[0])
        if base in ("_mm_ror_epi32", "_mm256_ror_epi32", "_mm512_ror_epi32"):
            imm = int(gargs[0]) if gargs else T.cval(args[1])
            return T.rotr(imm, args[0])
        return None

    def call(self, name, gargs, args, depth, raw=None):
        if name in self.overrides:
            return self.overrides[name](self, args)
        r = self.intrinsic(name, gargs, args, raw)
        if r is not None:
            return r
        fn = self.F.fn(name)
        if fn is not None:
            if depth > self.max_depth:
                raise SymFail("inlining depth exceeded at %s" % name)
            return self.run(fn, args, depth + 1)
        # uninterpreted: structured term over scalar args (aggregates are not expected here)
        flat = []
        for a in args:
            if isinstance(a, int):
                flat.append(a)
            else:
                raise SymFail("uninterpreted call %s with aggregate/pointer argument" % name)
        return self.T.mk("call", norm_path(name), tuple(gargs or ()), tuple(flat))

    # ---- MIR interpretation
    def new_frame(self, fn, args):
        frame = [Cell() for _ in fn.locals]
        for i, a in enumerate(args):
            frame[i + 1].v = a
        return frame

    def run(self, fn, args, depth=0):
        return self.run_from(fn, self.new_frame(fn, args), 0, (), depth)

    def run_from(self, fn, frame, b, stops, depth=0):
        """straight-line evaluation from block b with a prepared frame; returns ('stop', block) when a block of `stops`
        is about to be entered (after at least one block ran), else the function's return value"""
        T = self.T
        seen = 0
        while True:
            if seen and b in stops:
                return ("stop", b)
            seen += 1
            self.steps += 1
            if seen > 20000 or self.steps > 400000:
                raise SymFail("evaluation budget exceeded in %s" % fn.path)
            blk = fn.blocks[b]
            for s in blk["stmts"]:
                if s["k"] == "assign":
                    v = self.rvalue(fn, frame, s["rv"], depth)
                    self.write(fn, frame, s["place"], v)
                elif s["k"] == "setdiscr":
                    raise SymFail("enum write")
            t = blk["term"]
            k = t["k"]
            if k == "goto":
                b = t["t"]
            elif k == "return":
                return frame[0].v
            elif k == "assert":
                b = t["t"]
            elif k == "drop":
                b = t["t"]
            elif k == "call":
                c = t["callee"]
                if c["k"] != "fn":
                    raise SymFail("indirect call in %s" % fn.path)
                name = c.get("resolved") or c["path"]
                argv = [self.operand(fn, frame, a) for a in t["args"]]
                gargs = c.get("rargs") if c.get("resolved") else c.get("args")
                r = self.call(name, gargs or [], argv, depth, c)
                self.write(fn, frame, t["dest"], r)
                if t.get("t") is None:
                    raise SymFail("diverging call %s" % name)
                b = t["t"]
            elif k == "switch":
                d = self.operand(fn, frame, t["op"])
                cv = T.cval(d) if isinstance(d, int) else None
                if cv is None:
                    raise SymFail("branch on a non-constant value in %s (block %d): not straight-line" % (fn.path, b))
                nb = t["otherwise"]
                for v, tgt in t["targets"]:
                    if v == cv:
                        nb = tgt
                b = nb
            else:
                raise SymFail("terminator %s in %s" % (k, fn.path))

    def lvalue(self, fn, frame, pl):
        cell, path = frame[pl["l"]], ()
        into_elem = False      # the pointer just dereferenced points INTO an array (to one element): indexing offsets it
        for p in pl["p"]:
            if into_elem and isinstance(p, dict) and ("idx" in p or "cidx" in p):
                if "idx" in p:
                    iv = frame[p["idx"]].v
                    ci = self.T.cval(iv) if isinstance(iv, int) else None
                    if ci is None:
                        raise SymFail("non-constant array index in %s" % fn.path)
                else:
                    ci = p["cidx"]
                path = path[:-1] + (path[-1] + ci,)
                into_elem = False
                continue
            into_elem = False
            if p == "deref":
                v = get_path(cell.v, path)
                if not isinstance(v, Ptr):
                    raise SymFail("deref of non-pointer in %s" % fn.path)
                cell, path = v.cell, v.path
                tgt = get_path(cell.v, path) if path else cell.v
                into_elem = bool(path) and not isinstance(tgt, tuple)
            elif isinstance(p, dict) and "f" in p:
                if not p["f"].isdigit():
                    raise SymFail("named field projection .%s" % p["f"])
                path = path + (int(p["f"]),)
            elif isinstance(p, dict) and "idx" in p:
                iv = frame[p["idx"]].v
                ci = self.T.cval(iv) if isinstance(iv, int) else None
                if ci is None:
                    raise SymFail("non-constant array index in %s" % fn.path)
                path = path + (ci,)
            elif isinstance(p, dict) and "cidx" in p:
                if p["from_end"]:
                    raise SymFail("from_end index")
                path = path + (p["cidx"],)
            elif isinstance(p, dict) and ("down" in p or "downcast" in p or "variant" in p):
                pass        # enum payloads are modelled as the tuple of the variant's fields
            else:
                raise SymFail("projection %s" % (p,))
        return cell, path

    def read(self, fn, frame, pl):
        cell, path = self.lvalue(fn, frame, pl)
        if cell.v is None:
            raise SymFail("read of uninitialised local _%d in %s" % (pl["l"], fn.path))
        return get_path(cell.v, path)

    def write(self, fn, frame, pl, v):
        cell, path = self.lvalue(fn, frame, pl)
        cell.v = set_path(cell.v, path, v) if path else v

    def operand(self, fn, frame, op):
        T = self.T
        k = op["k"]
        if k in ("copy", "move"):
            return self.read(fn, frame, op["place"])
        if k == "const":
            if "val" in op and op["val"] is not None:
                return T.const(op["val"])
            if "bytes" in op:
                sh = parse_array_type(op["ty"])
                if sh is not None:
                    v, _ = decode_const(T, sh, bytes(op["bytes"]))
                    if op["ty"].lstrip().startswith("&"):
                        return Ptr(Cell(v))
                    return v
                if op["ty"] == "()":
                    return ()
            if "fn" in op:
                return ("fnitem", op["fn"])
            raise SymFail("constant of type %s" % op["ty"])
        raise SymFail("operand %s" % k)

    def rvalue(self, fn, frame, rv, depth):
        T = self.T
        k = rv["k"]
        if k == "use":
            return self.operand(fn, frame, rv["op"])
        if k in ("ref", "rawptr"):
            cell, path = self.lvalue(fn, frame, rv["place"])
            return Ptr(cell, path)
        if k == "cast":
            v = self.operand(fn, frame, rv["op"])
            return v  # integer widenings / pointer casts do not change the lane value
        if k == "bin":
            a, b = self.operand(fn, frame, rv["a"]), self.operand(fn, frame, rv["b"])
            op = rv["op"]
            ov = op.endswith("WithOverflow")
            base = op.replace("WithOverflow", "").replace("Unchecked", "")
            ca, cb = (T.cval(a) if isinstance(a, int) else None), (T.cval(b) if isinstance(b, int) else None)
            if ca is not None and cb is not None:
                r = {"Add": ca + cb, "Sub": ca - cb, "Mul": ca * cb, "Shl": ca << cb, "Shr": ca >> cb, "BitOr": ca | cb, "BitAnd": ca & cb, "BitXor": ca ^ cb,
                     "Lt": int(ca < cb), "Le": int(ca <= cb), "Gt": int(ca > cb), "Ge": int(ca >= cb), "Eq": int(ca == cb), "Ne": int(ca != cb),
                     "Div": ca // cb if cb else 0, "Rem": ca % cb if cb else 0}.get(base)
                if r is None:
                    raise SymFail("constant op %s" % op)
                r = T.const(r)
                return (r, T.const(0)) if ov else r
            if base == "BitXor":
                r = T.xor(a, b)
            elif base == "Add":
                r = T.add(a, b)
            elif base in ("Lt", "Le", "Gt", "Ge") and (ca is not None or cb is not None):
                # bounds checks `idx < len` with symbolic side never occur on constant indexing
                raise SymFail("comparison on symbolic value")
            else:
                r = T.mk("bin", base, a, b)
            return (r, T.const(0)) if ov else r
        if k == "agg":
            ops = tuple(self.operand(fn, frame, o) for o in rv["ops"])
            return ops
        if k == "repeat":
            v = self.operand(fn, frame, rv["op"])
            n = rv["n"] if isinstance(rv["n"], int) else None
            if n is None:
                raise SymFail("repeat count")
            return tuple(v for _ in range(n))
        if k == "un":
            a = self.operand(fn, frame, rv["a"])
            if rv["op"] == "PtrMetadata":
                v = a
                if isinstance(v, Ptr):
                    tgt = get_path(v.cell.v, v.path)
                    if isinstance(tgt, tuple):
                        return T.const(len(tgt))
                raise SymFail("PtrMetadata of unknown")
            return T.mk("un", rv["op"], a)
        raise SymFail("rvalue %s" % k)
