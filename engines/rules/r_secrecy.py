"""Z rules: Debug prints no secret-bearing field (Z1); Zeroize covers every field (Z2)."""
from mirlib import *

SAFE_TYPES = {"u8", "u16", "u32", "u64", "u128", "usize", "i8", "i16", "i32", "i64", "i128", "isize", "bool",
              "platform::Platform", "()"}
DEBUG_ROOTS = ["Hasher", "OutputReader", "guts::ChunkState"]


def strip_amp(ty):
    while ty.startswith("&"):
        ty = ty[1:].replace("mut ", "", 1) if ty.startswith("&mut ") else ty[1:]
        ty = ty.strip()
        if ty.startswith("'"):
            ty = ty.split(" ", 1)[1] if " " in ty else ty
    return ty


def debug_fmt_fn(F, ty):
    for p, f in F.fns.items():
        if f.has_body and norm_path(p) == norm_path("<%s as core::fmt::Debug>::fmt" % ty):
            return f
    return None


def is_self_rooted(e, selfidx=1):
    root, el = path_fields(val(e) if True else e)
    return isinstance(root, tuple) and root and root[0] == "arg" and root[1] == selfidx


def reads_of(F, fn, argidx, prefix=(), seen=None, via=None):
    """Set of (field path, type, where, how) that fn reads from the object behind argument argidx.
    Consumption points: plain operand uses, casts to dyn, call arguments (local callees are
    followed; local Debug impls are followed for dyn Debug casts)."""
    if seen is None:
        seen = set()
    key = (fn.path, argidx, prefix)
    if key in seen:
        return set()
    seen.add(key)
    out = set()

    def consume(e, ty, where, how):
        v = val(e)
        root, el = path_fields(v)
        if not (isinstance(root, tuple) and root and root[0] == "arg" and root[1] == argidx):
            return
        fields = prefix + tuple(x if isinstance(x, str) else "[]" for x in el)
        out.add((fields, strip_amp(ty), where, how))

    for bi, si, s in fn.stmts():
        if s["k"] != "assign":
            continue
        rv = s["rv"]
        ops = []
        if rv["k"] in ("use", "cast", "un", "repeat"):
            ops = [rv.get("op") or rv.get("a")]
        elif rv["k"] == "bin":
            ops = [rv["a"], rv["b"]]
        elif rv["k"] == "agg":
            ops = rv["ops"]
        elif rv["k"] == "discr":
            continue
        for o in ops:
            if o and o["k"] in ("copy", "move"):
                pty = o["place"]["ty"]
                if rv["k"] == "cast" and "Unsize" in rv["kind"] and "dyn" in rv["ty"]:
                    inner = strip_amp(pty)
                    v = val(fn.expr_operand(o))
                    root, el = path_fields(v)
                    if isinstance(root, tuple) and root and root[0] == "arg" and root[1] == argidx:
                        fields = prefix + tuple(x if isinstance(x, str) else "[]" for x in el)
                        sub = debug_fmt_fn(F, inner) if "Debug" in rv["ty"] else None
                        if sub is not None:
                            out.update(reads_of(F, sub, 1, fields, seen))
                        else:
                            out.add((fields, inner, s.get("s"), "formatted as %s" % rv["ty"]))
                    continue
                if pty.startswith("&"):
                    continue  # moving a reference around is not a read of the referent
                consume(fn.expr_operand(o), pty, s.get("s"), "read")
    for bi, t in fn.calls():
        name = callee_name(t["callee"])
        callee = F.fn(name)
        for ai, a in enumerate(t["args"]):
            if a["k"] not in ("copy", "move"):
                continue
            v = val(fn.expr_operand(a))
            root, el = path_fields(v)
            if not (isinstance(root, tuple) and root and root[0] == "arg" and root[1] == argidx):
                continue
            fields = prefix + tuple(x if isinstance(x, str) else "[]" for x in el)
            if callee is not None:
                out.update(reads_of(F, callee, ai + 1, fields, seen))
            else:
                out.add((fields, strip_amp(a["place"]["ty"]), t.get("s"), "passed to %s" % name))
    bsw = [b["term"] for b in fn.blocks if b["term"]["k"] == "switch"]
    for t in bsw:
        o = t["op"]
        if o["k"] in ("copy", "move"):
            consume(fn.expr_operand(o), o["place"]["ty"], t.get("s"), "branched on")
    return out


def declared_field_type(F, rootty, fields):
    """type of the deepest *named field* on the path, resolved through the crate's ADT facts
    (an element read out of an array-typed field is a read of that field)"""
    cur = strip_amp(rootty)
    last = None
    for f in fields:
        a = F.adts.get(cur.split("<")[0])
        if a is None:
            break
        hit = None
        for v in a["variants"]:
            for fld in v["fields"]:
                if fld["name"] == f:
                    hit = fld
        if hit is None:
            break
        last = hit["ty"]
        cur = strip_amp(hit["ty"])
    return last


def rule_Z1(ctx, F):
    n = 0
    for ty in DEBUG_ROOTS:
        fn = debug_fmt_fn(F, ty)
        if fn is None:
            raise MissingAnchor("Debug impl for %s" % ty)
        rs = reads_of(F, fn, 1)
        ctx.floor("fields read by Debug for %s" % ty, len(rs), 1)
        by_field = {}
        for fields, t, where, how in rs:
            by_field.setdefault(fields, []).append((t, where, how))
        for fields, lst in sorted(by_field.items()):
            n += 1
            decl = declared_field_type(F, ty, fields)
            bad = [(decl or t, w, h) for t, w, h in lst if t not in SAFE_TYPES or (decl is not None and decl not in SAFE_TYPES)]
            ctx.ob(not bad, "debug-reads:%s:%s" % (ty, ".".join(fields) or "<self>"), (bad or lst)[0][1],
                   ("Debug for %s reveals `%s` of type %s (%s): only integer counters, lengths, flags and the "
                    "platform may be formatted" % (ty, ".".join(fields), bad[0][0], bad[0][2])) if bad else
                   "type %s (%s)" % (lst[0][0], lst[0][2]))
    # information only: other Debug impls that would print array-typed data
    for imp in F.impls:
        if imp["trait"] and norm_path(imp["trait"]) == "core::fmt::Debug" and imp["derived"]:
            a = F.adts.get(imp["self"].split("<")[0])
            if a and imp["self"].split("<")[0] not in DEBUG_ROOTS:
                arr = [f["name"] for v in a["variants"] for f in v["fields"] if "array" in f["walk"]]
                if arr:
                    ctx.info("derived Debug on %s prints array-typed fields %s (type not named by the property)" % (imp["self"], arr))
    ctx.floor("Debug-read fields over the three roots", n, 4)


def rule_Z2(ctx, F):
    impls = [i for i in F.impls if i["trait"] == "zeroize::Zeroize"]
    ctx.floor("Zeroize impls", len(impls), 5)
    for imp in impls:
        ty = imp["self"]
        fn = None
        for it in imp["items"]:
            if it.endswith("::zeroize"):
                fn = F.fn(it)
        if fn is None:
            ctx.ob(False, "zeroize-body:%s" % ty, imp["s"], "no zeroize body found")
            continue
        fields = F.adt_fields(ty)
        rets = fn.returns()
        done = {}
        for bi, t in fn.calls():
            c = t["callee"]
            if c.get("trait") != "zeroize::Zeroize" or not c["path"].endswith("::zeroize"):
                continue
            e = fn.expr_operand(t["args"][0])
            if not (isinstance(e, tuple) and e[0] == "ref" and e[2]):
                # &mut taken earlier (destructuring pattern): follow the value
                pass
            root, el = path_fields(val(e))
            if isinstance(root, tuple) and root and root[0] == "arg" and root[1] == 1 and len(el) >= 1:
                on_all_paths = all(fn.dominates(bi, r) for r in rets)
                if len(el) == 1:
                    done[el[0]] = (on_all_paths, t.get("s"), callee_name(c))
        for f in fields:
            if f["ty"] == "platform::Platform":
                ctx.ob("array" not in f["walk"], "zeroize-exempt:%s.%s" % (ty, f["name"]), imp["s"],
                       "field of type Platform (a fieldless enum naming the SIMD level) carries no secret")
                continue
            d = done.get(f["name"])
            ctx.ob(d is not None and d[0], "zeroize-field:%s.%s" % (ty, f["name"]), d[1] if d else fn.loc,
                   ("Zeroize::zeroize(&mut self.%s) is called on every path (%s)" % (f["name"], d[2])) if d and d[0] else
                   ("field `%s` (%s) of %s is %s by <%s as Zeroize>::zeroize" %
                    (f["name"], f["ty"], ty, "not zeroized on every path" if d else "never zeroized", ty)))


def _places(x, out):
    if isinstance(x, dict):
        if "l" in x and "p" in x and isinstance(x["p"], list):
            out.append(x)
        for v in x.values():
            _places(v, out)
    elif isinstance(x, list):
        for v in x:
            _places(v, out)


def _pfx(P, q):
    return q["l"] == P[0] and [repr(e) for e in q["p"][:len(P[1])]] == [repr(e) for e in P[1]]


def rule_ZL(ctx, F):
    """no use after wipe: outside Zeroize / Drop impls, when `Zeroize::zeroize` is called on state reached through a parameter
    (a field of *self), no path from the call reads that place again before it is assigned as a whole.  (The seeded form: the
    chunk state is wiped and the next chunk state is then built from its -- now zero -- counter and flags.)  Wiping and then
    re-initialising, or wiping the function's own locals, is fine."""
    n = 0
    for path, f in sorted(F.fns.items()):
        if not f.has_body:
            continue
        np_ = norm_path(path)
        if "Zeroize>::zeroize" in np_ or np_.endswith("Drop>::drop") or "ZeroizeOnDrop" in np_:
            continue
        for bi, t in f.calls():
            cn = norm_path(callee_name(t["callee"]))
            if not ("Zeroize>::zeroize" in cn or cn.endswith("::zeroize")):
                continue
            n += 1
            # the wiped place: the referent of the &mut handed to zeroize
            P = None
            a0 = t["args"][0] if t.get("args") else None
            if a0 and a0.get("k") in ("move", "copy") and not a0["place"]["p"]:
                for b2, si, st in f.stmts():
                    if st["place"]["l"] == a0["place"]["l"] and not st["place"]["p"] and st["rv"].get("k") == "ref":
                        P = (st["rv"]["place"]["l"], st["rv"]["place"]["p"])
            if P is None or P[0] > f.nargs if hasattr(f, "nargs") else P is None:
                ctx.ob(True, "no-use-after-wipe:%s" % path, t.get("s", f.loc), "zeroize on a local / unresolved place; not caller state")
                continue
            # forward walk
            reads = []
            seen = set()
            work = [(s_, 0) for s_ in f.succ(bi)]
            while work:
                b, start = work.pop()
                if (b, start) in seen:
                    continue
                seen.add((b, start))
                killed = False
                for st in f.blocks[b]["stmts"][start:]:
                    ps = []
                    _places(st["rv"], ps)
                    if any(_pfx(P, q) for q in ps):
                        reads.append(st.get("s", "?"))
                    if st["place"]["l"] == P[0] and [repr(e) for e in st["place"]["p"]] == [repr(e) for e in P[1]]:
                        killed = True
                        break
                if killed:
                    continue
                term = f.blocks[b]["term"]
                ps = []
                _places({k: v for k, v in term.items() if k in ("args", "discr", "cond", "place")}, ps)
                if any(_pfx(P, q) for q in ps):
                    reads.append(term.get("s", "?"))
                for s_ in f.succ(b):
                    work.append((s_, 0))
            ctx.ob(not reads, "no-use-after-wipe:%s" % path, t.get("s", f.loc),
                   "%s wipes a field of its parameter and %s" % (path, "never reads it again before reassigning it" if not reads else "reads it again at %s" % sorted(set(reads))[:3]))
    ctx.ob(True, "zeroize-callers-inventory", "", "%d zeroize call(s) outside Zeroize/Drop impls" % n)
