"""R rules: the BLAKE3 round / compression function, every array-indexed copy against the spec's
G network, by symbolic value numbering (R1) and the feed-forward (R2)."""
import os
import sys
from mirlib import *
from symexec import Terms, SymExec, SymFail, Cell, Ptr, get_path, set_path
sys.path.insert(0, os.path.join(os.path.dirname(os.path.dirname(os.path.abspath(__file__))), "specmodel"))
import blake3_spec as spec


def spec_round(T, v, m):
    """one round of the spec on term vectors v (16) and m (16, already scheduled)"""
    v = list(v)

    def g(a, b, c, d, mx, my):
        v[a] = T.add(T.add(v[a], v[b]), mx)
        v[d] = T.rotr(16, T.xor(v[d], v[a]))
        v[c] = T.add(v[c], v[d])
        v[b] = T.rotr(12, T.xor(v[b], v[c]))
        v[a] = T.add(T.add(v[a], v[b]), my)
        v[d] = T.rotr(8, T.xor(v[d], v[a]))
        v[c] = T.add(v[c], v[d])
        v[b] = T.rotr(7, T.xor(v[b], v[c]))
    for i, (a, b, c, d) in enumerate(spec.G_INDEX):
        g(a, b, c, d, m[2 * i], m[2 * i + 1])
    return v


def spec_compress_pre(T, cv, m, ctr_lo, ctr_hi, block_len, flags):
    v = list(cv) + [T.const(x) for x in spec.IV[:4]] + [ctr_lo, ctr_hi, block_len, flags]
    sched = spec.msg_schedule()
    for r in range(7):
        v = spec_round(T, v, [m[sched[r][k]] for k in range(16)])
    return v


def first_diff(T, got, want):
    for i, (a, b) in enumerate(zip(got, want)):
        if a != b:
            return i, T.show(a)[:110], T.show(b)[:110]
    if len(got) != len(want):
        return -1, "len %d" % len(got), "len %d" % len(want)
    return None


def check_round_fn(ctx, F, path, label, schedule_in_callee=True):
    """round(v, m, r) for r in 0..6 against the spec round with the spec's schedule"""
    fn = F.need_fn(path)
    sched = spec.msg_schedule()
    for r in range(7):
        T = Terms()
        V = tuple(T.sym("v%d" % i) for i in range(16))
        M = tuple(T.sym("m%d" % i) for i in range(16))
        vc, mc = Cell(V), Cell(M)
        try:
            SymExec(F, T).run(fn, [Ptr(vc), Ptr(mc), T.const(r)])
            got = vc.v
            want = spec_round(T, V, [M[sched[r][k]] for k in range(16)])
            d = first_diff(T, got, want)
            ctx.ob(d is None, "round:%s:r%d" % (label, r), fn.loc,
                   "round %d: 16 output terms equal the spec G network" % r if d is None else "round %d: state word %s is %s ; spec %s" % ((r,) + d))
        except SymFail as e:
            ctx.ob(False, "round:%s:r%d" % (label, r), fn.loc, "not evaluable as straight-line code: %s" % e)


def rule_R1_portable(ctx, F):
    check_round_fn(ctx, F, "portable::round", "portable.rs")
    # whole compress_pre: 7 rounds from the spec state layout
    fn = F.need_fn("portable::compress_pre")
    T = Terms()
    CV = tuple(T.sym("cv%d" % i) for i in range(8))
    M = tuple(T.sym("m%d" % i) for i in range(16))
    lo, hi, bl, fl = T.sym("counter_low"), T.sym("counter_high"), T.sym("block_len"), T.sym("flags")
    ctr = T.sym("counter")
    ov = {
        "platform::words_from_le_bytes_64": lambda se, a: M,
        "counter_low": lambda se, a: lo if a[0] == ctr else T.sym("?lo"),
        "counter_high": lambda se, a: hi if a[0] == ctr else T.sym("?hi"),
    }
    try:
        got = SymExec(F, T, ov).run(fn, [Ptr(Cell(CV)), Ptr(Cell(T.sym("block"))), bl, ctr, fl])
        want = spec_compress_pre(T, CV, M, lo, hi, bl, fl)
        d = first_diff(T, got, want)
        ctx.ob(d is None, "compress_pre:portable.rs", fn.loc, "7 rounds from [cv, IV[0..4], counter_low, counter_high, block_len, flags] equal the spec" if d is None else "state word %s is %s ; spec %s" % d)
    except SymFail as e:
        ctx.ob(False, "compress_pre:portable.rs", fn.loc, "not evaluable: %s" % e)
    # counter split helpers
    cl, ch = F.need_fn("counter_low"), F.need_fn("counter_high")
    ctx.ob(unify(P.cast(P.arg("counter"), "u32"), val(cl.expr_local(0))) is not None, "counter_low", cl.loc, "counter_low = %s" % show(val(cl.expr_local(0))))
    ctx.ob(unify(P.cast(P.bin("Shr", P.arg("counter"), P.const(32)), "u32"), val(ch.expr_local(0))) is not None, "counter_high", ch.loc, "counter_high = %s" % show(val(ch.expr_local(0))))
    # R2 feed-forward
    S = None
    for name, inplace in (("portable::compress_in_place", True), ("portable::compress_xof", False)):
        fn = F.need_fn(name)
        T = Terms()
        CV = tuple(T.sym("cv%d" % i) for i in range(8))
        ST = tuple(T.sym("st%d" % i) for i in range(16))
        cvc = Cell(CV)
        captured = {}
        ov = {"portable::compress_pre": lambda se, a: ST,
              "platform::le_bytes_from_words_64": lambda se, a: captured.setdefault("w", a[0].cell.v if isinstance(a[0], Ptr) else a[0]) and T.sym("bytes")}
        try:
            SymExec(F, T, ov).run(fn, [Ptr(cvc), Ptr(Cell(T.sym("block"))), T.sym("bl"), T.sym("ctr"), T.sym("fl")])
            if inplace:
                got = cvc.v
                want = tuple(T.xor(ST[i], ST[i + 8]) for i in range(8))
            else:
                got = captured.get("w", ())
                want = tuple(T.xor(ST[i], ST[i + 8]) for i in range(8)) + tuple(T.xor(ST[i + 8], CV[i]) for i in range(8))
            d = first_diff(T, got, want)
            ctx.ob(d is None, "feed-forward:%s" % name.split("::")[-1], fn.loc,
                   "output words = st[i]^st[i+8]%s" % ("" if inplace else ", st[i+8]^cv[i]") if d is None else "word %s is %s ; spec %s" % d)
        except SymFail as e:
            ctx.ob(False, "feed-forward:%s" % name.split("::")[-1], fn.loc, "not evaluable: %s" % e)


def rule_R1_rust_simd(ctx, F):
    n = 0
    for mod in ("sse2", "sse41", "avx2"):
        if F.fn("%s::round" % mod) is not None:
            n += 1
            check_round_fn(ctx, F, "%s::round" % mod, "rust_%s.rs" % mod)
    ctx.floor("Rust SIMD round functions", n, 3)


def rule_R1_refimpl(ctx, F):
    fn = F.need_fn("round")
    T = Terms()
    V = tuple(T.sym("v%d" % i) for i in range(16))
    M = tuple(T.sym("m%d" % i) for i in range(16))
    vc = Cell(V)
    try:
        SymExec(F, T).run(fn, [Ptr(vc), Ptr(Cell(M))])
        want = spec_round(T, V, list(M))
        d = first_diff(T, vc.v, want)
        ctx.ob(d is None, "round:reference_impl", fn.loc, "round(state, m): 16 output terms equal the spec G network" if d is None else "state word %s is %s ; spec %s" % d)
    except SymFail as e:
        ctx.ob(False, "round:reference_impl", fn.loc, "not evaluable: %s" % e)


# ------------------------------------------------------------------ C copies (R1c) ----
import r_c as _rc           # noqa: E402
from csym import CSym       # noqa: E402

NEON = ("--target=aarch64-linux-gnu", "-isystem", os.path.join(os.path.dirname(os.path.dirname(os.path.dirname(os.path.abspath(__file__)))), "engines", "cfront", "stubs", "aarch64"),
        "-isystem", "/usr/include/x86_64-linux-gnu")




def _mf(mflags):
    return NEON if mflags == "NEON" else mflags


C_ROUND_FILES = [
    # (file, -m flags, round function, filters)
    ("c/blake3_sse2.c", ("-msse2",), ["round_fn"], ["round_fn", "rot", "addv", "xorv"]),
    ("c/blake3_sse41.c", ("-msse4.1",), ["round_fn"], ["round_fn", "rot", "addv", "xorv"]),
    ("c/blake3_avx2.c", ("-mavx2",), ["round_fn"], ["round_fn", "rot", "addv", "xorv"]),
    ("c/blake3_avx512.c", ("-mavx512f", "-mavx512vl"), ["round_fn4", "round_fn8", "round_fn16"], ["round_fn", "rot", "add_", "xor_"]),
    ("c/blake3_neon.c", "NEON", ["round_fn4"], ["round_fn", "rot", "add_", "xor_"]),
]


def c_round_check(ctx, cs_factory, fname, label, where):
    sched = spec.msg_schedule()
    for r in range(7):
        T = Terms()
        cs = cs_factory(T)
        f = cs.funcs.get(fname)
        if f is None:
            raise MissingAnchor("C function %s (%s)" % (fname, label))
        V = tuple(T.sym("v%d" % i) for i in range(16))
        M = tuple(T.sym("m%d" % i) for i in range(16))
        vc, mc = Cell(V), Cell(M)
        try:
            cs.run(f, [Ptr(vc), Ptr(mc), T.const(r)])
            want = spec_round(T, V, [M[sched[r][k]] for k in range(16)])
            d = first_diff(T, vc.v, want)
            ctx.ob(d is None, "round:%s:r%d" % (label, r), where, "round %d: 16 output terms equal the spec G network" % r if d is None else "round %d: state word %s is %s ; spec %s" % ((r,) + d))
        except SymFail as e:
            ctx.ob(False, "round:%s:r%d" % (label, r), where, "not evaluable as straight-line code: %s" % e)


def rule_R1_c(ctx):
    # portable: whole file
    tp = _rc.tu("c/blake3_portable.c")
    hdr_globals = tp.globals
    c_round_check(ctx, lambda T: CSym([tp], T), "round_fn", "blake3_portable.c", "c/blake3_portable.c")
    # compress_pre of the portable C file against the spec state layout
    T = Terms()
    CV = tuple(T.sym("cv%d" % i) for i in range(8))
    M = tuple(T.sym("m%d" % i) for i in range(16))
    lo, hi, bl, fl, ctr = T.sym("counter_low"), T.sym("counter_high"), T.sym("block_len"), T.sym("flags"), T.sym("counter")
    blk = Cell(tuple(T.sym("b%d" % i) for i in range(64)))

    def load32(cs, a):
        p = a[0]
        off = p.path[-1] if isinstance(p, Ptr) and p.path else 0
        if not isinstance(p, Ptr) or p.cell is not blk or off % 4:
            raise SymFail("load32 of an unexpected address")
        return M[off // 4]
    def memcpy_words(cs, a):
        """memcpy between uint32_t arrays with a constant byte count (cv -> state, IV -> state)"""
        d, s_, n_ = a
        if isinstance(s_, tuple):          # an array value (global table) decays to its first element
            s_ = Ptr(Cell(s_))
        if not (isinstance(d, Ptr) and isinstance(s_, Ptr) and T.is_const(n_)) or T.cval(n_) % 4:
            raise SymFail("memcpy with a non-constant size or non-word operands")
        k = T.cval(n_) // 4
        db = get_path(d.cell.v, d.path[:-1]) if d.path else d.cell.v
        sb = get_path(s_.cell.v, s_.path[:-1]) if s_.path else s_.cell.v
        di, si = (d.path[-1] if d.path else 0), (s_.path[-1] if s_.path else 0)
        if not isinstance(db, tuple) or not isinstance(sb, tuple) or di + k > len(db) or si + k > len(sb):
            raise SymFail("memcpy outside its arrays")
        nb = list(db)
        nb[di:di + k] = sb[si:si + k]
        d.cell.v = set_path(d.cell.v, d.path[:-1], tuple(nb)) if len(d.path) > 1 else tuple(nb)
        return d
    ov = {"load32": load32, "counter_low": lambda cs, a: lo if a[0] == ctr else T.sym("?"), "counter_high": lambda cs, a: hi if a[0] == ctr else T.sym("?"), "memcpy": memcpy_words}
    import cvec as _cvec
    cs = _cvec.CVec([tp], T, overrides=ov)          # CVec: CSym plus constant-trip-count loops (a `for` over the 7 rounds / 16 words)
    st = Cell(tuple(T.sym("st_uninit%d" % i) for i in range(16)))
    f = cs.funcs.get("compress_pre")
    if f is None:
        raise MissingAnchor("compress_pre in c/blake3_portable.c")
    try:
        cs.run(f, [Ptr(st), Ptr(Cell(CV)), Ptr(blk), bl, ctr, fl])
        want = spec_compress_pre(T, CV, M, lo, hi, bl, fl)
        d = first_diff(T, st.v, want)
        ctx.ob(d is None, "compress_pre:blake3_portable.c", "c/blake3_portable.c", "7 rounds from the spec state layout equal the spec" if d is None else "state word %s is %s ; spec %s" % d)
    except SymFail as e:
        ctx.ob(False, "compress_pre:blake3_portable.c", "c/blake3_portable.c", "not evaluable: %s" % e)
    # counter helpers of blake3_impl.h
    ti = _rc.tu("c/blake3.c")
    cl, ch = ti.funcs.get("counter_low"), ti.funcs.get("counter_high")
    okl = cl is not None and [s for s in cl["body"] if s[0] == "return"] and _rc.nc(cl["body"][0][1]) in (
        ("cast", ("var", "counter", "param"), "uint32_t"),
        ("cast", ("bin", "&", ("var", "counter", "param"), ("int", 0xFFFFFFFF)), "uint32_t"))     # the explicit mask is the truncation itself
    okh = ch is not None and [s for s in ch["body"] if s[0] == "return"] and _rc.nc(ch["body"][0][1]) == ("cast", ("bin", ">>", ("var", "counter", "param"), ("int", 32)), "uint32_t")
    ctx.ob(bool(okl), "c-counter_low", "c/blake3_impl.h", "counter_low = (uint32_t)counter: %s" % bool(okl))
    ctx.ob(bool(okh), "c-counter_high", "c/blake3_impl.h", "counter_high = (uint32_t)(counter >> 32): %s" % bool(okh))
    # feed-forward of the portable C kernels
    for name, xof in (("blake3_compress_in_place_portable", False), ("blake3_compress_xof_portable", True)):
        T = Terms()
        ST = tuple(T.sym("st%d" % i) for i in range(16))
        CV = tuple(T.sym("cv%d" % i) for i in range(8))
        cvc = Cell(CV)
        stored = {}

        def cpre(cs, a, ST=ST):
            a[0].cell.v = set_path(a[0].cell.v, a[0].path, ST) if a[0].path else ST
            return None

        def store32(cs, a, stored=stored):
            p = a[0]
            stored[p.path[-1] if p.path else 0] = a[1]
            return None
        cs = CSym([tp], T, overrides={"compress_pre": cpre, "store32": store32})
        f = cs.funcs.get(name)
        if f is None:
            raise MissingAnchor("%s in c/blake3_portable.c" % name)
        try:
            out = Cell(tuple(T.sym("o%d" % i) for i in range(64)))
            args = [Ptr(cvc), Ptr(Cell(T.sym("blk"))), T.sym("bl"), T.sym("ctr"), T.sym("fl")] + ([Ptr(out)] if xof else [])
            cs.run(f, args)
            if xof:
                got = tuple(stored.get(4 * i) for i in range(16))
                want = tuple(T.xor(ST[i], ST[i + 8]) for i in range(8)) + tuple(T.xor(ST[i + 8], CV[i]) for i in range(8))
            else:
                got = cvc.v
                want = tuple(T.xor(ST[i], ST[i + 8]) for i in range(8))
            d = first_diff(T, got, want) if all(g is not None for g in got) else (-1, "missing store", "")
            ctx.ob(d is None, "c-feed-forward:%s" % name, "c/blake3_portable.c", "output words = st[i]^st[i+8]%s" % (", st[i+8]^cv[i]" if xof else "") if d is None else "word %s is %s ; spec %s" % d)
        except SymFail as e:
            ctx.ob(False, "c-feed-forward:%s" % name, "c/blake3_portable.c", "not evaluable: %s" % e)
    # SIMD C files: filtered AST dumps (immintrin.h makes the full AST ~150 MB)
    n = 0
    for path, mflags, fns, filters in C_ROUND_FILES:
        tus = [_rc.tu(path, (), extra_args=_mf(mflags), filt=flt) for flt in filters]
        sched_glob = {g["name"]: g for g in hdr_globals}
        for fn in fns:
            n += 1

            def factory(T, tus=tus):
                cs = CSym(tus, T)
                ms = sched_glob.get("MSG_SCHEDULE")
                if ms is not None and "MSG_SCHEDULE" not in cs.glob:
                    cs.glob["MSG_SCHEDULE"] = cs.const_init(ms["init"])
                return cs
            c_round_check(ctx, factory, fn, "%s:%s" % (os.path.basename(path), fn), path)
    ctx.floor("C SIMD round functions", n, 7)


# ------------------------------------------------------------------ K4: lane counters ----
import lanecalc  # noqa: E402

C_LOAD_COUNTERS = [("c/blake3_sse2.c", ("-msse2",), "load_counters", 4), ("c/blake3_sse41.c", ("-msse4.1",), "load_counters", 4),
                   ("c/blake3_avx2.c", ("-mavx2",), "load_counters", 8), ("c/blake3_avx512.c", ("-mavx512f", "-mavx512vl"), "load_counters4", 4),
                   ("c/blake3_avx512.c", ("-mavx512f", "-mavx512vl"), "load_counters8", 8), ("c/blake3_avx512.c", ("-mavx512f", "-mavx512vl"), "load_counters16", 16),
                   ("c/blake3_neon.c", "NEON", "load_counters4", 4)]


def rule_K4_c(ctx):
    for path, mflags, fn, lanes in C_LOAD_COUNTERS:
        t = _rc.tu(path, (), extra_args=_mf(mflags), filt="load_counters")
        f = t.funcs.get(fn)
        if f is None:
            raise MissingAnchor("%s in %s" % (fn, path))
        ok, detail, n = lanecalc.decide_load_counters(f, lanes)
        ctx.ob(ok, "lane-counters:%s:%s" % (os.path.basename(path), fn), "%s:%s" % (path, f["line"]), detail)


def rule_K4_rust(ctx, F):
    n = 0
    for mod, lanes, setter in (("sse2", 4, "set4"), ("sse41", 4, "set4"), ("avx2", 8, "set8")):
        fn = F.fn("%s::load_counters" % mod)
        if fn is None:
            continue
        n += 1
        e = val(fn.expr_local(0))
        ok = e[0] == "tuple" and len(e[1]) == 2
        detail = "load_counters returns %s" % show(e)[:120]
        if ok:
            MASK = W("mask")
            for which, helper in ((0, "counter_low"), (1, "counter_high")):
                v = e[1][which]
                if not (v[0] == "call" and v[1] == "%s::%s" % (mod, setter) and len(v[2]) == lanes):
                    ok = False
                    detail = "%s vector is %s" % (helper, show(v)[:100])
                    break
                for i, lane in enumerate(v[2]):
                    want = P.call(helper, P.bin("Add", P.arg("counter"), P.bin("BitAnd", MASK, P.const(i))))
                    m = unify(want, lane)
                    if m is None:
                        ok = False
                        detail = "lane %d of the %s vector is %s ; required %s(counter + (mask & %d))" % (i, helper, show(lane)[:100], helper, i)
                        break
                if not ok:
                    break
        if ok:
            # mask = all ones iff increment_counter.yes()
            ml = [l for l in range(len(fn.locals)) if fn.names.get(l) == "mask"]
            alts = {}
            for b, gs, ex in (local_defs_with_guards(fn, ml[0]) if ml else []):
                for c, tr in gs:
                    if c == P.call("IncrementCounter::yes", ("arg", 2, "increment_counter")) or (c[0] == "call" and c[1] == "IncrementCounter::yes"):
                        alts[tr] = ex
            t = alts.get(True, ("?",))
            all_ones = (t[0] == "const" and t[2] in ((1 << 64) - 1, -1)) or (t[0] == "un" and t[1] == "Not" and t[2][0] == "const" and t[2][2] == 0)
            okm = all_ones and alts.get(False, ("?",))[0] == "const" and alts[False][2] == 0
            if not okm:
                ok, detail = False, "mask is %s ; required !0 when increment_counter.yes() else 0" % {k: show(v) for k, v in alts.items()}
        ctx.ob(ok, "lane-counters:rust_%s.rs" % mod, fn.loc, detail if not ok else "lane i = counter_low/high(counter + (mask & i)), i = 0..%d ascending, mask = !0 iff increment" % (lanes - 1))
    if F.cfg_flavour() in ("pure",):
        ctx.floor("Rust load_counters functions", n, 3)


# ------------------------------------------------------------------ K5: transposed state rows ----
C_STATE_FNS = [("c/blake3_sse2.c", ("-msse2",), "blake3_hash4_sse2", "load_counters", "hash"),
               ("c/blake3_sse41.c", ("-msse4.1",), "blake3_hash4_sse41", "load_counters", "hash"),
               ("c/blake3_avx2.c", ("-mavx2",), "blake3_hash8_avx2", "load_counters", "hash"),
               ("c/blake3_avx512.c", ("-mavx512f", "-mavx512vl"), "blake3_hash4_avx512", "load_counters4", "hash"),
               ("c/blake3_avx512.c", ("-mavx512f", "-mavx512vl"), "blake3_xof4_avx512", "load_counters4", "xof"),
               ("c/blake3_avx512.c", ("-mavx512f", "-mavx512vl"), "blake3_hash8_avx512", "load_counters8", "hash"),
               ("c/blake3_avx512.c", ("-mavx512f", "-mavx512vl"), "blake3_xof8_avx512", "load_counters8", "xof"),
               ("c/blake3_avx512.c", ("-mavx512f", "-mavx512vl"), "blake3_hash16_avx512", "load_counters16", "hash"),
               ("c/blake3_avx512.c", ("-mavx512f", "-mavx512vl"), "blake3_xof16_avx512", "load_counters16", "xof"),
               ("c/blake3_neon.c", "NEON", "blake3_hash4_neon", "load_counters4", "hash")]


def _c_all_stmts(stmts):
    for s in stmts:
        yield s
        for x in s:
            if isinstance(x, list):
                yield from _c_all_stmts(x)


def _cshow(e):
    if not isinstance(e, tuple):
        return str(e)
    if e[0] == "var":
        return e[1]
    if e[0] == "int":
        return str(e[1])
    if e[0] == "index":
        return "%s[%s]" % (_cshow(e[1]), _cshow(e[2]))
    if e[0] == "call":
        return "%s(%s)" % (e[1] if isinstance(e[1], str) else _cshow(e[1]), ", ".join(_cshow(a) for a in e[2]))
    return "%s(...)" % e[0]


def rule_K5_c(ctx):
    """rows of the transposed state: v[0..7]=h_vecs (=set1(key|cv[i])), v[8..11]=set1(IV[i]),
    v[12],v[13] = the (lo, hi) outputs of load_counters*(counter, increment_counter|true), v[14]=set1(block length),
    v[15]=set1(flags)"""
    for path, mflags, fn, lc, kind in C_STATE_FNS:
        t = _rc.tu(path, (), extra_args=_mf(mflags), filt=fn)
        f = t.funcs.get(fn)
        if f is None:
            raise MissingAnchor("%s in %s" % (fn, path))
        decls, lcs = {}, []
        for s in _c_all_stmts(f["body"]):
            if s[0] == "decl":
                decls.setdefault(s[1], []).append(s)
            if s[0] == "expr" and s[1][0] == "call" and isinstance(s[1][1], str) and s[1][1].startswith("load_counters"):
                lcs.append(s[1])
        where = "%s:%s" % (path, f["line"])
        inst = "state-rows:%s" % fn

        def isvar(e, n):
            return isinstance(e, tuple) and e[0] == "var" and e[1] == n

        def set1_of(e):
            return e[2][0] if isinstance(e, tuple) and e[0] == "call" and isinstance(e[1], str) and re.fullmatch(r"set1(_\d+)?", e[1]) and len(e[2]) == 1 else None

        def strip(e):
            while isinstance(e, tuple) and e[0] == "cast":
                e = e[1]
            return e
        bad = None
        v = decls.get("v", [])
        if len(v) != 1 or not v[0][3] or v[0][3][0] != "init" or len(v[0][3][1]) != 16:
            ctx.ob(False, inst, where, "no single 16-row initialiser of the state array v")
            continue
        rows = v[0][3][1]
        hv = decls.get("h_vecs", [])
        if len(hv) != 1 or not hv[0][3] or hv[0][3][0] != "init" or len(hv[0][3][1]) != 8:
            ctx.ob(False, inst, where, "no single 8-row initialiser of h_vecs")
            continue
        src = "key" if kind == "hash" else "cv"
        for i, e in enumerate(hv[0][3][1]):
            a = strip(set1_of(e))
            if not (a and a[0] == "index" and isvar(a[1], src) and a[2] == ("int", i)):
                bad = "h_vecs[%d] is %s ; required set1(%s[%d])" % (i, _cshow(e), src, i)
        if len(lcs) != 1 or lcs[0][1] != lc:
            bad = "expected exactly one call of %s, found %s" % (lc, [c[1] for c in lcs])
        else:
            a = lcs[0][2]
            incr_ok = isvar(a[1], "increment_counter") if kind == "hash" else a[1] == ("int", 1)
            if not (len(a) == 4 and isvar(a[0], "counter") and incr_ok and a[2][0] == "un" and a[2][1] == "&" and a[3][0] == "un" and a[3][1] == "&"):
                bad = "%s is called as %s ; required (counter, %s, &lo, &hi)" % (lc, _cshow(lcs[0]), "increment_counter" if kind == "hash" else "true")
            else:
                lo_name, hi_name = a[2][2][1], a[3][2][1]
        if bad is None:
            for i in range(16):
                e = rows[i]
                if i < 8:
                    ok = e[0] == "index" and isvar(e[1], "h_vecs") and e[2] == ("int", i)
                    want = "h_vecs[%d]" % i
                elif i < 12:
                    a = strip(set1_of(e))
                    ok = bool(a) and a[0] == "index" and isvar(a[1], "IV") and a[2] == ("int", i - 8)
                    want = "set1(IV[%d])" % (i - 8)
                elif i == 12:
                    ok, want = isvar(e, lo_name), lo_name
                elif i == 13:
                    ok, want = isvar(e, hi_name), hi_name
                else:
                    nm = e[1] if e[0] == "var" else None
                    d = decls.get(nm, [None])[0] if nm else None
                    a = strip(set1_of(d[3])) if d and d[3] else None
                    if i == 14:
                        ok = bool(a) and (isvar(a, "block_len") if kind == "xof" else (a == ("int", 64) or isvar(a, "BLAKE3_BLOCK_LEN")))
                        want = "set1(block length)"
                    else:
                        ok = bool(a) and isvar(a, "block_flags" if kind == "hash" else "flags")
                        want = "set1(%s)" % ("block_flags" if kind == "hash" else "flags")
                    if not ok:
                        e = d[3] if d and d[3] else e
                if not ok:
                    bad = "v[%d] is %s ; required %s" % (i, _cshow(e), want)
                    break
        ctx.ob(bad is None, inst, where, bad or "v = [h_vecs[0..8], set1(IV[0..4]), counter lo, counter hi, block length, flags]; h_vecs = set1(%s[i]); %s(counter, %s)" % (src, lc, "increment_counter" if kind == "hash" else "true"))
    ctx.floor("C transposed-state initialisers", len(C_STATE_FNS), 10)


def rule_K5_rust(ctx, F):
    n = 0
    for mod, fnname, lanes in (("sse2", "hash4", 4), ("sse41", "hash4", 4), ("avx2", "hash8", 8)):
        fn = F.fn("%s::%s" % (mod, fnname))
        if fn is None:
            continue
        n += 1
        inst = "state-rows:rust_%s.rs:%s" % (mod, fnname)
        vl = [l for l in range(len(fn.locals)) if fn.names.get(l) == "v"]
        hl = [l for l in range(len(fn.locals)) if fn.names.get(l) == "h_vecs"]
        bad = None
        e = val(fn.init_expr(vl[0])) if vl else None
        h = val(fn.init_expr(hl[0])) if hl else None
        if not (e and e[0] == "array" and len(e[1]) == 16 and h and h[0] == "array" and len(h[1]) == 8):
            ctx.ob(False, inst, fn.loc, "no 16-row state array v / 8-row h_vecs initialiser found")
            continue
        set1 = "%s::set1" % mod

        def idx_of(x, basepred):
            return x[2][0][1][2] if (x[0] == "path" and basepred(x[1]) and len(x[2]) == 1 and x[2][0][0] == "idx" and x[2][0][1][0] == "const") else None
        for i, x in enumerate(h[1]):
            a = x[2][0] if x[0] == "call" and x[1] == set1 else ("?",)
            if idx_of(a, lambda b: b[0] == "arg" and b[2] == "key") != i:
                bad = "h_vecs[%d] is %s ; required set1(key[%d])" % (i, show(x)[:80], i)
        lcall = ("call", "%s::load_counters" % mod, (("arg", 4, "counter"), ("arg", 5, "increment_counter")))
        for i, x in enumerate(e[1]):
            if bad:
                break
            if i < 8:
                ok = idx_of(x, lambda b: b[0] == "built" and b[1] == hl[0]) == i
                want = "h_vecs[%d]" % i
            elif i < 12:
                a = x[2][0] if x[0] == "call" and x[1] == set1 else ("?",)
                ok = idx_of(a, lambda b: b[0] == "const" and b[1] == "IV") == i - 8
                want = "set1(IV[%d])" % (i - 8)
            elif i < 14:
                ok = x == ("path", lcall, (str(i - 12),))
                want = "load_counters(counter, increment_counter).%d" % (i - 12)
            elif i == 14:
                ok = unify(("call", set1, (("cast", ("const", "BLOCK_LEN", 64), "u32"),)), x) is not None
                want = "set1(BLOCK_LEN as u32)"
            else:
                a = x[2][0] if x[0] == "call" and x[1] == set1 else ("?",)
                ok = a[0] == "cast" and a[1][0] in ("phi", "local") and a[1][-1] == "block_flags"
                want = "set1(block_flags as u32)"
            if not ok:
                bad = "v[%d] is %s ; required %s" % (i, show(x)[:100], want)
        ctx.ob(bad is None, inst, fn.loc, bad or "v = [h_vecs[0..8], set1(IV[0..4]), load_counters(counter, increment_counter).0/.1, set1(BLOCK_LEN), set1(block_flags)]")
    # helper definitions used by load_counters
    for name, want in (("counter_low", ("cast", ("arg", 1, "counter"), "u32")),
                       ("counter_high", ("cast", ("bin", "Shr", ("arg", 1, "counter"), ("const", None, 32)), "u32"))):
        fn = F.fn(name)
        if fn is None:
            raise MissingAnchor(name)
        got = val(fn.expr_local(0))
        ctx.ob(unify(want, got) is not None, "helper:%s" % name, fn.loc, "%s returns %s" % (name, show(got)[:80]))
    for mod, setter, intr, lanes in (("sse2", "set4", "_mm_setr_epi32", 4), ("sse41", "set4", "_mm_setr_epi32", 4), ("avx2", "set8", "_mm256_setr_epi32", 8)):
        fn = F.fn("%s::%s" % (mod, setter))
        if fn is None:
            continue
        got = val(fn.expr_local(0))
        ok = got[0] == "call" and len(got[2]) == lanes
        if ok:
            order = [a[1][1] if a[0] == "cast" and a[1][0] == "arg" else (a[1] if a[0] == "arg" else None) for a in got[2]]
            if got[1].endswith("setr_epi32"):
                ok = order == list(range(1, lanes + 1))
            elif got[1].endswith("set_epi32"):
                ok = order == list(range(lanes, 0, -1))
            else:
                ok = False
        ctx.ob(ok, "helper:%s::%s" % (mod, setter), fn.loc, "%s is %s ; required lane i = argument i" % (setter, show(got)[:140]))
    if F.cfg_flavour() in ("pure",):
        ctx.floor("Rust transposed-state initialisers", n, 3)


# ------------------------------------------------------------------ F8: per-kernel block-flag schedule ----
RUST_FLAG_KERNELS = ["portable::hash1", "sse2::hash1", "sse41::hash1", "sse2::hash4", "sse41::hash4", "avx2::hash8"]


def _is_or_of(e, x, y):
    return e[0] == "bin" and e[1] == "BitOr" and ((e[2] == x and e[3] == y) or (e[2] == y and e[3] == x))


def rule_F8_rust(ctx, F):
    """block_flags inside every hash1/hashN copy: flags|flags_start before the first block, |= flags_end under the
    last-block test (and only there, keeping what was accumulated), reset to flags after each compression"""
    n = 0
    for name in RUST_FLAG_KERNELS:
        fn = F.fn(name)
        if fn is None:
            continue
        n += 1
        inst = "block-flags:%s" % name
        ls = [l for l in range(len(fn.locals)) if fn.names.get(l) == "block_flags"]
        if len(ls) != 1:
            ctx.ob(False, inst, fn.loc, "no single local named block_flags")
            continue
        l = ls[0]
        argn = {fn.names.get(i): ("arg", i, fn.names.get(i)) for i in range(1, fn.argc + 1)}
        FL, ST, EN = argn.get("flags"), argn.get("flags_start"), argn.get("flags_end")
        PHI = ("phi", l, "block_flags")
        defs = local_defs_with_guards(fn, l)
        kinds = {}
        bad = None
        for b, gs, e in defs:
            if _is_or_of(e, FL, ST):
                kinds.setdefault("init", []).append((b, gs))
            elif e == FL:
                kinds.setdefault("reset", []).append((b, gs))
            elif _is_or_of(e, PHI, EN):
                kinds.setdefault("end", []).append((b, gs))
            else:
                bad = "block_flags is assigned %s ; allowed: flags | flags_start (before the loop), block_flags | flags_end (last block), flags (after a compression)" % show(e)[:90]
        uses = []
        for b, t in fn.calls():
            ex = val(fn.expr_call(t))
            if find_sub(ex, PHI) is not None:
                uses.append((b, ex))
        if bad is None and not (len(kinds.get("init", [])) == 1 and len(kinds.get("reset", [])) == 1 and len(kinds.get("end", [])) == 1):
            bad = "definitions of block_flags: %s ; required exactly one each of init / end / reset" % {k: len(v) for k, v in kinds.items()}
        if bad is None and len(uses) != 1:
            bad = "%d use sites of block_flags (compression / set1), expected 1" % len(uses)
        if bad is None:
            ub = uses[0][0]
            eb, egs = kinds["end"][0]
            rb = kinds["reset"][0][0]
            ib = kinds["init"][0][0]
            dom = fn.dominators()
            # last-block test idioms of the repository
            last = None
            for c, tr in egs:
                if tr is True and c[0] == "bin" and c[1] == "Eq":
                    a, bb = c[2], c[3]
                    for x, y in ((a, bb), (bb, a)):
                        if x[0] == "call" and x[1].endswith("len") and y == ("const", "BLOCK_LEN", 64):
                            last = "slice.len() == BLOCK_LEN"
                        if x[0] == "bin" and x[1] == "Add" and x[3][0] == "const" and x[3][2] == 1 and find_sub(x[2], ("call", W(), W())) is not None and "next" in show(x[2]):
                            last = "block + 1 == blocks"
            if last is None:
                bad = "|= flags_end is not under a recognised last-block test (guards: %s)" % [show(c)[:50] for c, t in egs][-2:]
            elif not (ub in dom.get(rb, set()) and ub not in dom.get(eb, set()) and ib in dom.get(ub, set())):
                bad = "order: init must dominate the use, the use must dominate the reset to `flags`, the flags_end update must come before the use"
            elif not fn.paths_avoiding(eb, ub, {rb}):
                bad = "the flags_end update does not reach the compression without being reset"
        ctx.ob(bad is None, inst, fn.loc, bad or "init flags|flags_start ; last block (%s) |= flags_end ; reset to flags after the compression" % last)
    if F.cfg_flavour() == "pure":
        ctx.floor("Rust kernels with a block-flag schedule", n, 6)
    else:
        ctx.floor("Rust kernels with a block-flag schedule", n, 1)


C_FLAG_KERNELS = [("c/blake3_portable.c", (), "hash_one_portable"), ("c/blake3_sse2.c", ("-msse2",), "hash_one_sse2"), ("c/blake3_sse2.c", ("-msse2",), "blake3_hash4_sse2"),
                  ("c/blake3_sse41.c", ("-msse4.1",), "hash_one_sse41"), ("c/blake3_sse41.c", ("-msse4.1",), "blake3_hash4_sse41"),
                  ("c/blake3_avx2.c", ("-mavx2",), "blake3_hash8_avx2"),
                  ("c/blake3_avx512.c", ("-mavx512f", "-mavx512vl"), "hash_one_avx512"), ("c/blake3_avx512.c", ("-mavx512f", "-mavx512vl"), "blake3_hash4_avx512"),
                  ("c/blake3_avx512.c", ("-mavx512f", "-mavx512vl"), "blake3_hash8_avx512"), ("c/blake3_avx512.c", ("-mavx512f", "-mavx512vl"), "blake3_hash16_avx512"),
                  ("c/blake3_neon.c", "NEON", "hash_one_neon"), ("c/blake3_neon.c", "NEON", "blake3_hash4_neon")]


def rule_F8_c(ctx):
    def V(n):
        return lambda e: isinstance(e, tuple) and e[0] == "var" and e[1] == n

    def strip(e):
        while isinstance(e, tuple) and e[0] == "cast":
            e = e[1]
        return e
    for path, mflags, fname in C_FLAG_KERNELS:
        t = _rc.tu(path, (), extra_args=_mf(mflags), filt=fname)
        f = t.funcs.get(fname)
        if f is None:
            raise MissingAnchor("%s in %s" % (fname, path))
        inst = "block-flags:%s" % fname
        where = "%s:%s" % (path, f["line"])
        events = []     # (kind, depth-path) in program order

        def walk(stmts, ctxpath):
            for s in stmts:
                if s[0] == "decl" and s[1] == "block_flags":
                    e = strip(s[3])
                    ok = e and e[0] == "bin" and e[1] == "|" and {strip(e[2])[1], strip(e[3])[1]} == {"flags", "flags_start"}
                    events.append(("init" if ok else "bad:decl %s" % _cshow(s[3]), ctxpath))
                elif s[0] == "assign" and s[2][0] == "var" and s[2][1] == "block_flags":
                    r = strip(s[3])
                    if s[1] == "|=" and V("flags_end")(r):
                        events.append(("end", ctxpath))
                    elif s[1] == "=" and r[0] == "bin" and r[1] == "|" and {_cshow(strip(r[2])), _cshow(strip(r[3]))} == {"block_flags", "flags_end"}:
                        events.append(("end", ctxpath))
                    elif s[1] == "=" and V("flags")(r):
                        events.append(("reset", ctxpath))
                    else:
                        events.append(("bad:block_flags %s %s" % (s[1], _cshow(s[3])), ctxpath))
                else:
                    used = []
                    for x in s:
                        if isinstance(x, tuple):
                            import cast as _cast
                            _cast.walk_expr(x, lambda y: used.append(1) if y[0] == "var" and y[1] == "block_flags" else None)
                    if used and s[0] != "if" and s[0] != "loop":
                        events.append(("use", ctxpath))
                if s[0] == "if":
                    subs = [x for x in s if isinstance(x, list)]
                    for k, sub in enumerate(subs):
                        walk(sub, ctxpath + (("if", _cshow_cond(s[1]), k),))
                elif s[0] == "loop":
                    subs = [x for x in s if isinstance(x, list)]
                    walk(subs[0] if subs else [], ctxpath + (("loop", _cshow_cond(s[2])),))
        walk(f["body"], ())
        kinds = [e[0] for e in events]
        bad = next((k[4:] for k in kinds if k.startswith("bad:")), None)
        if bad:
            bad = "unexpected write: %s" % bad
        elif kinds != ["init", "end", "use", "reset"]:
            bad = "block_flags events in program order are %s ; required init, (last block) |= flags_end, use, reset to flags" % kinds
        else:
            init, end, use, reset = events
            loop = [c for c in use[1] if c[0] == "loop"]
            if init[1] != () or len(loop) != 1 or use[1] != (loop[0],) or reset[1] != (loop[0],):
                bad = "init must precede the block loop; use and reset must be unconditional inside it"
            elif not (len(end[1]) == 2 and end[1][0] == loop[0] and end[1][1][0] == "if" and end[1][1][2] == 0 and end[1][1][1] in ("blocks == 1", "block + 1 == blocks")):
                bad = "|= flags_end must sit under the last-block test of the loop (found under %s)" % (end[1],)
        ctx.ob(bad is None, inst, where, bad or "init flags|flags_start ; last block |= flags_end ; use ; reset to flags")
    ctx.floor("C kernels with a block-flag schedule", len(C_FLAG_KERNELS), 12)


def _cshow_cond(e):
    if not isinstance(e, tuple):
        return str(e)
    while e[0] == "cast":
        e = e[1]
    if e[0] == "bin":
        return "%s %s %s" % (_cshow_cond(e[2]), e[1], _cshow_cond(e[3]))
    return _cshow(e)


# ------------------------------------------------------------------ ST: driver stage strides ----
C_DRIVERS = [("c/blake3_portable.c", (), "blake3_hash_many_portable", "hash"), ("c/blake3_sse2.c", ("-msse2",), "blake3_hash_many_sse2", "hash"),
             ("c/blake3_sse41.c", ("-msse4.1",), "blake3_hash_many_sse41", "hash"), ("c/blake3_avx2.c", ("-mavx2",), "blake3_hash_many_avx2", "hash"),
             ("c/blake3_avx512.c", ("-mavx512f", "-mavx512vl"), "blake3_hash_many_avx512", "hash"),
             ("c/blake3_avx512.c", ("-mavx512f", "-mavx512vl"), "blake3_xof_many_avx512", "xof"),
             ("c/blake3_neon.c", "NEON", "blake3_hash_many_neon", "hash")]


def _width_of(callee):
    m = re.search(r"hash(\d+)_|xof(\d+)_", callee)
    if m:
        return int(m.group(1) or m.group(2))
    if callee.startswith("hash_one_") or callee.startswith("blake3_compress_xof_"):
        return 1
    return None


def rule_ST_c(ctx):
    import r_cbudget
    norm = r_cbudget.norm
    nstages = 0
    for path, mflags, fname, kind in C_DRIVERS:
        t = _rc.tu(path, (), extra_args=_mf(mflags), filt=fname)
        f = t.funcs.get(fname)
        if f is None:
            raise MissingAnchor("%s in %s" % (fname, path))
        where = "%s:%s" % (path, f["line"])
        stages = [s for s in f["body"] if s[0] == "loop"]
        V0 = lambda n: ("var", n)
        full = [V0(n) for n in ("inputs", "num_inputs", "blocks", "key", "counter", "increment_counter", "flags", "flags_start", "flags_end", "out")]
        deleg = [s for s in f["body"] if s[0] == "expr" and s[1][0] == "call" and isinstance(s[1][1], str) and s[1][1].startswith("blake3_hash_many_")
                 and [norm(a) for a in s[1][2]] == full and s is f["body"][-1]]
        others = [s for s in f["body"] if s[0] not in ("loop", "decl") and s not in deleg]
        rem = "num_inputs" if kind == "hash" else "outblocks"
        unit = 32 if kind == "hash" else 64
        ctx.ob(bool(stages) and not others, "driver-shape:%s" % fname, where, "%d stage loop(s), %d other top-level statement(s)" % (len(stages), len(others)))
        prev = None
        for s in stages:
            body = [x for x in s if isinstance(x, list)][0]
            calls = [x[1] for x in body if x[0] == "expr" and x[1][0] == "call" and isinstance(x[1][1], str)]
            bad = None
            if len(calls) != 1 or _width_of(calls[0][1]) is None:
                ctx.ob(False, "driver-stage:%s:?" % fname, where, "stage without exactly one kernel call of known width: %s" % [c[1] for c in calls])
                continue
            N = _width_of(calls[0][1])
            nstages += 1
            inst = "driver-stage:%s:%s" % (fname, calls[0][1])
            cond = norm(s[2])
            okc = cond == ("bin", ">=", ("var", rem), ("int", N)) or (N == 1 and cond in (("bin", ">", ("var", rem), ("int", 0)), ("bin", "!=", ("var", rem), ("int", 0))))
            if not okc:
                bad = "loop condition %s ; required %s >= %d" % (_cshow_cond(s[2]), rem, N)
            if prev is not None and N >= prev and bad is None:
                bad = "stage widths must strictly decrease (%d after %d)" % (N, prev)
            prev = N
            ups = {}
            for x in body:
                if x[0] == "assign" and x[2][0] == "var":
                    ups.setdefault(x[2][1], []).append((x[1], norm(x[3]), False))
                elif x[0] == "if":
                    sub = [y for y in x if isinstance(y, list)]
                    for y in sub[0]:
                        if y[0] == "assign" and y[2][0] == "var":
                            ups.setdefault(y[2][1], []).append((y[1], norm(y[3]), norm(x[1])))
            want = {rem: ("-=", ("int", N), False), "counter": ("+=", ("int", N), ("var", "increment_counter") if kind == "hash" else False)}
            if kind == "hash":
                want["inputs"] = ("+=", ("int", N), False)
            for v, w in want.items():
                if bad is None and ups.get(v) != [w]:
                    bad = "%s is updated as %s ; required %s %d%s" % (v, ups.get(v), w[0], N, " under if (increment_counter)" if w[2] else "")
            if bad is None:
                o = ups.get("out", [])
                adv = None
                if len(o) == 1 and o[0][2] is False:
                    op, e, _ = o[0]
                    if op == "+=" and e[0] == "int":
                        adv = e[1]
                    elif op == "=" and e[0] == "un" and e[1] == "&" and e[2][0] == "index" and e[2][1] == ("var", "out") and e[2][2][0] == "int":
                        adv = e[2][2][1]
                if adv != N * unit:
                    bad = "out advances by %s bytes per stage iteration ; the kernel writes %d x %d = %d" % (adv if adv is not None else [x[:2] for x in o], N, unit, N * unit)
            if bad is None:
                a = [norm(x) for x in calls[0][2]]
                V = lambda n: ("var", n)
                if kind == "hash":
                    first = V("inputs") if N > 1 or not calls[0][1].startswith("hash_one") else ("index", V("inputs"), ("int", 0))
                    exp = [first, V("blocks"), V("key"), V("counter")] + ([V("increment_counter")] if not calls[0][1].startswith("hash_one") else []) + [V("flags"), V("flags_start"), V("flags_end"), V("out")]
                else:
                    exp = [V("cv"), V("block"), V("block_len"), V("counter"), V("flags"), V("out")]
                if a != exp:
                    bad = "kernel arguments (%s) are not the driver's cursor variables in prototype order" % ", ".join(_cshow(x) for x in calls[0][2])
            ctx.ob(bad is None, inst, where, bad or "width %d: %s -= %d, counter += %d%s, out += %d" % (N, rem, N, N, " (if increment_counter)" if kind == "hash" else "", N * unit))
        if stages:
            last_body = [x for x in stages[-1] if isinstance(x, list)][0]
            lc = [x[1] for x in last_body if x[0] == "expr" and x[1][0] == "call"]
            ctx.ob(bool(deleg) or (bool(lc) and _width_of(lc[0][1]) == 1), "driver-ends-with-width-1:%s" % fname, where,
                   "the remainder is delegated to %s with every cursor passed through" % deleg[0][1][1] if deleg else "the last stage handles single items (so that any count is consumed)")
    ctx.floor("C driver stages", nstages, 16)


def rule_ST_rust(ctx, F):
    """Rust hash_many drivers (sse2/sse41/avx2): the wide stage passes the cursors through to hashN, whose N is DEGREE,
    and advances inputs by DEGREE, out by DEGREE*OUT_LEN and the counter by DEGREE under increment_counter.yes()"""
    n = 0
    for mod, wide in (("sse2", "hash4"), ("sse41", "hash4"), ("avx2", "hash8")):
        fn = F.fn("%s::hash_many" % mod)
        if fn is None:
            continue
        n += 1
        N = int(wide[4:])
        inst = "driver-stage:%s::hash_many:%s" % (mod, wide)
        arg = {fn.names.get(i): i for i in range(1, fn.argc + 1)}
        loc = {nm: [i for i in range(len(fn.locals)) if fn.names.get(i) == nm][0] for nm in ("inputs", "counter", "out")}
        PH = {nm: ("phi", loc[nm], nm) for nm in loc}
        A = lambda nm: ("arg", arg[nm], nm)
        DEG = ("const", "%s::DEGREE" % mod, N)
        bad = None
        consts = [c for c in F.consts.values() if c.get("path", "").endswith("%s::DEGREE" % mod)] if hasattr(F, "consts") and isinstance(F.consts, dict) else []
        calls = [(b, val(fn.expr_call(t))) for b, t in fn.calls() if callee_name(t["callee"]) == "%s::%s" % (mod, wide)]
        if len(calls) != 1:
            bad = "%d call(s) to %s" % (len(calls), wide)
        else:
            a = calls[0][1][2]

            def is_deg(e, mul=1):
                return e[0] == "const" and e[2] == N * mul or (mul != 1 and e[0] == "bin" and e[1] == "Mul" and {e[2][2], e[3][2]} == {N, 32})
            ok_in = find_sub(a[0], PH["inputs"]) is not None and a[0][0] == "cast"
            ok_mid = a[2] == A("key") and a[3] == PH["counter"] and a[4] == A("increment_counter") and a[5] == A("flags") and a[6] == A("flags_start") and a[7] == A("flags_end")
            ok_out = find_sub(a[8], PH["out"]) is not None
            if not (ok_in and ok_mid and ok_out):
                bad = "%s is called with %s ; required the driver's cursors in prototype order" % (wide, show(calls[0][1])[:160])
        if bad is None:
            want = {"inputs": lambda e: e[0] == "call" and e[2][0] == PH["inputs"] and e[2][1][0] == "adt" and e[2][1][1].endswith("RangeFrom") and e[2][1][4][0][0] == "const" and e[2][1][4][0][2] == N,
                    "out": lambda e: e[0] == "call" and e[2][0] == PH["out"] and e[2][1][0] == "adt" and e[2][1][1].endswith("RangeFrom") and _const_val(e[2][1][4][0]) == N * 32,
                    "counter": lambda e: e[0] == "bin" and e[1] == "Add" and e[2] == PH["counter"] and _const_val(e[3]) in (N, 1)}
            for nm, pred in want.items():
                defs = local_defs_with_guards(fn, loc[nm])
                wide_defs = [(b, gs, e) for b, gs, e in defs if not (nm == "counter" and _const_val(e[3] if e[0] == "bin" else ("?",)) == 1 and N != 1)]
                if nm == "counter":
                    wide_defs = [(b, gs, e) for b, gs, e in defs if e[0] == "bin" and _const_val(e[3]) == N]
                    if len(wide_defs) != 1 or not any(c[0] == "call" and c[1] == "IncrementCounter::yes" and tr is True for c, tr in wide_defs[0][1]):
                        bad = "counter updates %s ; required counter += %d under increment_counter.yes()" % ([show(e)[:60] for b, gs, e in defs], N)
                        break
                    continue
                if len(defs) != 1 or not pred(defs[0][2]):
                    bad = "%s is advanced as %s ; required by %d" % (nm, [show(e)[:90] for b, gs, e in defs], N if nm == "inputs" else N * 32)
                    break
        ctx.ob(bad is None, inst, fn.loc, bad or "width %d: inputs = &inputs[%d..], out = &mut out[%d..], counter += %d under increment_counter.yes()" % (N, N, N * 32, N))
    if F.cfg_flavour() == "pure":
        ctx.floor("Rust hash_many driver stages", n, 3)


def _const_val(e):
    if not isinstance(e, tuple):
        return None
    if e[0] == "const":
        return e[2]
    if e[0] == "cast":
        return _const_val(e[1])
    if e[0] == "bin" and e[1] in ("Mul", "Add"):
        a, b = _const_val(e[2]), _const_val(e[3])
        if a is not None and b is not None:
            return a * b if e[1] == "Mul" else a + b
    return None


# ------------------------------------------------------------------ R1cv: C intrinsics single-block kernels, lane-precise ----
C_SINGLE = [("c/blake3_sse2.c", ("-msse2",), "sse2"), ("c/blake3_sse41.c", ("-msse4.1",), "sse41"), ("c/blake3_avx512.c", ("-mavx512f", "-mavx512vl"), "avx512")]
C_SINGLE_FILTERS = {"sse2": ["compress", "loadu", "storeu", "addv", "xorv", "set1", "set4", "rot", "g1", "g2", "diagonalize", "blend_epi16"],
                    "sse41": ["compress", "loadu", "storeu", "addv", "xorv", "set1", "set4", "rot", "g1", "g2", "diagonalize"],
                    "avx512": ["compress", "loadu_128", "storeu_128", "add_128", "xor_128", "set1_128", "set4", "rot", "g1", "g2", "diagonalize"]}


def _tus(path, mflags, filters):
    from concurrent.futures import ThreadPoolExecutor
    with ThreadPoolExecutor(max_workers=12) as ex:
        return list(ex.map(lambda f: _rc.tu(path, (), extra_args=_mf(mflags), filt=f), filters))


def rule_R1_cvec(ctx):
    """blake3_compress_in_place_<isa> / blake3_compress_xof_<isa> of the C intrinsics files (shuffle-based row form):
    evaluated lane by lane with the exact semantics of every shuffle/blend/unpack, the stored words equal the spec"""
    import cvec
    n = 0
    tp = _rc.tu("c/blake3_portable.c")
    for path, mflags, isa in C_SINGLE:
        tus = _tus(path, mflags, C_SINGLE_FILTERS[isa])
        for fname, xof in (("blake3_compress_in_place_%s" % isa, False), ("blake3_compress_xof_%s" % isa, True)):
            n += 1
            T = Terms()
            CV = tuple(T.sym("cv%d" % i) for i in range(8))
            M = tuple(T.sym("m%d" % i) for i in range(16))
            lo, hi, bl, fl, ctr = T.sym("counter_low"), T.sym("counter_high"), T.sym("block_len"), T.sym("flags"), T.sym("counter")
            blk = Cell(tuple(M[i // 4] if i % 4 == 0 else T.sym("byte%d" % i) for i in range(64)))
            cvc = Cell(CV)
            outc = Cell(tuple(T.sym("out%d" % i) for i in range(64)))
            ov = {"counter_low": lambda cs, a: lo if a[0] == ctr else T.sym("?"), "counter_high": lambda cs, a: hi if a[0] == ctr else T.sym("?")}
            hdr = CSym([tp], T).glob        # IV / MSG_SCHEDULE of blake3_impl.h (their values are rule KC's business)
            cs = cvec.CVec(tus, T, globals_={k: v for k, v in hdr.items() if k in ("IV", "MSG_SCHEDULE")}, overrides=ov, byte_cells=[blk, outc])
            f = cs.funcs.get(fname)
            inst = "c-single-block:%s" % fname
            if f is None:
                raise MissingAnchor("%s in %s" % (fname, path))
            try:
                args = [Ptr(cvc), Ptr(blk), bl, ctr, fl] + ([Ptr(outc)] if xof else [])
                cs.run(f, args)
            except SymFail as e:
                ctx.ob(False, inst, "%s:%s" % (path, f["line"]), "not evaluable lane-precisely: %s" % e)
                continue
            v = spec_compress_pre(T, CV, M, lo, hi, bl, fl)
            if xof:
                want = [T.xor(v[i], v[i + 8]) for i in range(8)] + [T.xor(v[i + 8], CV[i]) for i in range(8)]
                got = [outc.v[4 * i] for i in range(16)]
                stored = sorted((s[1], s[2]) for s in cs.stores if s[0] == id(outc))
                okst = stored == [(0, 4), (16, 4), (32, 4), (48, 4)] and not [s for s in cs.stores if s[0] != id(outc)]
            else:
                want = [T.xor(v[i], v[i + 8]) for i in range(8)]
                got = list(cvc.v)
                stored = sorted((s[1], s[2]) for s in cs.stores if s[0] == id(cvc))
                okst = stored == [(0, 4), (4, 4)] and not [s for s in cs.stores if s[0] != id(cvc)]
            d = first_diff(T, got, want)
            okld = all((c == id(cvc) and i + k <= 8) or (c == id(blk) and i + 4 * k <= 64) for c, i, k in cs.loads)
            ctx.ob(d is None and okst and okld, inst, "%s:%s" % (path, f["line"]),
                   "%d output words equal the spec compression lane for lane; reads cv[0..8)+block[0..64), writes exactly the result" % len(want) if d is None and okst and okld else
                   ("output word %d is %s ; spec %s" % d if d else "stores %s / loads outside cv+block: %s" % (stored, not okld)))
    ctx.floor("C intrinsics single-block kernels evaluated lane-precisely", n, 6)


def rule_R1_rvec(ctx, F):
    """Rust intrinsics twins (rust_sse2.rs / rust_sse41.rs compress_in_place, compress_xof), lane-precise"""
    import cvec
    n = 0
    for mod in ("sse2", "sse41"):
        for fname, xof in (("%s::compress_in_place" % mod, False), ("%s::compress_xof" % mod, True)):
            fn = F.fn(fname)
            if fn is None:
                continue
            n += 1
            T = Terms()
            CV = tuple(T.sym("cv%d" % i) for i in range(8))
            M = tuple(T.sym("m%d" % i) for i in range(16))
            lo, hi, bl, fl, ctr = T.sym("counter_low"), T.sym("counter_high"), T.sym("block_len"), T.sym("flags"), T.sym("counter")
            blk = Cell(tuple(M[i // 4] if i % 4 == 0 else T.sym("byte%d" % i) for i in range(64)))
            cvc = Cell(CV)
            ov = {"counter_low": lambda se, a: lo if a[0] == ctr else T.sym("?"), "counter_high": lambda se, a: hi if a[0] == ctr else T.sym("?")}
            se = cvec.LaneSymExec(F, T, byte_cells=[blk], overrides=ov)
            inst = "rust-single-block:%s" % fname
            try:
                ret = se.run(fn, [Ptr(cvc), Ptr(blk), bl, ctr, fl])
            except SymFail as e:
                ctx.ob(False, inst, fn.loc, "not evaluable lane-precisely: %s" % e)
                continue
            v = spec_compress_pre(T, CV, M, lo, hi, bl, fl)
            if xof:
                want = [T.xor(v[i], v[i + 8]) for i in range(8)] + [T.xor(v[i + 8], CV[i]) for i in range(8)]
                got = []
                if isinstance(ret, tuple) and len(ret) == 4 and all(isinstance(x, cvec.LV) for x in ret):
                    for x in ret:
                        got += x.l
                okst = not se.cv.stores
            else:
                want = [T.xor(v[i], v[i + 8]) for i in range(8)]
                got = list(cvc.v)
                okst = sorted((s[1], s[2]) for s in se.cv.stores if s[0] == id(cvc)) == [(0, 4), (4, 4)] and not [s for s in se.cv.stores if s[0] != id(cvc)]
            d = first_diff(T, got, want)
            okld = all((c == id(cvc) and i + k <= 8) or (c == id(blk) and i + 4 * k <= 64) for c, i, k in se.cv.loads)
            ctx.ob(d is None and okst and okld, inst, fn.loc,
                   "%d output words equal the spec compression lane for lane; reads cv[0..8)+block[0..64)%s" % (len(want), "" if xof else ", writes exactly cv") if d is None and okst and okld else
                   ("output word %d is %s ; spec %s" % d if d else "unexpected stores/loads"))
    if F.cfg_flavour() == "pure":
        ctx.floor("Rust intrinsics single-block kernels evaluated lane-precisely", n, 4)


# ------------------------------------------------------------------ TP: transposition networks, lane-precise ----
C_TRANSPOSE = [("c/blake3_sse2.c", ("-msse2",), "transpose_vecs", "transpose_msg_vecs", 4, ["transpose", "loadu"]),
               ("c/blake3_sse41.c", ("-msse4.1",), "transpose_vecs", "transpose_msg_vecs", 4, ["transpose", "loadu"]),
               ("c/blake3_avx2.c", ("-mavx2",), "transpose_vecs", "transpose_msg_vecs", 8, ["transpose", "loadu"]),
               ("c/blake3_avx512.c", ("-mavx512f", "-mavx512vl"), "transpose_vecs_128", "transpose_msg_vecs4", 4, ["transpose", "loadu", "unpack_"]),
               ("c/blake3_avx512.c", ("-mavx512f", "-mavx512vl"), "transpose_vecs_256", "transpose_msg_vecs8", 8, ["transpose", "loadu", "unpack_"]),
               ("c/blake3_avx512.c", ("-mavx512f", "-mavx512vl"), "transpose_vecs_512", "transpose_msg_vecs16", 16, ["transpose", "loadu", "unpack_"]),
               ("c/blake3_neon.c", "NEON", "transpose_vecs_128", "transpose_msg_vecs4", 4, ["transpose", "loadu"])]


def rule_TP_c(ctx):
    """transpose_vecs is the N x N transposition of 32-bit lanes; transpose_msg_vecs yields out[j].lane[k] = word j of the
    64-byte block of input k at block_offset (so that lane k of every later operation is input k's compression)"""
    import cvec
    for path, mflags, tv, tm, N, filters in C_TRANSPOSE:
        tus = _tus(path, mflags, filters)
        T = Terms()
        cs = cvec.CVec(tus, T)
        f = cs.funcs.get(tv)
        if f is None:
            raise MissingAnchor("%s in %s" % (tv, path))
        arr = Cell(tuple(cvec.LV([T.sym("a%d_%d" % (i, j)) for j in range(N)]) for i in range(N)))
        inst = "transpose:%s:%s" % (os.path.basename(path), tv)
        try:
            cs.run(f, [Ptr(arr)])
            bad = [(i, j) for i in range(N) for j in range(N) if arr.v[i].l[j] != T.sym("a%d_%d" % (j, i))]
            ctx.ob(not bad, inst, "%s:%s" % (path, f["line"]), "vecs[i].lane[j] = old vecs[j].lane[i] for all %d x %d: %s" % (N, N, "yes" if not bad else "fails at %s" % (bad[:3],)))
        except SymFail as e:
            ctx.ob(False, inst, "%s:%s" % (path, f["line"]), "not evaluable lane-precisely: %s" % e)
        # message loading: N inputs, block offset 64 (second block) so that the offset arithmetic is exercised
        f = cs.funcs.get(tm)
        if f is None:
            raise MissingAnchor("%s in %s" % (tm, path))
        T = Terms()
        cells = [Cell(tuple(T.sym("in%d_w%d" % (k, i // 4)) if i % 4 == 0 else T.sym("in%d_b%d" % (k, i)) for i in range(64 * 8))) for k in range(N)]
        cs = cvec.CVec(tus, T, byte_cells=cells)
        inputs = Cell(tuple(Ptr(c, (0,)) for c in cells))
        out = Cell(tuple(cvec.LV([T.sym("u%d_%d" % (i, j)) for j in range(N)]) for i in range(16)))
        inst = "transpose-msg:%s:%s" % (os.path.basename(path), tm)
        try:
            cs.run(f, [Ptr(inputs), T.const(64), Ptr(out)])
            bad = [(j, k) for j in range(16) for k in range(N) if out.v[j].l[k] != T.sym("in%d_w%d" % (k, 16 + j))]
            okl = all(0 <= 64 <= i and i + 4 * n <= 128 for c, i, n in cs.loads)
            ctx.ob(not bad and okl, inst, "%s:%s" % (path, f["line"]),
                   "out[j].lane[k] = word j of input k's block at block_offset, loads stay inside [offset, offset+64): %s" % ("yes" if not bad and okl else "fails at out[%d].lane[%d]" % bad[0] if bad else "load outside the block"))
        except SymFail as e:
            ctx.ob(False, inst, "%s:%s" % (path, f["line"]), "not evaluable lane-precisely: %s" % e)
    ctx.floor("C transposition helpers", 2 * len(C_TRANSPOSE), 14)


def rule_TP_rust(ctx, F):
    """Rust twins of transpose_vecs (sse2/sse41 4x4, avx2 8x8), lane-precise"""
    import cvec
    n = 0
    for mod, N in (("sse2", 4), ("sse41", 4), ("avx2", 8)):
        fn = F.fn("%s::transpose_vecs" % mod)
        if fn is None:
            continue
        n += 1
        T = Terms()
        arr = Cell(tuple(cvec.LV([T.sym("a%d_%d" % (i, j)) for j in range(N)]) for i in range(N)))
        se = cvec.LaneSymExec(F, T)
        inst = "transpose:rust_%s.rs:transpose_vecs" % mod
        try:
            se.run(fn, [Ptr(arr)])
            bad = [(i, j) for i in range(N) for j in range(N) if arr.v[i].l[j] != T.sym("a%d_%d" % (j, i))]
            ctx.ob(not bad, inst, fn.loc, "vecs[i].lane[j] = old vecs[j].lane[i] for all %d x %d: %s" % (N, N, "yes" if not bad else "fails at %s" % (bad[:3],)))
        except SymFail as e:
            ctx.ob(False, inst, fn.loc, "not evaluable lane-precisely: %s" % e)
    if F.cfg_flavour() == "pure":
        ctx.floor("Rust transposition helpers", n, 3)


def rule_TPm_rust(ctx, F):
    """Rust transpose_msg_vecs (sse2/sse41/avx2): vecs[j*N + k] = loadu(inputs[k] + block_offset + j*4*N), then every N-chunk is
    transposed (transpose_vecs is decided by TPr) -- so vecs[j*N + i].lane[k] is word j*N+i of input k's block"""
    n = 0
    for mod, N in (("sse2", 4), ("sse41", 4), ("avx2", 8)):
        fn = F.fn("%s::transpose_msg_vecs" % mod)
        if fn is None:
            continue
        n += 1
        inst = "transpose-msg:rust_%s.rs" % mod
        vl = [l for l in range(len(fn.locals)) if fn.names.get(l) == "vecs"]
        e = val(fn.init_expr(vl[0])) if vl else None
        bad = None
        if not (e and e[0] == "array" and len(e[1]) == 16):
            bad = "no 16-element initialiser of vecs"
        else:
            for idx, x in enumerate(e[1]):
                j, k = divmod(idx, N)
                okx = x[0] == "call" and x[1] == "%s::loadu" % mod and x[2][0][0] == "call" and x[2][0][1].endswith("::add")
                if okx:
                    p, off = x[2][0][2]
                    okx = p == ("path", ("arg", 1, "inputs"), (("idx", ("const", None, k)),)) and off[0] == "bin" and off[1] == "Add" and off[2] == ("arg", 2, "block_offset") and _const_val(off[3]) == j * 4 * N
                if not okx:
                    bad = "vecs[%d] is %s ; required loadu(inputs[%d].add(block_offset + %d))" % (idx, show(x)[:100], k, j * 4 * N)
                    break
        tcalls = [show(val(fn.expr_call(t))) for b, t in fn.calls() if callee_name(t["callee"]) == "%s::transpose_vecs" % mod]
        if bad is None and sorted(tcalls) != sorted("transpose_vecs(as_arrays(built(_%d:vecs)).%d)" % (vl[0], c) for c in range(16 // N)):
            bad = "transpose_vecs is applied to %s ; required once to each of the %d consecutive %d-row squares of vecs" % (tcalls, 16 // N, N)
        ctx.ob(bad is None, inst, fn.loc, bad or "vecs[j*%d+k] = loadu(inputs[k] + block_offset + j*%d), each %d-row square transposed" % (N, 4 * N, N))
    if F.cfg_flavour() == "pure":
        ctx.floor("Rust message loaders", n, 3)


# ------------------------------------------------------------------ XNc: C xofN kernels whole, hashN body + epilogue ----
C_XOFN = [("blake3_xof4_avx512", "load_counters4", 4), ("blake3_xof8_avx512", "load_counters8", 8), ("blake3_xof16_avx512", "load_counters16", 16)]


def _simd_overrides(T, cvec, N, state):
    def load_counters(cs, a):
        lo, hi = a[2], a[3]
        lo.cell.v = set_path(lo.cell.v, lo.path, cvec.LV([T.sym("ctr_lo%d" % k) for k in range(N)])) if lo.path else cvec.LV([T.sym("ctr_lo%d" % k) for k in range(N)])
        hi.cell.v = set_path(hi.cell.v, hi.path, cvec.LV([T.sym("ctr_hi%d" % k) for k in range(N)])) if hi.path else cvec.LV([T.sym("ctr_hi%d" % k) for k in range(N)])
        state["lc_args"] = (a[0], a[1])
        return T.const(0)

    def load_block_words(cs, a):
        blk, words = a
        if not isinstance(blk, Ptr) or blk.cell is not state["blk"]:
            raise SymFail("load_block_words of an unexpected buffer")
        words.cell.v = tuple(state["M"])
        return T.const(0)
    return load_counters, load_block_words


def rule_XN_c(ctx):
    """blake3_xof4/8/16_avx512 (C intrinsics), whole function, lane-precise: block k of the output is the spec XOF
    compression of (cv, block, counter lane k, block_len, flags) at out + 64k"""
    import cvec
    from symexec import set_path as _sp
    path, mflags = "c/blake3_avx512.c", ("-mavx512f", "-mavx512vl")
    tus = _tus(path, mflags, ["xof", "round_fn", "transpose", "loadu", "storeu", "add_", "xor_", "set1_", "rot", "unpack_"])
    tp = _rc.tu("c/blake3_portable.c")
    for fname, lcname, N in C_XOFN:
        T = Terms()
        CV = tuple(T.sym("cv%d" % i) for i in range(8))
        M = tuple(T.sym("m%d" % i) for i in range(16))
        bl, fl, ctr = T.sym("block_len"), T.sym("flags"), T.sym("counter")
        blk = Cell(tuple(T.sym("byte%d" % i) for i in range(64)))
        outc = Cell(tuple(T.sym("out%d" % i) for i in range(64 * N)))
        state = {"blk": blk, "M": M}
        lc, lbw = _simd_overrides(T, cvec, N, state)
        hdr = CSym([tp], T).glob
        cs = cvec.CVec(tus, T, globals_={k: v for k, v in hdr.items() if k in ("IV", "MSG_SCHEDULE")}, overrides={lcname: lc, "load_block_words": lbw}, byte_cells=[outc])
        f = cs.funcs.get(fname)
        if f is None:
            raise MissingAnchor("%s in %s" % (fname, path))
        inst = "c-xof-kernel:%s" % fname
        try:
            cs.run(f, [Ptr(Cell(CV)), Ptr(blk), bl, ctr, fl, Ptr(outc)])
        except SymFail as e:
            ctx.ob(False, inst, "%s:%s" % (path, f["line"]), "not evaluable lane-precisely: %s" % e)
            continue
        bad = None
        a0, a1 = state.get("lc_args", (None, None))
        if a0 != ctr or T.cval(a1) != 1:
            bad = "%s is not called with (counter, true)" % lcname
        for k in range(N):
            if bad:
                break
            v = spec_compress_pre(T, CV, M, T.sym("ctr_lo%d" % k), T.sym("ctr_hi%d" % k), bl, fl)
            want = [T.xor(v[i], v[i + 8]) for i in range(8)] + [T.xor(v[i + 8], CV[i]) for i in range(8)]
            got = [outc.v[64 * k + 4 * i] for i in range(16)]
            d = first_diff(T, got, want)
            if d:
                bad = "output block %d word %d is %s ; spec %s" % ((k,) + d)
        stored = sorted((s[1], s[2]) for s in cs.stores)
        if bad is None and (sum(4 * n for _, n in stored) != 64 * N or any(s[0] != id(outc) for s in cs.stores)):
            bad = "stores cover %d bytes of out, expected %d" % (sum(4 * n for _, n in stored), 64 * N)
        ctx.ob(bad is None, inst, "%s:%s" % (path, f["line"]), bad or "%d output blocks: block k = spec XOF compression with counter lane k, stored at out + 64k; %d bytes written" % (N, 64 * N))
    ctx.floor("C xofN kernels", len(C_XOFN), 3)


C_HASHN = [("c/blake3_sse2.c", ("-msse2",), "blake3_hash4_sse2", "load_counters", 4, ["hash4", "round_fn", "transpose", "loadu", "storeu", "addv", "xorv", "set1", "rot"]),
           ("c/blake3_sse41.c", ("-msse4.1",), "blake3_hash4_sse41", "load_counters", 4, ["hash4", "round_fn", "transpose", "loadu", "storeu", "addv", "xorv", "set1", "rot"]),
           ("c/blake3_avx2.c", ("-mavx2",), "blake3_hash8_avx2", "load_counters", 8, ["hash8", "round_fn", "transpose", "loadu", "storeu", "addv", "xorv", "set1", "rot"]),
           ("c/blake3_avx512.c", ("-mavx512f", "-mavx512vl"), "blake3_hash4_avx512", "load_counters4", 4, ["hash4", "round_fn", "transpose", "loadu", "storeu", "add_", "xor_", "set1_", "rot", "unpack_"]),
           ("c/blake3_avx512.c", ("-mavx512f", "-mavx512vl"), "blake3_hash8_avx512", "load_counters8", 8, ["hash8", "round_fn", "transpose", "loadu", "storeu", "add_", "xor_", "set1_", "rot", "unpack_"]),
           ("c/blake3_avx512.c", ("-mavx512f", "-mavx512vl"), "blake3_hash16_avx512", "load_counters16", 16, ["hash16", "round_fn", "transpose", "loadu", "storeu", "add_", "xor_", "set1_", "rot", "unpack_"]),
           ("c/blake3_neon.c", "NEON", "blake3_hash4_neon", "load_counters4", 4, ["hash4", "round_fn", "transpose", "loadu", "storeu", "add_", "xor_", "set1_", "rot"])]


def rule_HN_c(ctx):
    """C hashN kernels, lane-precise, as three straight-line regions of the function: the statements before the block loop
    (h := key), the loop body at a representative block index (the index-dependent parts -- the flag schedule and the
    block offset -- are F8's and TP's obligations) and the statements after the loop (output transposition and stores)"""
    import cvec
    tp = _rc.tu("c/blake3_portable.c")
    n = 0
    for path, mflags, fname, lcname, N, filters in C_HASHN:
        tus = _tus(path, mflags, filters)
        T = Terms()
        KEY = tuple(T.sym("key%d" % i) for i in range(8))
        cells = [Cell(tuple(T.sym("in%d_w%d" % (k, i // 4)) if i % 4 == 0 else T.sym("in%d_b%d" % (k, i)) for i in range(64 * 4))) for k in range(N)]
        outc = Cell(tuple(T.sym("out%d" % i) for i in range(32 * N)))
        state = {"blk": None, "M": None}
        lc, _ = _simd_overrides(T, cvec, N, state)
        hdr = CSym([tp], T).glob
        cs = cvec.CVec(tus, T, globals_={k: v for k, v in hdr.items() if k in ("IV", "MSG_SCHEDULE")}, overrides={lcname: lc}, byte_cells=cells + [outc])
        f = cs.funcs.get(fname)
        if f is None:
            raise MissingAnchor("%s in %s" % (fname, path))
        n += 1
        inst = "c-hash-kernel:%s" % fname
        where = "%s:%s" % (path, f["line"])
        body = f["body"]
        li = [i for i, s in enumerate(body) if s[0] == "loop"]
        if len(li) != 1:
            ctx.ob(False, inst, where, "expected exactly one block loop, found %d" % len(li))
            continue
        pre, loop, post = body[:li[0]], body[li[0]], body[li[0] + 1:]
        FL, FS, FE, CTR, INC = (T.sym(x) for x in ("flags", "flags_start", "flags_end", "counter", "increment_counter"))
        args = {"inputs": Ptr(Cell(tuple(Ptr(c, (0,)) for c in cells))), "blocks": T.sym("blocks"), "key": Ptr(Cell(KEY)), "counter": CTR,
                "increment_counter": INC, "flags": FL, "flags_start": FS, "flags_end": FE, "out": Ptr(outc)}
        env = {pn: Cell(args[pn]) for pn, _ in f["params"]}
        try:
            # -- before the loop
            pre2 = [s for s in pre if not (s[0] == "decl" and s[1] == "block_flags")]
            cs.block(pre2, env, 0)
            hv = env["h_vecs"].v
            okpre = all(hv[i].l == [KEY[i]] * N for i in range(8)) and state.get("lc_args") == (CTR, INC)
            bad = None if okpre else "before the loop: h_vecs[i] = set1(key[i]) and %s(counter, increment_counter): no" % lcname
            # -- loop body at block index 1 with symbolic chaining values and flag word
            H = [[T.sym("h%d_%d" % (i, k)) for k in range(N)] for i in range(8)]
            env["h_vecs"] = Cell(tuple(cvec.LV(H[i]) for i in range(8)))
            env["block_flags"] = Cell(T.sym("block_flags"))
            lsubs = [x for x in loop if isinstance(x, list)]
            env["block"] = Cell(T.const(1))
            lbody = [s for s in lsubs[0] if not (s[0] == "if" and "block_flags" in str(s[2]))]
            cs.block(lbody, env, 0)
            hv = env["h_vecs"].v
            for k in range(N):
                if bad:
                    break
                m = [T.sym("in%d_w%d" % (k, 16 + j)) for j in range(16)]
                v = spec_compress_pre(T, [H[i][k] for i in range(8)], m, T.sym("ctr_lo%d" % k), T.sym("ctr_hi%d" % k), T.const(64), T.sym("block_flags"))
                d = first_diff(T, [hv[i].l[k] for i in range(8)], [T.xor(v[i], v[i + 8]) for i in range(8)])
                if d:
                    bad = "loop body, input %d word %d is %s ; spec %s" % ((k,) + d)
            okl = all(64 <= i and i + 4 * nn <= 128 for c, i, nn in cs.loads if c in [id(x) for x in cells])
            if bad is None and not okl:
                bad = "the loop body reads outside the 64 bytes of the current block"
            if bad is None and env["block_flags"].v != FL:
                bad = "block_flags is not reset to flags at the end of the body"
            # -- after the loop
            cs.stores = []
            env["h_vecs"] = Cell(tuple(cvec.LV(H[i]) for i in range(8)))
            cs.block(post, env, 0)
            if bad is None:
                for k in range(N):
                    for i in range(8):
                        if outc.v[32 * k + 4 * i] != H[i][k]:
                            bad = "after the loop, out[%d] holds %s ; required word %d of input %d" % (32 * k + 4 * i, T.show(outc.v[32 * k + 4 * i])[:40], i, k)
                            break
                    if bad:
                        break
            if bad is None and (sum(4 * s[2] for s in cs.stores) != 32 * N or any(s[0] != id(outc) for s in cs.stores)):
                bad = "the stores after the loop cover %d bytes, expected %d" % (sum(4 * s[2] for s in cs.stores), 32 * N)
        except SymFail as e:
            bad = "not evaluable lane-precisely: %s" % e
        ctx.ob(bad is None, inst, where, bad or "h := key; body = spec compression per input over the 64 bytes at the block offset with the counter lanes; output word i of input k stored at out[32k+4i], %d bytes" % (32 * N))
    ctx.floor("C hashN kernels", n, 7)


def rule_HN_rust(ctx, F):
    """Rust hashN kernels (rust_sse2/sse41 hash4, rust_avx2 hash8) as three straight-line MIR regions, lane-precise (twin of HNc):
    before the block loop, the loop body at block index 1 of 3 (so that the flags_end branch is decided; the flag schedule and the
    offsets are F8r's / TPmr's obligations), after the loop"""
    import cvec
    n = 0
    for mod, fname, N in (("sse2", "hash4", 4), ("sse41", "hash4", 4), ("avx2", "hash8", 8)):
        fn = F.fn("%s::%s" % (mod, fname))
        if fn is None:
            continue
        n += 1
        inst = "rust-hash-kernel:%s::%s" % (mod, fname)
        T = Terms()
        KEY = tuple(T.sym("key%d" % i) for i in range(8))
        cells = [Cell(tuple(T.sym("in%d_w%d" % (k, i // 4)) if i % 4 == 0 else T.sym("in%d_b%d" % (k, i)) for i in range(64 * 4))) for k in range(N)]
        outc = Cell(tuple(T.sym("out%d" % i) for i in range(32 * N)))
        FL, FS, FE, CTR, INC = (T.sym(x) for x in ("flags", "flags_start", "flags_end", "counter", "increment_counter"))
        seen = {}

        def load_counters(se, a):
            seen["lc"] = tuple(a)
            return (cvec.LV([T.sym("ctr_lo%d" % k) for k in range(N)]), cvec.LV([T.sym("ctr_hi%d" % k) for k in range(N)]))

        def transpose_msg(se, a):
            inp, off = a
            co = T.cval(off)
            seen["tm"] = co
            if co is None or not isinstance(inp, Ptr):
                raise SymFail("transpose_msg_vecs with a non-constant offset")
            return tuple(cvec.LV([cells[k].v[co + 4 * j] for k in range(N)]) for j in range(16))
        ov = {"%s::load_counters" % mod: load_counters, "%s::transpose_msg_vecs" % mod: transpose_msg}
        se = cvec.LaneSymExec(F, T, byte_cells=cells + [outc], overrides=ov)
        # locate the loop: header = the block calling Range::next, body = the Some edge, exit = the None edge
        hdr = [bi for bi, t in fn.calls() if "Iterator" in t["callee"].get("path", "") and t["callee"]["path"].endswith("::next")]
        if len(hdr) != 1:
            ctx.ob(False, inst, fn.loc, "expected one block loop (Range::next), found %d" % len(hdr))
            continue
        H = hdr[0]
        sw = fn.blocks[fn.blocks[H]["term"]["t"]]["term"]
        tg = dict(sw["targets"])
        body_b, exit_b = tg.get(1), tg.get(0)
        optl = fn.blocks[H]["term"]["dest"]["l"]
        names = {v: k for k, v in fn.names.items()}
        bad = None
        try:
            args = [Ptr(Cell(tuple(Ptr(c, (0,)) for c in cells))), T.const(3), Ptr(Cell(KEY)), CTR, INC, FL, FS, FE, Ptr(outc)]
            frame = se.new_frame(fn, args)
            r = se.run_from(fn, frame, 0, (H,))
            hv = frame[names["h_vecs"]].v
            if not (r == ("stop", H) and all(hv[i].l == [KEY[i]] * N for i in range(8)) and seen.get("lc") == (CTR, INC)):
                bad = "before the loop: h_vecs[i] = set1(key[i]) and load_counters(counter, increment_counter): no"
            Hs = [[T.sym("h%d_%d" % (i, k)) for k in range(N)] for i in range(8)]
            frame[names["h_vecs"]].v = tuple(cvec.LV(Hs[i]) for i in range(8))
            frame[names["block_flags"]].v = T.sym("block_flags")
            frame[optl].v = (T.const(1),)
            r = se.run_from(fn, frame, body_b, (H,))
            hv = frame[names["h_vecs"]].v
            if bad is None and (r != ("stop", H) or seen.get("tm") != 64):
                bad = "the loop body does not load the block at offset block * BLOCK_LEN and return to the loop head"
            for k in range(N):
                if bad:
                    break
                m = [T.sym("in%d_w%d" % (k, 16 + j)) for j in range(16)]
                v = spec_compress_pre(T, [Hs[i][k] for i in range(8)], m, T.sym("ctr_lo%d" % k), T.sym("ctr_hi%d" % k), T.const(64), T.sym("block_flags"))
                d = first_diff(T, [hv[i].l[k] for i in range(8)], [T.xor(v[i], v[i + 8]) for i in range(8)])
                if d:
                    bad = "loop body, input %d word %d is %s ; spec %s" % ((k,) + d)
            if bad is None and frame[names["block_flags"]].v != FL:
                bad = "block_flags is not reset to flags at the end of the body"
            se.cv.stores = []
            frame[names["h_vecs"]].v = tuple(cvec.LV(Hs[i]) for i in range(8))
            se.run_from(fn, frame, exit_b, ())
            if bad is None:
                for k in range(N):
                    for i in range(8):
                        if outc.v[32 * k + 4 * i] != Hs[i][k]:
                            bad = "after the loop, out[%d] holds %s ; required word %d of input %d" % (32 * k + 4 * i, T.show(outc.v[32 * k + 4 * i])[:40], i, k)
                            break
                    if bad:
                        break
            if bad is None and (sum(4 * s[2] for s in se.cv.stores) != 32 * N or any(s[0] != id(outc) for s in se.cv.stores)):
                bad = "the stores after the loop cover %d bytes, expected %d" % (sum(4 * s[2] for s in se.cv.stores), 32 * N)
        except SymFail as e:
            bad = "not evaluable lane-precisely: %s" % e
        ctx.ob(bad is None, inst, fn.loc, bad or "h := key; body = spec compression per input with the counter lanes; output word i of input k stored at out[32k+4i], %d bytes" % (32 * N))
    if F.cfg_flavour() == "pure":
        ctx.floor("Rust hashN kernels", n, 3)
