"""R rules: the BLAKE3 round / compression function, every array-indexed copy against the spec's
G network, by symbolic value numbering (R1) and the feed-forward (R2)."""
import os
import sys
from mirlib import *
from symexec import Terms, SymExec, SymFail, Cell, Ptr
sys.path.insert(0, os.path.join(os.path.dirname(os.path.dirname(os.path.abspath(__file__))), "specmodel"))
import blake3_spec as spec


def spec_round(T, v, m):
    """one round of the spec on term vectors v (16) and m (16, already scheduled)"""
    v = list(v)

    def g(a, b, c, d, mx, my):
        v[a] = T.add(T.add(v[a], v[b]), mx)
        v[d] = T.rotr(16, T.xor(v[d], v[a]))
        v[c] = T.add(v[c], v[d])
        v[b] = T.rotr(12, T.xor(v[b], v[c]))
        v[a] = T.add(T.add(v[a], v[b]), my)
        v[d] = T.rotr(8, T.xor(v[d], v[a]))
        v[c] = T.add(v[c], v[d])
        v[b] = T.rotr(7, T.xor(v[b], v[c]))
    for i, (a, b, c, d) in enumerate(spec.G_INDEX):
        g(a, b, c, d, m[2 * i], m[2 * i + 1])
    return v


def spec_compress_pre(T, cv, m, ctr_lo, ctr_hi, block_len, flags):
    v = list(cv) + [T.const(x) for x in spec.IV[:4]] + [ctr_lo, ctr_hi, block_len, flags]
    sched = spec.msg_schedule()
    for r in range(7):
        v = spec_round(T, v, [m[sched[r][k]] for k in range(16)])
    return v


def first_diff(T, got, want):
    for i, (a, b) in enumerate(zip(got, want)):
        if a != b:
            return i, T.show(a)[:110], T.show(b)[:110]
    if len(got) != len(want):
        return -1, "len %d" % len(got), "len %d" % len(want)
    return None


def check_round_fn(ctx, F, path, label, schedule_in_callee=True):
    """round(v, m, r) for r in 0..6 against the spec round with the spec's schedule"""
    fn = F.need_fn(path)
    sched = spec.msg_schedule()
    for r in range(7):
        T = Terms()
        V = tuple(T.sym("v%d" % i) for i in range(16))
        M = tuple(T.sym("m%d" % i) for i in range(16))
        vc, mc = Cell(V), Cell(M)
        try:
            SymExec(F, T).run(fn, [Ptr(vc), Ptr(mc), T.const(r)])
            got = vc.v
            want = spec_round(T, V, [M[sched[r][k]] for k in range(16)])
            d = first_diff(T, got, want)
            ctx.ob(d is None, "round:%s:r%d" % (label, r), fn.loc,
                   "round %d: 16 output terms equal the spec G network" % r if d is None else "round %d: state word %s is %s ; spec %s" % ((r,) + d))
        except SymFail as e:
            ctx.ob(False, "round:%s:r%d" % (label, r), fn.loc, "not evaluable as straight-line code: %s" % e)


def rule_R1_portable(ctx, F):
    check_round_fn(ctx, F, "portable::round", "portable.rs")
    # whole compress_pre: 7 rounds from the spec state layout
    fn = F.need_fn("portable::compress_pre")
    T = Terms()
    CV = tuple(T.sym("cv%d" % i) for i in range(8))
    M = tuple(T.sym("m%d" % i) for i in range(16))
    lo, hi, bl, fl = T.sym("counter_low"), T.sym("counter_high"), T.sym("block_len"), T.sym("flags")
    ctr = T.sym("counter")
    ov = {
        "platform::words_from_le_bytes_64": lambda se, a: M,
        "counter_low": lambda se, a: lo if a[0] == ctr else T.sym("?lo"),
        "counter_high": lambda se, a: hi if a[0] == ctr else T.sym("?hi"),
    }
    try:
        got = SymExec(F, T, ov).run(fn, [Ptr(Cell(CV)), Ptr(Cell(T.sym("block"))), bl, ctr, fl])
        want = spec_compress_pre(T, CV, M, lo, hi, bl, fl)
        d = first_diff(T, got, want)
        ctx.ob(d is None, "compress_pre:portable.rs", fn.loc, "7 rounds from [cv, IV[0..4], counter_low, counter_high, block_len, flags] equal the spec" if d is None else "state word %s is %s ; spec %s" % d)
    except SymFail as e:
        ctx.ob(False, "compress_pre:portable.rs", fn.loc, "not evaluable: %s" % e)
    # counter split helpers
    cl, ch = F.need_fn("counter_low"), F.need_fn("counter_high")
    ctx.ob(unify(P.cast(P.arg("counter"), "u32"), val(cl.expr_local(0))) is not None, "counter_low", cl.loc, "counter_low = %s" % show(val(cl.expr_local(0))))
    ctx.ob(unify(P.cast(P.bin("Shr", P.arg("counter"), P.const(32)), "u32"), val(ch.expr_local(0))) is not None, "counter_high", ch.loc, "counter_high = %s" % show(val(ch.expr_local(0))))
    # R2 feed-forward
    S = None
    for name, inplace in (("portable::compress_in_place", True), ("portable::compress_xof", False)):
        fn = F.need_fn(name)
        T = Terms()
        CV = tuple(T.sym("cv%d" % i) for i in range(8))
        ST = tuple(T.sym("st%d" % i) for i in range(16))
        cvc = Cell(CV)
        captured = {}
        ov = {"portable::compress_pre": lambda se, a: ST,
              "platform::le_bytes_from_words_64": lambda se, a: captured.setdefault("w", a[0].cell.v if isinstance(a[0], Ptr) else a[0]) and T.sym("bytes")}
        try:
            SymExec(F, T, ov).run(fn, [Ptr(cvc), Ptr(Cell(T.sym("block"))), T.sym("bl"), T.sym("ctr"), T.sym("fl")])
            if inplace:
                got = cvc.v
                want = tuple(T.xor(ST[i], ST[i + 8]) for i in range(8))
            else:
                got = captured.get("w", ())
                want = tuple(T.xor(ST[i], ST[i + 8]) for i in range(8)) + tuple(T.xor(ST[i + 8], CV[i]) for i in range(8))
            d = first_diff(T, got, want)
            ctx.ob(d is None, "feed-forward:%s" % name.split("::")[-1], fn.loc,
                   "output words = st[i]^st[i+8]%s" % ("" if inplace else ", st[i+8]^cv[i]") if d is None else "word %s is %s ; spec %s" % d)
        except SymFail as e:
            ctx.ob(False, "feed-forward:%s" % name.split("::")[-1], fn.loc, "not evaluable: %s" % e)


def rule_R1_rust_simd(ctx, F):
    n = 0
    for mod in ("sse2", "sse41", "avx2"):
        if F.fn("%s::round" % mod) is not None:
            n += 1
            check_round_fn(ctx, F, "%s::round" % mod, "rust_%s.rs" % mod)
    ctx.floor("Rust SIMD round functions", n, 3)


def rule_R1_refimpl(ctx, F):
    fn = F.need_fn("round")
    T = Terms()
    V = tuple(T.sym("v%d" % i) for i in range(16))
    M = tuple(T.sym("m%d" % i) for i in range(16))
    vc = Cell(V)
    try:
        SymExec(F, T).run(fn, [Ptr(vc), Ptr(Cell(M))])
        want = spec_round(T, V, list(M))
        d = first_diff(T, vc.v, want)
        ctx.ob(d is None, "round:reference_impl", fn.loc, "round(state, m): 16 output terms equal the spec G network" if d is None else "state word %s is %s ; spec %s" % d)
    except SymFail as e:
        ctx.ob(False, "round:reference_impl", fn.loc, "not evaluable: %s" % e)


# ------------------------------------------------------------------ C copies (R1c) ----
import r_c as _rc           # noqa: E402
from csym import CSym       # noqa: E402

C_ROUND_FILES = [
    # (file, -m flags, round function, filters)
    ("c/blake3_sse2.c", ("-msse2",), ["round_fn"], ["round_fn", "rot", "addv", "xorv"]),
    ("c/blake3_sse41.c", ("-msse4.1",), ["round_fn"], ["round_fn", "rot", "addv", "xorv"]),
    ("c/blake3_avx2.c", ("-mavx2",), ["round_fn"], ["round_fn", "rot", "addv", "xorv"]),
    ("c/blake3_avx512.c", ("-mavx512f", "-mavx512vl"), ["round_fn4", "round_fn8", "round_fn16"], ["round_fn", "rot", "add_", "xor_"]),
]


def c_round_check(ctx, cs_factory, fname, label, where):
    sched = spec.msg_schedule()
    for r in range(7):
        T = Terms()
        cs = cs_factory(T)
        f = cs.funcs.get(fname)
        if f is None:
            raise MissingAnchor("C function %s (%s)" % (fname, label))
        V = tuple(T.sym("v%d" % i) for i in range(16))
        M = tuple(T.sym("m%d" % i) for i in range(16))
        vc, mc = Cell(V), Cell(M)
        try:
            cs.run(f, [Ptr(vc), Ptr(mc), T.const(r)])
            want = spec_round(T, V, [M[sched[r][k]] for k in range(16)])
            d = first_diff(T, vc.v, want)
            ctx.ob(d is None, "round:%s:r%d" % (label, r), where, "round %d: 16 output terms equal the spec G network" % r if d is None else "round %d: state word %s is %s ; spec %s" % ((r,) + d))
        except SymFail as e:
            ctx.ob(False, "round:%s:r%d" % (label, r), where, "not evaluable as straight-line code: %s" % e)


def rule_R1_c(ctx):
    # portable: whole file
    tp = _rc.tu("c/blake3_portable.c")
    hdr_globals = tp.globals
    c_round_check(ctx, lambda T: CSym([tp], T), "round_fn", "blake3_portable.c", "c/blake3_portable.c")
    # compress_pre of the portable C file against the spec state layout
    T = Terms()
    CV = tuple(T.sym("cv%d" % i) for i in range(8))
    M = tuple(T.sym("m%d" % i) for i in range(16))
    lo, hi, bl, fl, ctr = T.sym("counter_low"), T.sym("counter_high"), T.sym("block_len"), T.sym("flags"), T.sym("counter")
    blk = Cell(tuple(T.sym("b%d" % i) for i in range(64)))

    def load32(cs, a):
        p = a[0]
        off = p.path[-1] if isinstance(p, Ptr) and p.path else 0
        if not isinstance(p, Ptr) or p.cell is not blk or off % 4:
            raise SymFail("load32 of an unexpected address")
        return M[off // 4]
    ov = {"load32": load32, "counter_low": lambda cs, a: lo if a[0] == ctr else T.sym("?"), "counter_high": lambda cs, a: hi if a[0] == ctr else T.sym("?")}
    cs = CSym([tp], T, overrides=ov)
    st = Cell(tuple(T.sym("st_uninit%d" % i) for i in range(16)))
    f = cs.funcs.get("compress_pre")
    if f is None:
        raise MissingAnchor("compress_pre in c/blake3_portable.c")
    try:
        cs.run(f, [Ptr(st), Ptr(Cell(CV)), Ptr(blk), bl, ctr, fl])
        want = spec_compress_pre(T, CV, M, lo, hi, bl, fl)
        d = first_diff(T, st.v, want)
        ctx.ob(d is None, "compress_pre:blake3_portable.c", "c/blake3_portable.c", "7 rounds from the spec state layout equal the spec" if d is None else "state word %s is %s ; spec %s" % d)
    except SymFail as e:
        ctx.ob(False, "compress_pre:blake3_portable.c", "c/blake3_portable.c", "not evaluable: %s" % e)
    # counter helpers of blake3_impl.h
    ti = _rc.tu("c/blake3.c")
    cl, ch = ti.funcs.get("counter_low"), ti.funcs.get("counter_high")
    okl = cl is not None and [s for s in cl["body"] if s[0] == "return"] and _rc.nc(cl["body"][0][1]) == ("cast", ("var", "counter", "param"), "uint32_t")
    okh = ch is not None and [s for s in ch["body"] if s[0] == "return"] and _rc.nc(ch["body"][0][1]) == ("cast", ("bin", ">>", ("var", "counter", "param"), ("int", 32)), "uint32_t")
    ctx.ob(bool(okl), "c-counter_low", "c/blake3_impl.h", "counter_low = (uint32_t)counter: %s" % bool(okl))
    ctx.ob(bool(okh), "c-counter_high", "c/blake3_impl.h", "counter_high = (uint32_t)(counter >> 32): %s" % bool(okh))
    # feed-forward of the portable C kernels
    for name, xof in (("blake3_compress_in_place_portable", False), ("blake3_compress_xof_portable", True)):
        T = Terms()
        ST = tuple(T.sym("st%d" % i) for i in range(16))
        CV = tuple(T.sym("cv%d" % i) for i in range(8))
        cvc = Cell(CV)
        stored = {}

        def cpre(cs, a, ST=ST):
            a[0].cell.v = set_path(a[0].cell.v, a[0].path, ST) if a[0].path else ST
            return None

        def store32(cs, a, stored=stored):
            p = a[0]
            stored[p.path[-1] if p.path else 0] = a[1]
            return None
        cs = CSym([tp], T, overrides={"compress_pre": cpre, "store32": store32})
        f = cs.funcs.get(name)
        if f is None:
            raise MissingAnchor("%s in c/blake3_portable.c" % name)
        try:
            out = Cell(tuple(T.sym("o%d" % i) for i in range(64)))
            args = [Ptr(cvc), Ptr(Cell(T.sym("blk"))), T.sym("bl"), T.sym("ctr"), T.sym("fl")] + ([Ptr(out)] if xof else [])
            cs.run(f, args)
            if xof:
                got = tuple(stored.get(4 * i) for i in range(16))
                want = tuple(T.xor(ST[i], ST[i + 8]) for i in range(8)) + tuple(T.xor(ST[i + 8], CV[i]) for i in range(8))
            else:
                got = cvc.v
                want = tuple(T.xor(ST[i], ST[i + 8]) for i in range(8))
            d = first_diff(T, got, want) if all(g is not None for g in got) else (-1, "missing store", "")
            ctx.ob(d is None, "c-feed-forward:%s" % name, "c/blake3_portable.c", "output words = st[i]^st[i+8]%s" % (", st[i+8]^cv[i]" if xof else "") if d is None else "word %s is %s ; spec %s" % d)
        except SymFail as e:
            ctx.ob(False, "c-feed-forward:%s" % name, "c/blake3_portable.c", "not evaluable: %s" % e)
    # SIMD C files: filtered AST dumps (immintrin.h makes the full AST ~150 MB)
    n = 0
    for path, mflags, fns, filters in C_ROUND_FILES:
        tus = [_rc.tu(path, (), extra_args=mflags, filt=flt) for flt in filters]
        sched_glob = {g["name"]: g for g in hdr_globals}
        for fn in fns:
            n += 1

            def factory(T, tus=tus):
                cs = CSym(tus, T)
                ms = sched_glob.get("MSG_SCHEDULE")
                if ms is not None and "MSG_SCHEDULE" not in cs.glob:
                    cs.glob["MSG_SCHEDULE"] = cs.const_init(ms["init"])
                return cs
            c_round_check(ctx, factory, fn, "%s:%s" % (os.path.basename(path), fn), path)
    ctx.floor("C SIMD round functions", n, 6)
