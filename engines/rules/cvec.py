"""Lane-precise variant of csym.CSym: a SIMD value is LV(lanes) -- a list of 32-bit terms -- and every
intrinsic used by the shuffle-based single-block kernels has its exact lane semantics.  Straight-line only."""
import os
import re
import sys

from symexec import Terms, Cell, Ptr, SymFail, get_path, set_path
from csym import CSym
sys.path.insert(0, os.path.join(os.path.dirname(os.path.dirname(os.path.abspath(__file__))), "asmabi"))
import asmsym  # noqa: E402

M32 = (1 << 32) - 1


class LV:
    __slots__ = ("l",)

    def __init__(self, lanes):
        self.l = list(lanes)

    def __len__(self):
        return len(self.l)


def per128(n, fn):
    out = []
    for g in range(n // 4):
        out += fn(4 * g)
    return out


class CVec(CSym):
    """byte_cells: cells whose tuple is byte-indexed with a 32-bit word term at every 4th position"""

    def __init__(self, tus, T, globals_=None, overrides=None, byte_cells=()):
        CSym.__init__(self, tus, T, globals_, overrides)
        self.byte_cells = set(id(c) for c in byte_cells)
        self.loads = []
        self.stores = []

    # -- memory --
    def _vec_at(self, p, n):
        if not isinstance(p, Ptr):
            raise SymFail("vector load through a non-pointer")
        base = get_path(p.cell.v, p.path[:-1]) if p.path else p.cell.v
        i = p.path[-1] if p.path else 0
        step = 4 if id(p.cell) in self.byte_cells else 1
        if not isinstance(base, tuple) or i % step:
            raise SymFail("unaligned or non-array vector access")
        idx = [i + step * k for k in range(n)]
        if idx[-1] >= len(base):
            raise SymFail("vector access beyond the end of the array (%d of %d)" % (idx[-1], len(base)))
        return base, idx

    def loadv(self, p, n):
        base, idx = self._vec_at(p, n)
        self.loads.append((id(p.cell), idx[0], n))
        return LV([base[j] for j in idx])

    def storev(self, p, v):
        base, idx = self._vec_at(p, len(v))
        nb = list(base)
        for j, t in zip(idx, v.l):
            nb[j] = t
        self.stores.append((id(p.cell), idx[0], len(v)))
        if p.path:
            p.cell.v = set_path(p.cell.v, p.path[:-1], tuple(nb)) if len(p.path) > 1 else tuple(nb)
        else:
            p.cell.v = tuple(nb)

    # -- helpers --
    def lanewise(self, fn, a, b):
        if not (isinstance(a, LV) and isinstance(b, LV) and len(a) == len(b)):
            raise SymFail("lane-wise operation on mismatched operands")
        return LV([fn(self.T, x, y) for x, y in zip(a.l, b.l)])

    def imm(self, t):
        c = self.T.cval(t) if isinstance(t, int) else None
        if c is None:
            raise SymFail("immediate is not a constant")
        return c

    def as_int(self, v):
        cs = [self.T.cval(x) for x in v.l]
        if any(c is None for c in cs):
            return None
        out = 0
        for i, c in enumerate(cs):
            out |= (c & M32) << (32 * i)
        return out

    def from_int(self, x, n):
        return LV([self.T.const((x >> (32 * i)) & M32) for i in range(n)])

    def intrinsic(self, name, args):
        T = self.T
        m = re.fullmatch(r"_mm(256|512)?_(loadu|load|lddqu)_si(128|256|512)", name)
        if m:
            return self.loadv(args[0], int(m.group(3)) // 32)
        m = re.fullmatch(r"_mm(256|512)?_(storeu|store)_si(128|256|512)", name)
        if m:
            self.storev(args[0], args[1])
            return T.const(0)
        m = re.fullmatch(r"_mm(256|512)?_set1_epi32", name)
        if m:
            return LV([args[0]] * (int(m.group(1) or 128) // 32))
        m = re.fullmatch(r"_mm(256|512)?_set(r)?_epi32", name)
        if m:
            return LV(args if m.group(2) else list(reversed(args)))
        if name == "_mm_set_epi16" or name == "_mm_setr_epi16":
            ws = [self.imm(a) & 0xffff for a in args]
            if name == "_mm_set_epi16":
                ws.reverse()
            x = 0
            for i, w in enumerate(ws):
                x |= w << (16 * i)
            return self.from_int(x, 4)
        if name == "_mm_set1_epi16":
            w = self.imm(args[0]) & 0xffff
            return self.from_int(sum(w << (16 * i) for i in range(8)), 4)
        m = re.fullmatch(r"_mm(256|512)?_set(r)?_epi8", name)
        if m:
            bs = [self.imm(a) & 0xff for a in args]
            if not m.group(2):
                bs.reverse()
            return self.from_int(sum(b << (8 * i) for i, b in enumerate(bs)), len(bs) // 4)
        if name == "_mm_cmpeq_epi16":
            a, b = self.as_int(args[0]), self.as_int(args[1])
            if a is None or b is None:
                raise SymFail("16-bit compare of non-constant vectors")
            x = 0
            for i in range(8):
                if (a >> (16 * i)) & 0xffff == (b >> (16 * i)) & 0xffff:
                    x |= 0xffff << (16 * i)
            return self.from_int(x, 4)
        if re.fullmatch(r"_mm(256|512)?_add_epi32", name):
            return self.lanewise(lambda T, x, y: T.add(x, y), args[0], args[1])
        if re.fullmatch(r"_mm(256|512)?_xor_si(128|256|512)", name):
            return self.lanewise(asmsym.t_xor, args[0], args[1])
        if re.fullmatch(r"_mm(256|512)?_or_si(128|256|512)", name):
            return self.lanewise(asmsym.t_or, args[0], args[1])
        if re.fullmatch(r"_mm(256|512)?_and_si(128|256|512)", name):
            return self.lanewise(asmsym.t_and, args[0], args[1])
        if re.fullmatch(r"_mm(256|512)?_andnot_si(128|256|512)", name):
            def andnot(T, x, y):
                c = T.cval(x)
                if c is None:
                    raise SymFail("andnot with a non-constant mask")
                return asmsym.t_and(T, T.const(~c & M32), y)
            return self.lanewise(andnot, args[0], args[1])
        m = re.fullmatch(r"_mm(256|512)?_(srli|slli)_epi32", name)
        if m:
            k = self.imm(args[1])
            return LV([asmsym.t_shift(T, "shr" if m.group(2) == "srli" else "shl", x, k) for x in args[0].l])
        if re.fullmatch(r"_mm(256|512)?_ror_epi32", name) or re.fullmatch(r"__builtin_ia32_prord(128|256|512)(_mask)?", name):
            k = self.imm(args[1])
            return LV([asmsym.rot(T, k % 32, x) for x in args[0].l])
        if re.fullmatch(r"_mm(256|512)?_shuffle_epi8", name) or re.fullmatch(r"__builtin_ia32_pshufb(128|256|512)", name):
            a, mk = args
            out = []
            for i in range(len(a)):
                c = T.cval(mk.l[i])
                if c is None:
                    raise SymFail("pshufb mask is not constant")
                bs = [(c >> (8 * j)) & 0xff for j in range(4)]
                if any(b & 0x80 for b in bs):
                    raise SymFail("pshufb zeroing")
                lanes = {(b & 15) // 4 for b in bs}
                r = (bs[0] & 15) % 4
                if len(lanes) != 1 or [(b & 15) % 4 for b in bs] != [(r + j) % 4 for j in range(4)]:
                    raise SymFail("pshufb is not a whole-dword byte rotation")
                out.append(asmsym.rot(T, 8 * r, a.l[4 * (i // 4) + lanes.pop()]))
            return LV(out)
        if name in ("__builtin_ia32_pshuflw", "_mm_shufflelo_epi16", "__builtin_ia32_pshufhw", "_mm_shufflehi_epi16"):
            if self.imm(args[1]) != 0xB1:
                raise SymFail("word shuffle other than 0xB1")
            hi = "hw" in name or "hi" in name
            return LV([asmsym.rot(T, 16, x) if ((i % 4) >= 2) == hi else x for i, x in enumerate(args[0].l)])
        if name in ("_mm_shuffle_epi32", "__builtin_ia32_pshufd"):
            a, imm = args[0], self.imm(args[1])
            return LV(per128(len(a), lambda b: [a.l[b + ((imm >> (2 * i)) & 3)] for i in range(4)]))
        if name in ("_mm_shuffle_ps", "__builtin_ia32_shufps"):
            a, b, imm = args[0], args[1], self.imm(args[2])
            return LV(per128(len(a), lambda o: [a.l[o + (imm & 3)], a.l[o + ((imm >> 2) & 3)], b.l[o + ((imm >> 4) & 3)], b.l[o + ((imm >> 6) & 3)]]))
        if name in ("_mm_castps_si128", "_mm_castsi128_ps", "_mm_castsi128_pd", "_mm_castpd_si128"):
            return args[0]
        if name in ("_mm_blend_epi16", "__builtin_ia32_pblendw128"):
            a, b, imm = args[0], args[1], self.imm(args[2])
            out = []
            for i in range(4):
                bits = (imm >> (2 * i)) & 3
                if bits not in (0, 3):
                    raise SymFail("blend_epi16 splits a dword")
                out.append(b.l[i] if bits else a.l[i])
            return LV(out)
        m = re.fullmatch(r"_mm(256|512)?_unpack(lo|hi)_epi(32|64)", name)
        if m:
            a, b = args
            hi = 2 if m.group(2) == "hi" else 0
            if m.group(3) == "32":
                return LV(per128(len(a), lambda o: [a.l[o + hi], b.l[o + hi], a.l[o + hi + 1], b.l[o + hi + 1]]))
            return LV(per128(len(a), lambda o: [a.l[o + hi], a.l[o + hi + 1], b.l[o + hi], b.l[o + hi + 1]]))
        if name in ("_mm256_permute2x128_si256", "_mm256_permute2f128_si256", "__builtin_ia32_permti256", "__builtin_ia32_vperm2f128_si256"):
            a, b, imm = args[0], args[1], self.imm(args[2])
            out = []
            for half in range(2):
                c = (imm >> (4 * half)) & 0xf
                if c & 8:
                    out += [T.const(0)] * 4
                else:
                    src = (a, a, b, b)[c & 3]
                    o = 4 * (c & 1)
                    out += src.l[o:o + 4]
            return LV(out)
        if name in ("_mm512_shuffle_i32x4", "__builtin_ia32_shuf_i32x4"):
            a, b, imm = args[0], args[1], self.imm(args[2])
            out = []
            for i in range(4):
                sel = (imm >> (2 * i)) & 3
                src = a if i < 2 else b
                out += src.l[4 * sel:4 * sel + 4]
            return LV(out)
        if name in ("_mm512_castsi512_si256", "_mm256_castsi256_si128"):
            return LV(args[0].l[:len(args[0]) // 2])
        if name in ("_mm256_mask_storeu_epi32", "__builtin_ia32_storedqusi256_mask", "_mm_mask_storeu_epi32", "__builtin_ia32_storedqusi128_mask"):
            if name.startswith("_mm"):
                p, k, v = args
            else:
                p, v, k = args
            ck = T.cval(k) if isinstance(k, int) else None
            if ck is None or (ck & ((1 << len(v)) - 1)) != (1 << len(v)) - 1:
                raise SymFail("masked store with a partial or non-constant mask")
            self.storev(p, v)
            return T.const(0)
        # ---- NEON
        if name == "vaddq_u32":
            return self.lanewise(lambda T, x, y: T.add(x, y), args[0], args[1])
        if name == "veorq_u32":
            return self.lanewise(asmsym.t_xor, args[0], args[1])
        if name == "vorrq_u32":
            return self.lanewise(asmsym.t_or, args[0], args[1])
        if name.startswith("vreinterpretq_") or name.startswith("vreinterpret_"):
            return args[0]
        if name == "vrev32q_u16":
            return LV([asmsym.rot(T, 16, x) for x in args[0].l])
        if name in ("__builtin_neon_vshlq_n_v", "__builtin_neon_vshrq_n_v"):
            k = self.imm(args[1])
            return LV([asmsym.t_shift(T, "shl" if "vshl" in name else "shr", x, k) for x in args[0].l])
        if name == "__builtin_neon_vsriq_n_v":
            a, b, k = args[0], args[1], self.imm(args[2])
            out = []
            for x, y in zip(a.l, b.l):
                tx = T.rev[x]
                if not (tx[0] == "shl" and tx[1] >= 32 - k) and T.cval(x) is None:
                    raise SymFail("vsri whose first operand does not have its low bits clear")
                out.append(asmsym.t_or(T, x, asmsym.t_shift(T, "shr", y, k)))
            return LV(out)
        if name in ("vld1q_u8", "vld1q_u32", "__builtin_neon_vld1q_v"):
            return self.loadv(args[0], 4)
        if name in ("vst1q_u8", "vst1q_u32", "__builtin_neon_vst1q_v"):
            self.storev(args[0], args[1])
            return T.const(0)
        if name in ("vld1q_dup_u32", "__builtin_neon_vld1q_dup_v"):
            p = args[0]
            v = get_path(p.cell.v, p.path) if p.path else p.cell.v
            return LV([v] * 4)
        if name == "vtrnq_u32":
            a, b = args
            return (LV([a.l[0], b.l[0], a.l[2], b.l[2]]), LV([a.l[1], b.l[1], a.l[3], b.l[3]]))
        if name == "vget_low_u32":
            return LV(args[0].l[:2])
        if name == "vget_high_u32":
            return LV(args[0].l[2:4])
        if name == "vcombine_u32":
            return LV(args[0].l + args[1].l)
        if name in ("_mm_prefetch", "__builtin_prefetch"):
            return T.const(0)
        return None

    def block(self, stmts, env, depth):
        # loops are accepted only when they have no effect on values (the prefetch loops of the kernels)
        for st in stmts:
            if st[0] == "loop":
                subs = [x for x in st if isinstance(x, list)]
                body = subs[0]
                if all(x[0] == "expr" and x[1][0] == "call" and x[1][1] in ("_mm_prefetch", "__builtin_prefetch") for x in body):
                    continue
                # a loop whose condition is decided by constants on every evaluation is unrolled (constant trip count)
                init = subs[1] if len(subs) > 1 else []
                step = subs[2] if len(subs) > 2 else []
                r = CSym.block(self, init, env, depth)
                for _ in range(65):
                    c = self.ev(st[2], env, depth)
                    cv = self.T.cval(c) if isinstance(c, int) else None
                    if cv is None:
                        raise SymFail("loop with a non-constant condition")
                    if not cv:
                        break
                    r = self.block(body, env, depth)
                    if r:
                        return r
                    CSym.block(self, step, env, depth)
                else:
                    raise SymFail("loop does not terminate within 64 iterations")
                continue
            r = CSym.block(self, [st], env, depth)
            if r:
                return r
        return None

    def shufflevector(self, vals):
        T = self.T
        a, b, idx = vals[0], vals[1], [T.cval(x) for x in vals[2:]]
        if not isinstance(a, LV) or a is not b and a.l != b.l or len(idx) != 4 * len(a) or any(i is None for i in idx):
            raise SymFail("shufflevector form")
        out = []
        for d in range(len(a)):
            bs = idx[4 * d:4 * d + 4]
            lanes = {x // 4 for x in bs}
            r = bs[0] % 4
            if len(lanes) != 1 or [x % 4 for x in bs] != [(r + j) % 4 for j in range(4)]:
                raise SymFail("shufflevector is not a whole-dword byte rotation")
            out.append(asmsym.rot(T, 8 * r, a.l[lanes.pop()]))
        return LV(out)

    def ev(self, e, env, depth, want_ptr=False):
        if e[0] == "un" and e[1] in ("++", "--", "post++", "post--"):
            cell, path = self.lv(e[2], env, depth)
            cur = get_path(cell.v, path) if path else cell.v
            c = self.T.cval(cur) if isinstance(cur, int) else None
            if c is None:
                raise SymFail("increment of a non-constant")
            nv = self.T.const(c + (1 if "+" in e[1] else -1))
            cell.v = set_path(cell.v, path, nv) if path else nv
            return nv if not e[1].startswith("post") else cur
        if e[0] == "sizeof":
            sz = {"__m128i": 16, "__m256i": 32, "__m512i": 64, "uint32x4_t": 16, "uint8x16_t": 16, "uint32_t": 4, "uint8_t": 1, "uint64_t": 8}.get(e[1])
            if sz is None:
                raise SymFail("sizeof(%s)" % e[1])
            return self.T.const(sz)
        return CSym.ev(self, e, env, depth, want_ptr)

    def call(self, name, args, depth):
        if name in self.overrides:
            return self.overrides[name](self, args)
        r = self.intrinsic(name, args)
        if r is not None:
            return r
        f = self.funcs.get(name)
        if f is not None:
            if depth > 12:
                raise SymFail("inlining depth")
            return self.run(f, args, depth + 1)
        raise SymFail("uninterpreted call %s in lane-precise mode" % name)


# ---------------------------------------------------------------- the same lane semantics for MIR (Rust intrinsics) ----
from symexec import SymExec  # noqa: E402
from mirlib import norm_path  # noqa: E402


class LaneSymExec(SymExec):
    """SymExec whose SIMD values are LV lanes; pointer helpers of core (as_ptr, add, casts) are modelled on Ptr paths"""

    def __init__(self, F, T, byte_cells=(), overrides=None):
        SymExec.__init__(self, F, T, overrides=overrides)
        self.cv = CVec([], T, byte_cells=byte_cells)

    def intrinsic(self, name, gargs, args, raw_callee):
        T = self.T
        n = norm_path(name)
        base = n.rsplit("::", 1)[-1]
        if base.startswith("_mm"):
            a2 = list(args)
            for g in gargs or []:
                if isinstance(g, str) and re.fullmatch(r"-?\d+", g.strip()):
                    a2.append(T.const(int(g)))
            r = self.cv.intrinsic(base, a2)
            if r is None:
                raise SymFail("intrinsic %s has no lane semantics" % base)
            return r
        if re.search(r"(slice::<impl \[T\]>|array::<impl \[T; N\]>|<impl \[T\]>)::as_(mut_)?ptr$", n) or base in ("as_ptr", "as_mut_ptr"):
            p = args[0]
            if not isinstance(p, Ptr):
                raise SymFail("as_ptr of a non-reference")
            return Ptr(p.cell, p.path + (0,))
        if re.search(r"ptr::(const_ptr|mut_ptr)::<impl \*(const|mut) T>::add$", n):
            p, k = args
            ck = T.cval(k) if isinstance(k, int) else None
            if not isinstance(p, Ptr) or ck is None or not p.path:
                raise SymFail("pointer add with a non-constant offset")
            return Ptr(p.cell, p.path[:-1] + (p.path[-1] + ck,))
        if re.match(r"core::num::<impl u32>::wrapping_add$", n) or re.match(r"core::num::<impl u32>::rotate_right$", n):
            return SymExec.intrinsic(self, name, gargs, args, raw_callee)
        if n.endswith("intrinsics::transmute") or base == "transmute":
            return args[0]
        if n.endswith("IntoIterator>::into_iter") and len(args) == 1:
            return args[0]        # a Range is its own iterator
        return None
