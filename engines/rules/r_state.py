"""S rules: state discipline of Hasher / OutputReader (DESIGN.md section 2, family S)."""
from mirlib import *

HASHER = "Hasher"
RESET = "Hasher::reset"
CTOR = "Hasher::new_internal"
POINTERISH = ("ref", "ref_mut", "rawptr", "fn", "dyn")
SHARING_ADTS = ("alloc::boxed::Box", "alloc::rc::Rc", "alloc::sync::Arc", "core::cell::UnsafeCell",
                "core::cell::Cell", "core::cell::RefCell", "std::sync::Mutex", "core::sync::atomic")


def deep_strip(e):
    """drop ref wrappers and deref marks everywhere (value-level comparison)"""
    if not isinstance(e, tuple):
        return e
    if e and e[0] == "ref":
        return deep_strip(e[1])
    if e and e[0] == "path":
        root, el = path_fields(e)
        root = deep_strip(root)
        el = tuple(deep_strip(x) if isinstance(x, tuple) else x for x in el)
        if not el:
            return root
        return ("path", root, el)
    return tuple(deep_strip(x) for x in e)


def ret_expr(fn):
    return fn.expr_local(0)


def subst_args(e, args):
    """replace ('arg', i, name) by args[i-1]"""
    if not isinstance(e, tuple):
        return e
    if e and e[0] == "arg":
        return args[e[1] - 1] if e[1] - 1 < len(args) else e
    return tuple(subst_args(x, args) for x in e)


def leaf_map(F, e, prefix=(), depth=0):
    """expand a struct-valued expression into {leaf field path -> expression}, inlining local
    constructor functions whose return value is a struct literal"""
    e = deep_strip(e)
    if depth < 6 and isinstance(e, tuple):
        if e[0] == "adt" and len(e[3]) == len(e[4]) and e[3]:
            out = {}
            for f, o in zip(e[3], e[4]):
                out.update(leaf_map(F, o, prefix + (f,), depth + 1))
            return out
        if e[0] == "call":
            callee = F.fn(e[1])
            if callee is not None:
                r = deep_strip(ret_expr(callee))
                if isinstance(r, tuple) and r[0] == "adt" and r[3] and len(r[3]) == len(r[4]):
                    return leaf_map(F, subst_args(r, [deep_strip(a) for a in e[2]]), prefix, depth + 1)
    return {prefix: e}


def subst_self_leaves(e, selfidx, table):
    """replace self.<L> by table[L] for L in table"""
    if not isinstance(e, tuple):
        return e
    if e and e[0] == "path":
        root, el = path_fields(e)
        if root[0] == "arg" and root[1] == selfidx and all(isinstance(x, str) for x in el) and el in table:
            return table[el]
    return tuple(subst_self_leaves(x, selfidx, table) for x in e)


def hasher_mut_fns(F, ty="&mut Hasher"):
    for p, f in F.fns.items():
        if not f.has_body:
            continue
        for i in range(1, f.argc + 1):
            if f.locals[i]["ty"] == ty:
                yield p, f, i


def covered(q, R):
    """write path q is restored if reset writes a prefix of it (whole sub-object)"""
    for r in R:
        rr = tuple(x for x in r if x != "*")
        if q[: len(rr)] == rr:
            return True
    return False


def zeroize_fn(F):
    for p in F.fns:
        if p.startswith("<Hasher as zeroize::Zeroize>::zeroize"):
            return p
    return None


def rule_S1(ctx, F):
    """reset coverage: every Hasher field written through &mut Hasher anywhere is written by reset"""
    F.need_fn(RESET)
    cut = {RESET}
    z = zeroize_fn(F)
    if z:
        cut.add(z)
    ws = F.write_summaries(cut=cut)
    where = F._wwhere
    W = {}
    nfn = 0
    for p, f, i in hasher_mut_fns(F):
        if p in cut:
            continue
        nfn += 1
        for (a, el) in ws[p]:
            if a == i and el:
                W.setdefault(el, (p, where[p].get((a, el), f.loc)))
    wr = F.write_summaries(cut=set())
    R = set(el for (a, el) in wr[RESET] if a == 1)
    ctx.floor("functions taking &mut Hasher", nfn, 5)
    ctx.floor("distinct Hasher field paths written outside reset", len(W), 3)
    fields = [f["name"] for f in F.adt_fields(HASHER)]
    top_written = sorted(set(el[0] for el in W))
    for top in top_written:
        sub = [el for el in W if el[0] == top]
        bad = [el for el in sub if not covered(el, R)]
        wfn, wloc = W[sub[0]]
        ctx.ob(not bad, "reset-restores:%s" % top, wloc if bad else F.fn(RESET).loc,
               ("field `%s` of Hasher is written by %s (%s) but Hasher::reset assigns only {%s}"
                % (".".join(bad[0]), W[bad[0]][0], W[bad[0]][1], ", ".join(sorted(".".join(r) for r in R))))
               if bad else "written outside reset via %s; reset writes a covering path" % wfn)
    ctx.extra.setdefault("S1", {})[F.cfg] = dict(written=sorted(".".join(e) for e in W), reset=sorted(".".join(r) for r in R),
                                                 hasher_fields=fields)


RESET_EQUIV = {
    # foreign call through &mut field  ==  constructor expression for that field
    "arrayvec::ArrayVec::<T, CAP>::clear": ("call", "arrayvec::ArrayVec::<T, CAP>::new", ()),
}


def rule_S2(ctx, F):
    """reset value = constructor value, modulo fields that are immutable after construction"""
    reset = F.need_fn(RESET)
    ctor = F.need_fn(CTOR)
    C = leaf_map(F, ret_expr(ctor))
    ctx.floor("constructor leaf fields", len(C), 8)
    cut = {RESET}
    z = zeroize_fn(F)
    if z:
        cut.add(z)
    ws = F.write_summaries(cut=cut)
    direct = F._wdirect
    # --- which leaves are stable (hold their constructor value forever)?
    stable = set(C)
    # collect every direct whole-assign statement into a Hasher-rooted place, per function
    assigns = []  # (fn, selfidx, field path, value expr, loc)
    for p, f, i in hasher_mut_fns(F):
        if p in cut:
            continue
        for bi, si, s in f.stmts():
            if s["k"] != "assign" or not s["place"]["p"]:
                continue
            root, el = path_fields(f.expr_place(s["place"]))
            if root[0] == "arg" and root[1] == i:
                assigns.append((p, i, fields_only(el), f.expr_rvalue(s["rv"]), s.get("s")))
    # leaves touched through callees (partial writes below Hasher level) are unstable; an entry
    # inherited from a callee that itself takes &mut Hasher is examined there as a direct assign
    D = set()
    for p, f, i in hasher_mut_fns(F):
        if p not in cut:
            D |= set(el for (a, el) in direct.get(p, ()) if a == i)
    for p, f, i in hasher_mut_fns(F):
        if p in cut:
            continue
        for (a, el) in ws[p]:
            if a != i:
                continue
            if el in D:
                continue
            for L in list(stable):
                q = tuple(x for x in el if x != "*")
                if L[: len(q)] == q or q[: len(L)] == L:
                    stable.discard(L)
    changed = True
    while changed:
        changed = False
        table = {L: C[L] for L in stable}
        for (p, i, q, val, loc) in assigns:
            lm = leaf_map(F, val, q)
            for L in list(stable):
                if L[: len(q)] != q:
                    if q[: len(L)] == L and len(q) > len(L):
                        stable.discard(L)
                        changed = True
                    continue
                v = lm.get(L)
                if v is None:
                    # assigned as an opaque whole: cannot see the leaf
                    stable.discard(L)
                    changed = True
                    continue
                if subst_self_leaves(deep_strip(v), i, table) != C[L]:
                    stable.discard(L)
                    changed = True
    table = {L: C[L] for L in stable}
    ctx.extra.setdefault("S2_stable_leaves", {})[F.cfg] = sorted(".".join(L) for L in stable)
    ctx.floor("leaves immutable after construction (key, flags, platform)", len(stable), 3)
    # --- every write of reset equals the constructor value
    n = 0
    for bi, si, s in reset.stmts():
        if s["k"] != "assign" or not s["place"]["p"]:
            continue
        root, el = path_fields(reset.expr_place(s["place"]))
        if not (root[0] == "arg" and root[1] == 1):
            continue
        q = fields_only(el)
        lm = leaf_map(F, reset.expr_rvalue(s["rv"]), q)
        for L, v in sorted(lm.items()):
            n += 1
            got = subst_self_leaves(deep_strip(v), 1, table)
            want = C.get(L)
            if want is None:
                # deeper or shallower than constructor leaves: compare on the common prefix
                cands = {k: x for k, x in C.items() if k[: len(L)] == L}
                ok = bool(cands) and False
            else:
                ok = got == want
            ctx.ob(ok, "reset-value:%s" % ".".join(L), s.get("s"),
                   "reset assigns %s ; constructor value is %s" % (show(got), show(want) if want else "?"))
    for bi, t in reset.calls():
        name = callee_name(t["callee"])
        for ai, a in enumerate(t["args"]):
            e = reset.expr_operand(a)
            if not (isinstance(e, tuple) and e[0] == "ref" and e[2]):
                continue
            root, el = path_fields(e)
            if root[0] == "arg" and root[1] == 1 and el:
                n += 1
                q = fields_only(el)
                want = C.get(q)
                eq = RESET_EQUIV.get(name)
                ok = eq is not None and want is not None and deep_strip(want) == eq
                ctx.ob(ok, "reset-value:%s" % ".".join(q), t.get("s"),
                       "reset calls %s on &mut self.%s ; constructor value is %s%s"
                       % (name, ".".join(q), show(want) if want else "?",
                          "" if ok else " -- not a recognised constructor-equivalent"))
    ctx.floor("reset writes", n, 2)


def rule_clone(ctx, F):
    """clone independence by type structure (S4, clone clause)"""
    n = 0
    for ty in ("Hasher", "ChunkState", "Output", "OutputReader", "Hash"):
        a = F.adts.get(ty)
        if a is None:
            raise MissingAnchor("type %s not found" % ty)
        for v in a["variants"]:
            for fld in v["fields"]:
                n += 1
                w = set(fld["walk"])
                bad = [x for x in w if x in POINTERISH or any(x == "adt:" + s or x.startswith("adt:" + s) for s in SHARING_ADTS)]
                bad = [x for x in bad if norm_path(x) == norm_path(x)]
                ctx.ob(not bad, "no-shared-storage:%s.%s" % (ty, fld["name"]), a["s"],
                       "field type %s contains %s" % (fld["ty"], bad) if bad else "field type %s: plain data" % fld["ty"])
        ctx.ob(a.get("freeze") is True, "freeze:%s" % ty, a["s"], "type has no interior mutability (Freeze=%s)" % a.get("freeze"))
    for ty in ("Hasher", "ChunkState", "Output", "OutputReader"):
        imp = [i for i in F.impls if i["self"] == ty and i["trait"] and norm_path(i["trait"]) == "core::clone::Clone"]
        ctx.ob(len(imp) == 1 and imp[0]["derived"], "clone-derived:%s" % ty, imp[0]["s"] if imp else "",
               "Clone for %s is #[derive]d (field-wise copy of plain data)" % ty if imp and imp[0]["derived"]
               else "Clone for %s is hand-written or missing: cannot conclude it copies every field" % ty)
    ctx.floor("state fields inspected", n, 18)
