"""S rules: state discipline of Hasher / OutputReader (DESIGN.md section 2, family S)."""
from mirlib import *

HASHER = "Hasher"
RESET = "Hasher::reset"
CTOR = "Hasher::new_internal"
POINTERISH = ("ref", "ref_mut", "rawptr", "fn", "dyn")
SHARING_ADTS = ("alloc::boxed::Box", "alloc::rc::Rc", "alloc::sync::Arc", "core::cell::UnsafeCell",
                "core::cell::Cell", "core::cell::RefCell", "std::sync::Mutex", "core::sync::atomic")


def deep_strip(e):
    """drop ref wrappers and deref marks everywhere (value-level comparison)"""
    if not isinstance(e, tuple):
        return e
    if e and e[0] == "ref":
        return deep_strip(e[1])
    if e and e[0] == "path":
        root, el = path_fields(e)
        root = deep_strip(root)
        el = tuple(deep_strip(x) if isinstance(x, tuple) else x for x in el)
        if not el:
            return root
        return ("path", root, el)
    return tuple(deep_strip(x) for x in e)


def ret_expr(fn):
    return fn.expr_local(0)


def subst_args(e, args):
    """replace ('arg', i, name) by args[i-1]"""
    if not isinstance(e, tuple):
        return e
    if e and e[0] == "arg":
        return args[e[1] - 1] if e[1] - 1 < len(args) else e
    return tuple(subst_args(x, args) for x in e)


def leaf_map(F, e, prefix=(), depth=0):
    """expand a struct-valued expression into {leaf field path -> expression}, inlining local
    constructor functions whose return value is a struct literal"""
    e = deep_strip(e)
    if depth < 6 and isinstance(e, tuple):
        if e[0] == "adt" and len(e[3]) == len(e[4]) and e[3]:
            out = {}
            for f, o in zip(e[3], e[4]):
                out.update(leaf_map(F, o, prefix + (f,), depth + 1))
            return out
        if e[0] == "call":
            callee = F.fn(e[1])
            if callee is not None:
                r = deep_strip(ret_expr(callee))
                if isinstance(r, tuple) and r[0] == "adt" and r[3] and len(r[3]) == len(r[4]):
                    return leaf_map(F, subst_args(r, [deep_strip(a) for a in e[2]]), prefix, depth + 1)
    return {prefix: e}


def subst_self_leaves(e, selfidx, table):
    """replace self.<L> by table[L] for L in table"""
    if not isinstance(e, tuple):
        return e
    if e and e[0] == "path":
        root, el = path_fields(e)
        if root[0] == "arg" and root[1] == selfidx and all(isinstance(x, str) for x in el) and el in table:
            return table[el]
    return tuple(subst_self_leaves(x, selfidx, table) for x in e)


def hasher_mut_fns(F, ty="&mut Hasher"):
    for p, f in F.fns.items():
        if not f.has_body:
            continue
        for i in range(1, f.argc + 1):
            if f.locals[i]["ty"] == ty:
                yield p, f, i


def covered(q, R):
    """write path q is restored if reset writes a prefix of it (whole sub-object)"""
    for r in R:
        rr = tuple(x for x in r if x != "*")
        if q[: len(rr)] == rr:
            return True
    return False


def zeroize_fn(F):
    for p in F.fns:
        if p.startswith("<Hasher as zeroize::Zeroize>::zeroize"):
            return p
    return None


def clone_fns(F):
    """hand-written Clone methods of the state types: whole-object replacement, decided by rule_clone (field coverage), not by
    the reset / gate rules"""
    return set(p for p in F.fns if "core::clone::Clone>::clone" in norm_path(p) or "std::clone::Clone>::clone" in norm_path(p))


def rule_S1(ctx, F):
    """reset coverage: every Hasher field written through &mut Hasher anywhere is written by reset"""
    F.need_fn(RESET)
    cut = {RESET} | clone_fns(F)
    z = zeroize_fn(F)
    if z:
        cut.add(z)
    ws = F.write_summaries(cut=cut)
    where = F._wwhere
    W = {}
    nfn = 0
    for p, f, i in hasher_mut_fns(F):
        if p in cut:
            continue
        nfn += 1
        for (a, el) in ws[p]:
            if a == i and el:
                W.setdefault(el, (p, where[p].get((a, el), f.loc)))
    wr = F.write_summaries(cut=set())
    R_may = set(el for (a, el) in wr[RESET] if a == 1)
    # must-writes: a write of reset counts only if its block dominates every return of reset
    reset = F.fn(RESET)
    rets = reset.returns()
    R = set()
    for bi, si, s in reset.stmts():
        if s["k"] == "assign" and s["place"]["p"]:
            root, el = path_fields(reset.expr_place(s["place"]))
            if root[0] == "arg" and root[1] == 1 and all(reset.dominates(bi, r) for r in rets):
                R.add(fields_only(el))
    for bi, t in reset.calls():
        for a in t["args"]:
            e = reset.expr_operand(a)
            if isinstance(e, tuple) and e[0] == "ref" and e[2]:
                root, el = path_fields(e)
                if root[0] == "arg" and root[1] == 1 and el and all(reset.dominates(bi, r) for r in rets):
                    callee = callee_name(t["callee"])
                    if F.fn(callee) is None:
                        R.add(fields_only(el) + ("*",))
                    else:
                        for (ca, cel) in wr.get(callee, ()):
                            R.add(fields_only(el) + cel)
    ctx.extra.setdefault("S1_conditional_reset_writes", {})[F.cfg] = sorted(".".join(r) for r in R_may if not covered(tuple(x for x in r if x != "*"), R) and r not in R)
    ctx.floor("functions taking &mut Hasher", nfn, 5)
    ctx.floor("distinct Hasher field paths written outside reset", len(W), 3)
    fields = [f["name"] for f in F.adt_fields(HASHER)]
    top_written = sorted(set(el[0] for el in W))
    for top in top_written:
        sub = [el for el in W if el[0] == top]
        bad = [el for el in sub if not covered(el, R)]
        wfn, wloc = W[sub[0]]
        ctx.ob(not bad, "reset-restores:%s" % top, wloc if bad else F.fn(RESET).loc,
               ("field `%s` of Hasher is written by %s (%s) but Hasher::reset assigns, on every path to its return, only {%s}%s"
                % (".".join(bad[0]), W[bad[0]][0], W[bad[0]][1], ", ".join(sorted(".".join(r) for r in R)),
                   " (it is written on SOME paths only: an early return skips the reset)" if covered(bad[0], R_may) else ""))
               if bad else "written outside reset via %s; reset writes a covering path" % wfn)
    ctx.extra.setdefault("S1", {})[F.cfg] = dict(written=sorted(".".join(e) for e in W), reset=sorted(".".join(r) for r in R),
                                                 hasher_fields=fields)


RESET_EQUIV = {
    # foreign call through &mut field  ==  constructor expression for that field
    "arrayvec::ArrayVec::<T, CAP>::clear": ("call", "arrayvec::ArrayVec::<T, CAP>::new", ()),
}


def rule_S2(ctx, F):
    """reset value = constructor value, modulo fields that are immutable after construction"""
    reset = F.need_fn(RESET)
    ctor = F.need_fn(CTOR)
    C = leaf_map(F, ret_expr(ctor))
    ctx.floor("constructor leaf fields", len(C), 8)
    cut = {RESET} | clone_fns(F)
    z = zeroize_fn(F)
    if z:
        cut.add(z)
    ws = F.write_summaries(cut=cut)
    direct = F._wdirect
    # --- which leaves are stable (hold their constructor value forever)?
    stable = set(C)
    # collect every direct whole-assign statement into a Hasher-rooted place, per function
    assigns = []  # (fn, selfidx, field path, value expr, loc)
    for p, f, i in hasher_mut_fns(F):
        if p in cut:
            continue
        for bi, si, s in f.stmts():
            if s["k"] != "assign" or not s["place"]["p"]:
                continue
            root, el = path_fields(f.expr_place(s["place"]))
            if root[0] == "arg" and root[1] == i:
                assigns.append((p, i, fields_only(el), f.expr_rvalue(s["rv"]), s.get("s")))
    # leaves touched through callees (partial writes below Hasher level) are unstable; an entry
    # inherited from a callee that itself takes &mut Hasher is examined there as a direct assign
    D = set()
    for p, f, i in hasher_mut_fns(F):
        if p not in cut:
            D |= set(el for (a, el) in direct.get(p, ()) if a == i)
    for p, f, i in hasher_mut_fns(F):
        if p in cut:
            continue
        for (a, el) in ws[p]:
            if a != i:
                continue
            if el in D:
                continue
            for L in list(stable):
                q = tuple(x for x in el if x != "*")
                if L[: len(q)] == q or q[: len(L)] == L:
                    stable.discard(L)
    changed = True
    while changed:
        changed = False
        table = {L: C[L] for L in stable}
        for (p, i, q, val, loc) in assigns:
            lm = leaf_map(F, val, q)
            for L in list(stable):
                if L[: len(q)] != q:
                    if q[: len(L)] == L and len(q) > len(L):
                        stable.discard(L)
                        changed = True
                    continue
                v = lm.get(L)
                if v is None:
                    # assigned as an opaque whole: cannot see the leaf
                    stable.discard(L)
                    changed = True
                    continue
                if subst_self_leaves(deep_strip(v), i, table) != C[L]:
                    stable.discard(L)
                    changed = True
    table = {L: C[L] for L in stable}
    ctx.extra.setdefault("S2_stable_leaves", {})[F.cfg] = sorted(".".join(L) for L in stable)
    ctx.floor("leaves immutable after construction (key, flags, platform)", len(stable), 3)
    # --- every write of reset equals the constructor value
    n = 0
    for bi, si, s in reset.stmts():
        if s["k"] != "assign" or not s["place"]["p"]:
            continue
        root, el = path_fields(reset.expr_place(s["place"]))
        if not (root[0] == "arg" and root[1] == 1):
            continue
        q = fields_only(el)
        lm = leaf_map(F, reset.expr_rvalue(s["rv"]), q)
        for L, v in sorted(lm.items()):
            n += 1
            got = subst_self_leaves(deep_strip(v), 1, table)
            want = C.get(L)
            if want is None:
                # deeper or shallower than constructor leaves: compare on the common prefix
                cands = {k: x for k, x in C.items() if k[: len(L)] == L}
                ok = bool(cands) and False
            else:
                ok = got == want
            ctx.ob(ok, "reset-value:%s" % ".".join(L), s.get("s"),
                   "reset assigns %s ; constructor value is %s" % (show(got), show(want) if want else "?"))
    for bi, t in reset.calls():
        name = callee_name(t["callee"])
        for ai, a in enumerate(t["args"]):
            e = reset.expr_operand(a)
            if not (isinstance(e, tuple) and e[0] == "ref" and e[2]):
                continue
            root, el = path_fields(e)
            if root[0] == "arg" and root[1] == 1 and el:
                n += 1
                q = fields_only(el)
                want = C.get(q)
                eq = RESET_EQUIV.get(name)
                ok = eq is not None and want is not None and deep_strip(want) == eq
                ctx.ob(ok, "reset-value:%s" % ".".join(q), t.get("s"),
                       "reset calls %s on &mut self.%s ; constructor value is %s%s"
                       % (name, ".".join(q), show(want) if want else "?",
                          "" if ok else " -- not a recognised constructor-equivalent"))
    ctx.floor("reset writes", n, 2)


def _handwritten_clone(ctx, F, ty, imp):
    """a hand-written Clone: `clone` builds Self with every field taken from the same field of self (copied or cloned), and
    `clone_from`, if overridden, assigns EVERY field of self from the same field of the source on the way to its return"""
    fields = [f["name"] for f in F.adt_fields(ty)]
    cl = cf = None
    for p, f in F.fns.items():
        np_ = norm_path(p)
        if np_ == "<%s as core::clone::Clone>::clone" % ty and f.has_body:
            cl = f
        if np_ == "<%s as core::clone::Clone>::clone_from" % ty and f.has_body:
            cf = f
    if cl is None:
        raise MissingAnchor("<%s as Clone>::clone" % ty)
    e = val(cl.expr_local(0))
    okc = e[0] == "adt" and tuple(e[3]) == tuple(fields) if len(e) > 3 else False
    bad = []
    if okc:
        for name, op in zip(e[3], e[4]):
            so = show(op)
            if not ("self.%s" % name in so and (so == "self.%s" % name or "clone(" in so)):
                bad.append("%s := %s" % (name, so[:60]))
    ctx.ob(okc and not bad, "clone-handwritten:%s:clone" % ty, cl.loc, "; ".join(bad) or ("clone() builds %s from every field of self" % ty if okc else "clone() does not build a complete %s: %s" % (ty, show(e)[:80])))
    if cf is None:
        return
    covered_f = {}
    rets = cf.returns()
    for bi, si, s_ in cf.stmts():
        pl = s_["place"]
        if pl["l"] == 1 and len(pl["p"]) >= 2 and pl["p"][0] == "deref" and isinstance(pl["p"][1], dict) and pl["p"][1].get("of") == ty:
            name = pl["p"][1]["f"]
            so = show(val(cf.expr_rvalue(s_["rv"])))
            if len(pl["p"]) == 2 and ("source.%s" % name in so or "other.%s" % name in so or ".%s" % name in so) and all(cf.dominates(bi, r) for r in rets):
                covered_f[name] = "assigned"
    for bi, t in cf.calls():
        cn = norm_path(callee_name(t["callee"]))
        if cn.endswith("::clone_from") and len(t["args"]) == 2:
            ev = val(cf.expr_call(t))
            a, b = show(ev[2][0]), show(ev[2][1])
            for name in fields:
                if a.endswith("self.%s" % name) and b.endswith(".%s" % name) and all(cf.dominates(bi, r) for r in rets):
                    covered_f[name] = "clone_from"
    miss = [n for n in fields if n not in covered_f]
    ctx.ob(not miss, "clone-handwritten:%s:clone_from" % ty, cf.loc,
           "clone_from leaves %s of the destination untouched: the result is not a copy of the source" % miss if miss else "clone_from assigns every field (%s)" % ", ".join("%s: %s" % kv for kv in sorted(covered_f.items())))


def rule_clone(ctx, F):
    """clone independence by type structure (S4, clone clause)"""
    n = 0
    for ty in ("Hasher", "ChunkState", "Output", "OutputReader", "Hash"):
        a = F.adts.get(ty)
        if a is None:
            raise MissingAnchor("type %s not found" % ty)
        for v in a["variants"]:
            for fld in v["fields"]:
                n += 1
                w = set(fld["walk"])
                bad = [x for x in w if x in POINTERISH or any(x == "adt:" + s or x.startswith("adt:" + s) for s in SHARING_ADTS)]
                bad = [x for x in bad if norm_path(x) == norm_path(x)]
                ctx.ob(not bad, "no-shared-storage:%s.%s" % (ty, fld["name"]), a["s"],
                       "field type %s contains %s" % (fld["ty"], bad) if bad else "field type %s: plain data" % fld["ty"])
        ctx.ob(a.get("freeze") is True, "freeze:%s" % ty, a["s"], "type has no interior mutability (Freeze=%s)" % a.get("freeze"))
    for ty in ("Hasher", "ChunkState", "Output", "OutputReader"):
        imp = [i for i in F.impls if i["self"] == ty and i["trait"] and norm_path(i["trait"]) == "core::clone::Clone"]
        if len(imp) == 1 and not imp[0]["derived"]:
            _handwritten_clone(ctx, F, ty, imp[0])
            continue
        ctx.ob(len(imp) == 1 and imp[0]["derived"], "clone-derived:%s" % ty, imp[0]["s"] if imp else "",
               "Clone for %s is #[derive]d (field-wise copy of plain data)" % ty if imp and imp[0]["derived"]
               else "Clone for %s is missing" % ty)
    ctx.floor("state fields inspected", n, 18)


# ------------------------------------------------------------------ S3 / S4 / merge order ----
GATES = {"Hasher::reset", "Hasher::update_with_join", "<Hasher as hazmat::HasherExt>::set_input_offset"}
QUERIES = ["Hasher::finalize", "Hasher::finalize_xof", "Hasher::count", "<Hasher as hazmat::HasherExt>::finalize_non_root",
           "OutputReader::position", "Hasher::final_output"]


def public_entries(F):
    out = []
    for p, f in F.fns.items():
        if not f.has_body or f.kind == "closure":
            continue
        if f.j.get("pub") or f.j.get("impl_trait"):
            out.append(p)
    return out


def rule_S3(ctx, F):
    """writers funnel: a function that writes Hasher fields is reachable from the public API only
    through a gate (reset, set_input_offset, zeroize, update_with_join)"""
    gates = set(GATES) | clone_fns(F)      # a hand-written clone_from replaces the whole object (rule_clone decides its coverage)
    z = zeroize_fn(F)
    if z:
        gates.add(z)
    F.write_summaries()
    direct = F._wdirect
    Wf = set()
    for p, f, i in hasher_mut_fns(F):
        if any(a == i for a, el in direct.get(p, ())):
            Wf.add(p)
        else:
            # foreign callee handed &mut self.field (ArrayVec::push ...) counts as a direct write
            for bi, t in f.calls():
                if F.fn(callee_name(t["callee"])) is None:
                    for a in t["args"]:
                        e = f.expr_operand(a)
                        root, el = path_fields(e)
                        if root[0] == "arg" and root[1] == i and el and (is_mut_ref_type(a) or (e[0] == "ref" and e[2])):
                            Wf.add(p)
    ctx.floor("functions writing Hasher fields", len(Wf), 5)
    ctx.extra.setdefault("S3_writers", {})[F.cfg] = sorted(Wf)
    cg = F.callgraph()
    entries = public_entries(F)
    # reachability with gates removed
    seen = set()
    st = [e for e in entries if e not in gates]
    seen.update(st)
    parent = {}
    while st:
        x = st.pop()
        for y in cg.get(x, ()):
            if y in gates or y in seen:
                continue
            seen.add(y)
            parent[y] = x
            st.append(y)
    for w in sorted(Wf - gates):
        bad = w in seen
        chain = []
        if bad:
            x = w
            while x in parent and len(chain) < 8:
                chain.append(x)
                x = parent[x]
            chain.append(x)
        ctx.ob(not bad, "writer-behind-gate:%s" % w, F.fns[w].loc,
               "reachable from the public API only through a gate" if not bad else "reachable without a gate: %s" % " <- ".join(chain))
    # the absorbing entry points hand their own slice to the one update_with_join
    for name, join in (("Hasher::update", "join::SerialJoin"), ("Hasher::update_rayon", "join::RayonJoin")):
        fn = F.fn(name)
        if fn is None:
            if name == "Hasher::update":
                raise MissingAnchor(name)
            continue
        cs = [(bi, t) for bi, t in fn.calls()]
        ok = len(cs) == 1 and callee_name(cs[0][1]["callee"]) == "Hasher::update_with_join" and cs[0][1]["callee"].get("args") == [join] \
            and val(fn.expr_call(cs[0][1]))[2] == (("arg", 1, "self"), ("arg", 2, "input"))
        ctx.ob(ok, "absorb-funnel:%s" % name, fn.loc, "%s = update_with_join::<%s>(self, input): %s" % (name, join, ok))


def rule_S4(ctx, F):
    """queries are pure by type: &self receivers, and no shared-to-mutable pointer laundering in
    anything they reach inside the tree logic"""
    n = 0
    for q in QUERIES:
        fn = F.fn(q)
        if fn is None:
            raise MissingAnchor(q)
        recv = fn.j["params"][0] if fn.j.get("params") else "?"
        ctx.ob(recv.startswith("&") and not recv.startswith("&mut"), "query-shared-receiver:%s" % q, fn.loc, "%s(%s, ..)" % (q, recv))
    reach = F.reachable_fns(QUERIES)
    for p in sorted(reach):
        fn = F.fns[p]
        if not fn.has_body:
            continue
        n += 1
        for bi, si, s in fn.stmts():
            if s["k"] != "assign":
                continue
            rv = s["rv"]
            launder = None
            if rv["k"] == "cast" and rv["ty"].startswith("*mut") and (rv["from"].startswith("*const") or rv["from"].startswith("&") and not rv["from"].startswith("&mut")):
                launder = "cast %s -> %s" % (rv["from"], rv["ty"])
            if rv["k"] == "rawptr" and rv["mut"]:
                e = fn.expr_place(rv["place"])
                root, el = path_fields(e)
                if root[0] == "arg" and fn.locals[root[1]]["ty"].startswith("&") and not fn.locals[root[1]]["ty"].startswith("&mut"):
                    launder = "&raw mut through shared parameter %s" % fn.names.get(root[1])
            if launder:
                ctx.ob(False, "no-mut-laundering:%s" % p, s.get("s"), "%s in %s, reachable from a &self query" % (launder, p))
    ctx.ob(True, "no-mut-laundering:scan", "", "scanned %d function bodies reachable from the queries" % n)
    ctx.floor("bodies reachable from the &self queries", n, 10)
    # root compressions are not reachable from the absorbing path (structural content of lazy merging)
    upd = F.reachable_fns(["Hasher::update_with_join"])
    for r in ("Output::root_hash", "Output::root_output_block", "OutputReader::fill", "OutputReader::new"):
        ctx.ob(r not in upd, "no-root-on-update-path:%s" % r, F.fns[r].loc if r in F.fns else "", "%s reachable from update_with_join: %s" % (r, r in upd))


def origin_local(fn, operand):
    """follow copy/move/ref/reborrow chains of single-definition temporaries back to a base local"""
    if operand["k"] not in ("copy", "move"):
        return None
    l = operand["place"]["l"]
    for _ in range(20):
        ds = [d for d in fn.defs().get(l, []) if d[0] in ("assign", "call")]
        if len(ds) != 1 or ds[0][0] != "assign":
            return l
        rv = ds[0][3]["rv"]
        if rv["k"] == "use" and rv["op"]["k"] in ("copy", "move"):
            l = rv["op"]["place"]["l"]
        elif rv["k"] in ("ref", "rawptr"):
            l = rv["place"]["l"]
        else:
            return l
    return l


def _src_call_block(fn, operand, callee_suffix):
    """block of the `callee_suffix` call (e.g. pop) whose unwrapped result is the value behind operand"""
    l = origin_local(fn, operand)
    if l is None:
        return None
    for d in fn.defs().get(l, []):
        if d[0] == "call" and d[2]["args"]:
            il = origin_local(fn, d[2]["args"][0])
            for d2 in fn.defs().get(il, []):
                if d2[0] == "call" and norm_path(callee_name(d2[2]["callee"])).endswith(callee_suffix):
                    return d2[1]
    return None


def rule_merge_order(ctx, F):
    m = F.need_fn("Hasher::merge_cv_stack")
    pn = [(bi, t) for bi, t in m.calls() if callee_name(t["callee"]) == "parent_node_output"]
    ctx.ob(len(pn) == 1, "merge-one-parent", m.loc, "%d parent_node_output call(s) in merge_cv_stack" % len(pn))
    for bi, t in pn:
        lb = _src_call_block(m, t["args"][0], "ArrayVec::<T, CAP>::pop")
        rb = _src_call_block(m, t["args"][1], "ArrayVec::<T, CAP>::pop")
        ok = lb is not None and rb is not None and lb != rb and m.dominates(rb, lb)
        ctx.ob(ok, "merge-pop-order", t.get("s"), "right child is popped first (block %s), left child second (block %s): %s" % (rb, lb, ok))
        e = val(m.expr_call(t))
        ctx.ob(e[2][2:] == (P.self_("key"), P.self_("chunk_state", "flags"), P.self_("chunk_state", "platform")), "merge-key-flags", t.get("s"),
               "parent_node_output(_, _, %s)" % ", ".join(show(a) for a in e[2][2:]))
        pushes = [(b2, val(m.expr_call(t2))) for b2, t2 in m.calls() if norm_path(callee_name(t2["callee"])).endswith("ArrayVec::<T, CAP>::push")]
        ok = len(pushes) == 1 and pushes[0][1][2][1][0] == "call" and pushes[0][1][2][1][1] == "Output::chaining_value"
        ctx.ob(ok, "merge-pushes-non-root-cv", t.get("s"), "merged node is pushed as chaining_value(): %s" % ok)
    fo = F.need_fn("Hasher::final_output")
    pns = [(bi, val(fo.expr_call(t)), t.get("s")) for bi, t in fo.calls() if callee_name(t["callee"]) == "parent_node_output"]
    ctx.ob(len(pns) == 2, "final-two-parent-sites", fo.loc, "%d parent_node_output call(s) in final_output" % len(pns))
    N = W("n")
    IDX = lambda k: ("path", ("call", W(pred=lambda s: isinstance(s, str) and "Deref" in s), (P.self_("cv_stack"),)), (("idx", P.bin("Sub", N, P.const(k))),))
    for bi, e, where in pns:
        a = e[2]
        pair = unify((IDX(2), IDX(1)), (a[0], a[1]))
        fold = unify(IDX(1), a[0]) is not None and a[1][0] == "call" and a[1][1] == "Output::chaining_value"
        nx = a[0][1] if (a[0][0] == "path" and isinstance(a[0][1], tuple)) else a[0]       # `next(..) as Some.0`
        if not fold and pair is None and a[1][0] == "call" and a[1][1] == "Output::chaining_value" and nx[0] == "call" and "Rev<" in nx[1] and nx[1].endswith("::next"):
            # the same fold written with an iterator: the left operand is the next element of `<prefix of self.cv_stack>.iter().rev()`,
            # i.e. the stack entries from the top down
            src = val(fo.expand_built(nx[2][0])) if nx[2] and isinstance(nx[2][0], tuple) and nx[2][0][0] == "built" else nx[2][0]
            def _mentions_stack(x, depth=0):
                if find_sub(x, P.self_("cv_stack")) is not None:
                    return True
                if depth > 3:
                    return False
                hit = find_sub(x, ("phi", W("l"), W()))
                if hit is not None and isinstance(hit[1]["l"], int):
                    alts = [val(a_) for a_ in fo.phi_alts(hit[1]["l"])]
                    return bool(alts) and all(_mentions_stack(a_, depth + 1) for a_ in alts)
                return False
            fold = find_sub(src, ("call", W(pred=lambda n_: isinstance(n_, str) and n_.endswith("::rev")), (W(),))) is not None and _mentions_stack(src)
        ctx.ob(pair is not None or fold, "final-merge-operands", where,
               "parent_node_output(%s, %s, ..) ; required (stack[n-2], stack[n-1]) or (stack[n-1], output.chaining_value())" % (show(a[0])[:60], show(a[1])[:60]))
        ctx.ob(a[2:] == (P.self_("key"), P.self_("chunk_state", "flags"), P.self_("chunk_state", "platform")), "final-merge-key-flags", where, "key/flags/platform from self")
    # update_with_join pushes (left half, right half) of the returned pair in order
    u = F.need_fn("Hasher::update_with_join")
    pcs = [(bi, val(u.expr_call(t)), t.get("s")) for bi, t in u.calls() if callee_name(t["callee"]) == "Hasher::push_cv"]
    halves = []
    CC = P.self_("chunk_state", "chunk_counter")
    for bi, e, where in pcs:
        a = e[2]
        off = find_sub(a[1], ("adt", W(pred=lambda s: isinstance(s, str) and s.endswith("Range")), W(), W(), (P.const(0), W())))
        off32 = find_sub(a[1], ("adt", W(pred=lambda s: isinstance(s, str) and s.endswith("Range")), W(), W(), (P.const(32), W())))
        pair = find_sub(a[1], ("call", "compress_subtree_to_parent_node", W())) is not None
        if off is not None and pair:
            halves.append(("left", bi, a[2] == CC, where))
        elif off32 is not None and pair:
            want = P.bin("Add", CC, P.bin("Div", W(), P.const(2)))
            halves.append(("right", bi, unify(want, a[2]) is not None, where))
    ok = len(halves) == 2 and halves[0][0] != halves[1][0]
    if ok:
        l = [h for h in halves if h[0] == "left"][0]
        r = [h for h in halves if h[0] == "right"][0]
        ok = u.dominates(l[1], r[1]) and l[2] and r[2]
    ctx.ob(ok, "update-pushes-left-then-right", u.loc, "push_cv(cv_pair[0..32], counter) dominates push_cv(cv_pair[32..64], counter + subtree_chunks/2): %s" % ok)
    pc = F.need_fn("Hasher::push_cv")
    cs = [(bi, val(pc.expr_call(t))) for bi, t in pc.calls()]
    ok = len(cs) == 2 and cs[0][1][1] == "Hasher::merge_cv_stack" and cs[0][1][2] == (("arg", 1, "self"), ("arg", 3, "chunk_counter")) \
        and norm_path(cs[1][1][1]).endswith("ArrayVec::<T, CAP>::push") and pc.dominates(cs[0][0], cs[1][0])
    ctx.ob(ok, "push_cv-merges-then-pushes", pc.loc, "push_cv = merge_cv_stack(chunk_counter); cv_stack.push(new_cv): %s" % ok)


def rule_LZ(ctx, F):
    """lazy chunk closing (Rust): update turns the *current* chunk state into an interior chaining value
    (push_cv(chunk_state.output().chaining_value())) only on an edge where more input is known to follow"""
    fn = F.need_fn("Hasher::update_with_join")
    inp = [l for l in range(len(fn.locals)) if fn.names.get(l) == "input"]
    n = 0
    for bi, t in fn.calls():
        if not callee_name(t["callee"]).endswith("push_cv"):
            continue
        e = val(fn.expr_call(t))
        cv = e[2][1]
        own = find_sub(cv, ("call", "ChunkState::output", (("path", ("arg", 1, "self"), ("chunk_state",)),))) is not None or \
            find_sub(cv, ("call", W(), (("path", ("arg", 1, "self"), ("chunk_state",)),))) is not None and "output" in show(cv)
        if not own:
            continue
        n += 1
        gs = guards_at(fn, bi)
        ok = any(c[0] == "call" and norm_path(c[1]).endswith("is_empty") and find_sub(c, ("phi", inp[0], "input")) is not None and tr is False for c, tr in gs) or \
            any(c[0] == "bin" and c[1] in ("Gt", "Ne") and "len" in show(c) and find_sub(c, ("phi", inp[0], "input")) is not None and tr is True for c, tr in gs)
        if ok:
            for d in fn.defs().get(inp[0], []):
                # `input` must not be advanced between the test and the push
                gb = [b for b in range(len(fn.blocks)) if fn.blocks[b]["term"]["k"] == "switch" and "is_empty" in show(val(fn.expr_operand(fn.blocks[b]["term"]["op"])))]
                if fn.paths_avoiding(d[1], bi, set(gb)):
                    ok = False
        ctx.ob(ok, "chunk-closed-only-with-more-input", t.get("s"),
               "push_cv(self.chunk_state.output().chaining_value(), ..) is dominated by `input` being non-empty: %s" % ok)
    ctx.floor("pushes of the current chunk's own chaining value in update", n, 1)


ZP_TABLE = {"blake3": ("ChunkState", "buf", "buf_len"), "reference_impl": ("ChunkState", "block", "block_len")}


def rule_ZP(ctx, F):
    """zero padding of the block buffer.  The last block of a chunk is compressed from the WHOLE 64-byte buffer with block_len
    saying how much of it is message, so the spec's zero padding is the invariant `buf[buf_len..] == 0`.  Its structural part:
    (a) wherever the length field is set back to the constant 0 the same straight-line code zeroes the whole buffer of the same
    object ([0; 64] store in the same basic block, or a `fill(0)` call on it in an adjacent block); (b) every aggregate
    construction with length 0 takes an all-zero buffer; (c) the two fields are written only inside the struct's own methods"""
    crate = F.crate if hasattr(F, "crate") else "blake3"
    S, B, L = ZP_TABLE.get(crate, ZP_TABLE["blake3"])
    n_reset = n_agg = 0
    writers = set()
    for path, f in sorted(F.fns.items()):
        if not f.has_body:
            continue
        by_block = {}
        for bi, si, s in f.stmts():
            by_block.setdefault(bi, []).append((si, s))
        for bi, sts in by_block.items():
            for si, s in sts:
                pl = s["place"]["p"]
                last = pl[-1] if pl else None
                if isinstance(last, dict) and last.get("of") == S and last.get("f") in (B, L):
                    writers.add(path)
                rv = s["rv"]
                if isinstance(last, dict) and last.get("of") == S and last.get("f") == L and rv.get("k") == "use" and rv["op"].get("k") == "const" and rv["op"].get("val") == 0:
                    n_reset += 1
                    base = (s["place"]["l"], repr(pl[:-1]))
                    ok = False
                    for sj, t in sts:
                        tp = t["place"]["p"]
                        if tp and isinstance(tp[-1], dict) and tp[-1].get("of") == S and tp[-1].get("f") == B and (t["place"]["l"], repr(tp[:-1])) == base \
                                and t["rv"].get("k") == "repeat" and t["rv"]["op"].get("k") == "const" and t["rv"]["op"].get("val") == 0 and t["rv"].get("n") == 64:
                            ok = True
                    if not ok:
                        # a fill(0) call in this block's terminator or in a directly adjacent block
                        near = [bi] + list(f.preds().get(bi, [])) + list(f.succ(bi))
                        for b2 in near:
                            t = f.blocks[b2]["term"]
                            if t["k"] == "call" and "fill" in str(t.get("func", t.get("callee", ""))) and "'%s'" % B in str(f.blocks[b2]["stmts"]) + str(t):
                                ok = True
                    ctx.ob(ok, "zero-padding-on-length-reset:%s#%d" % (path, n_reset), s.get("s", f.loc),
                           "%s.%s = 0 %s" % (S, L, "together with %s = [0; 64] on the same object" % B if ok else "without zeroing %s: stale bytes beyond %s would be compressed as padding" % (B, L)))
                if rv.get("k") == "agg" and rv.get("adt") == S and L in rv.get("fields", []):
                    ops = dict(zip(rv["fields"], rv["ops"]))
                    if ops[L].get("k") == "const" and ops[L].get("val") == 0:
                        n_agg += 1
                        bo = ops[B]
                        ok = False
                        if bo.get("k") in ("move", "copy") and not bo["place"]["p"]:
                            for sj, t in sts:
                                if t["place"]["l"] == bo["place"]["l"] and not t["place"]["p"] and t["rv"].get("k") == "repeat" and t["rv"]["op"].get("val") == 0:
                                    ok = True
                        ctx.ob(ok, "zero-padding-at-construction:%s" % path, s.get("s", f.loc), "%s { %s: [0; 64], %s: 0 }: %s" % (S, B, L, ok))
    own = [w for w in writers if not (w.startswith(S + "::") or ("<%s as " % S) in w)]
    ctx.ob(not own, "buffer-fields-written-only-by-own-methods", "", "writers of %s.%s/%s: %s" % (S, B, L, sorted(writers)))
    ctx.floor("length resets with zeroing", n_reset, 1)
    ctx.floor("zero-length constructions", n_agg, 1)


def rule_TM(ctx, F):
    """tail merge (Rust twin of TMC): every ChunkState::update on self.chunk_state in Hasher::update_with_join either sits under
    `self.chunk_state.count() > 0` or is followed, before any return, by self.merge_cv_stack(self.chunk_state.chunk_counter)"""
    u = F.need_fn("Hasher::update_with_join")
    sites = []
    merges = [bi for bi, t in u.calls() if callee_name(t["callee"]) == "Hasher::merge_cv_stack"]
    for bi, t in u.calls():
        if callee_name(t["callee"]) != "ChunkState::update":
            continue
        e = val(u.expr_call(t))
        if "chunk_state" not in show(e[2][0]):
            continue
        gs = guards_at(u, bi)
        guarded = False
        for c, tr in gs:
            sc = show(c) if isinstance(c, tuple) else str(c)
            if "count(" in sc and "chunk_state" in sc and ((" Gt 0" in sc.replace("const ", "") and tr is True) or (" Eq 0" in sc and tr is False) or (" Ne 0" in sc and tr is True)):
                guarded = True
        # every path from the call to a return passes a merge_cv_stack call
        merged = bool(merges) and not any(any(u.paths_avoiding(s_, r, set(merges)) for s_ in u.succ(bi)) for r in u.returns())
        sites.append((t.get("s", u.loc), guarded, merged))
    for i, (w, guarded, merged) in enumerate(sites):
        ctx.ob(guarded or merged, "own-chunk-bytes-imply-merged-stack#%d" % (i + 1), w,
               "self.chunk_state.update(..) %s" % ("under self.chunk_state.count() > 0" if guarded else "followed on every path by merge_cv_stack" if merged
                                                   else "may give an EMPTY chunk state its first bytes without merging the CV stack"))
    ctx.floor("own-chunk update sites in update_with_join", len(sites), 2)
