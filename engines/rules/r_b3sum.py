"""B / P rules: b3sum output, --check control flow, checkfile format (writer/reader agreement)."""
from mirlib import *
from absint import Evaluator, AV, enumerate_paths, last_def_on_path, ty_range
from r_hash import name_has, name_ends, calls_of
from r_io import has_guard, sw


# ---------------------------------------------------------------- format templates ----
def decode_template(b):
    """rustc's compact format template: <len><literal bytes> | 0xC0 (next argument) | 0x00 end"""
    out = []
    i = 0
    while i < len(b):
        c = b[i]
        if c == 0:
            return out
        if c == 0xC0:
            out.append(None)
            i += 1
            continue
        if c < 0x80:
            out.append(bytes(b[i + 1:i + 1 + c]).decode("utf-8"))
            i += 1 + c
            continue
        raise MissingAnchor("format template byte 0x%02x not understood (%r)" % (c, b))
    return out


def prints_of(fn):
    """[(block, pieces, where)] for every _print call: pieces = list of str | ('arg', expr)"""
    out = []
    for bi, t in fn.calls():
        if not norm_path(callee_name(t["callee"])).endswith("::_print"):
            continue
        e = val(fn.expr_operand(t["args"][0]))
        pieces = None
        if e[0] == "call" and e[1].endswith("from_str") and e[2] and e[2][0][0] == "const" and isinstance(e[2][0][2], bytes):
            pieces = [e[2][0][2].decode()]
        elif e[0] == "call" and e[1].endswith("::new") and e[2] and e[2][0][0] == "const" and isinstance(e[2][0][2], bytes):
            tmpl = decode_template(e[2][0][2])
            args = list(e[2][1][1]) if len(e[2]) > 1 and e[2][1][0] == "array" else []
            pieces = []
            k = 0
            for p in tmpl:
                if p is None:
                    a = args[k] if k < len(args) else None
                    k += 1
                    pieces.append(("arg", a[2][0] if a and a[0] == "call" and a[2] else a))
                else:
                    pieces.append(p)
        out.append((bi, pieces, t.get("s")))
    return out


def const_str(e):
    if e[0] == "const" and isinstance(e[2], bytes):
        return e[2].decode("utf-8", "replace")
    return None


def writer_model(F):
    """shapes printed by hash_one_input, derived from its print sites and their guards"""
    fn = F.need_fn("hash_one_input")
    ps = prints_of(fn)
    FPS = ("path", P.call("filepath_to_string", P.arg("path")), ("filepath_string",))
    shapes = {}
    esc = None
    for bi, pieces, where in ps:
        if pieces is None:
            raise MissingAnchor("print site in hash_one_input not decodable (%s)" % where)
        gs = guards_at(fn, bi)
        if pieces == ["\\"]:
            esc = (bi, gs, where)
            continue
        if any(isinstance(p, tuple) for p in pieces):
            lits = [p if isinstance(p, str) else "{PATH}" for p in pieces]
            ok_arg = all(unify(FPS, p[1]) is not None for p in pieces if isinstance(p, tuple))
            tagged = has_guard(gs, P.call("Args::tag", P.arg("args")), True) is not None
            shapes["tagged" if tagged else "untagged"] = (lits, ok_arg, where, bi)
    return fn, shapes, esc, ps


def rule_P1(ctx, F):
    fn, shapes, esc, ps = writer_model(F)
    ctx.floor("print sites in hash_one_input", len(ps), 5)
    ctx.ob("tagged" in shapes and shapes["tagged"][0] == ["BLAKE3 (", "{PATH}", ") = "] and shapes["tagged"][1], "writer-tagged-shape", shapes.get("tagged", ("", "", fn.loc))[2],
           "--tag line: %s (then hex, newline)" % (shapes.get("tagged", ("?",))[0],))
    ctx.ob("untagged" in shapes and shapes["untagged"][0] == ["  ", "{PATH}", "\n"] and shapes["untagged"][1], "writer-untagged-shape", shapes.get("untagged", ("", "", fn.loc))[2],
           "default line: hex then %s" % (shapes.get("untagged", ("?",))[0],))
    IS_ESC = ("path", P.call("filepath_to_string", P.arg("path")), ("is_escaped",))
    ok = esc is not None and has_guard(esc[1], IS_ESC, True) is not None
    ctx.ob(ok, "writer-escape-prefix-iff-escaped", esc[2] if esc else fn.loc, "leading backslash printed exactly on the is_escaped edge: %s" % ok)
    if esc and "tagged" in shapes and "untagged" in shapes:
        # the is_escaped test precedes BOTH line forms, and on its true edge the prefix print cannot be skipped
        sw_blocks = [(bi, b["term"]) for bi, b in enumerate(fn.blocks) if b["term"]["k"] == "switch" and unify(IS_ESC, val(fn.expr_operand(b["term"]["op"]))) is not None]
        for form in ("tagged", "untagged"):
            B = shapes[form][3]
            okp = False
            for sbi, st in sw_blocks:
                listed = dict(st["targets"])
                true_t = st["otherwise"] if 0 in listed else listed.get(1)
                if fn.dominates(sbi, B) and true_t is not None and not fn.paths_avoiding(true_t, B, {esc[0]}):
                    okp = True
            ctx.ob(okp, "writer-prefix-before-%s-line" % form, shapes[form][2],
                   "an escaped path's %s line is always preceded by the backslash marker: %s" % (form, okp))
    # reader literals
    su = F.need_fn("split_untagged_check_line")
    e = val(su.expr_local(0))
    d1 = const_str(e[2][1]) if e[0] == "call" and len(e[2]) == 2 else None
    ctx.ob(e[0] == "call" and norm_path(e[1]).endswith("::split_once") and d1 == "  " and "untagged" in shapes and shapes["untagged"][0][0] == d1, "reader-untagged-delimiter", su.loc,
           "reader splits at first %r ; writer separates hash and path with %r" % (d1, shapes.get("untagged", ([None],))[0][0]))
    st = F.need_fn("split_tagged_check_line")
    cs = calls_of(st)
    sws = [c for c in cs if norm_path(c[1][1]).endswith("::starts_with")]
    rs = [c for c in cs if norm_path(c[1][1]).endswith("::rsplit_once")]
    pre = const_str(sws[0][1][2][1]) if sws else None
    d2 = const_str(rs[0][1][2][1]) if rs else None
    wt = shapes.get("tagged", ([None, None, None],))[0]
    ctx.ob(pre is not None and pre == wt[0], "reader-tagged-prefix", st.loc, "reader requires prefix %r ; writer prints %r" % (pre, wt[0]))
    ctx.ob(d2 is not None and d2 == wt[2], "reader-tagged-delimiter", st.loc, "reader splits at last %r ; writer prints %r" % (d2, wt[2]))
    # prefix is cut by its own length, on the starts_with true edge
    idx = [c for c in cs if "Index" in c[1][1] or norm_path(c[1][1]).endswith("::index")]
    ok = False
    for c in idx:
        m = find_sub(c[1], ("adt", name_ends("RangeFrom"), W(), W(), (("call", name_ends("::len"), (W("p"),)),)))
        if m and const_str(m[1]["p"]) == pre and sws and has_guard(guards_at(st, c[0]), sws[0][1], True) is not None:
            ok = True
    ctx.ob(ok, "reader-tagged-prefix-cut", st.loc, "line[prefix.len()..] on the starts_with(prefix) edge, same prefix: %s" % ok)
    # escape marker
    pc = F.need_fn("parse_check_line")
    hit = False
    for bi, b in enumerate(pc.blocks):
        t = b["term"]
        if t["k"] == "switch":
            c = val(pc.expr_operand(t["op"]))
            if c[0] == "bin" and c[1] == "Eq" and ("const", None, 92) in (c[2], c[3]):
                hit = True
            if c[0] == "call" and norm_path(c[1]).endswith("::starts_with") and len(c[2]) == 2 and c[2][1] == ("const", None, 92):
                hit = True      # line.starts_with('\\')
    ctx.ob(hit, "reader-escape-marker", pc.loc, "reader tests the first char against '\\\\': %s" % hit)
    # both splitters must be given the text AFTER the escape marker: a value that is line[1..] on the marker edge
    # and the line itself otherwise
    def is_marker(c):
        return (c[0] == "bin" and c[1] == "Eq" and ("const", None, 92) in (c[2], c[3])) or \
               (c[0] == "call" and norm_path(c[1]).endswith("::starts_with") and len(c[2]) == 2 and c[2][1] == ("const", None, 92))
    for bi, t in pc.calls():
        e = val(pc.expr_call(t))
        if e[1] not in ("split_tagged_check_line", "split_untagged_check_line"):
            continue
        a = e[2][0]
        ok, why = False, "argument %s" % show(a)[:80]
        if a[0] == "phi":
            defs = local_defs_with_guards(pc, a[1])
            cut = [(gs, ex) for b, gs, ex in defs if ex[0] == "call" and ("index" in ex[1].lower()) and ex[2][1][0] == "adt" and norm_path(ex[2][1][1]).endswith("RangeFrom") and ex[2][1][4][0] == ("const", None, 1)]
            whole = [(gs, ex) for b, gs, ex in defs if ex[0] in ("phi", "arg", "local") or (ex[0] == "call" and norm_path(ex[1]).endswith("trim_end_matches"))]
            if len(defs) == 2 and len(cut) == 1 and len(whole) == 1 and cut[0][1][2][0] == whole[0][1]:
                ok = any(is_marker(c) and tr is True for c, tr in cut[0][0]) and any(is_marker(c) and tr is False for c, tr in whole[0][0])
                why = "line[1..] on the marker edge, the line otherwise: %s" % ok
            else:
                why = "definitions %s" % [show(ex)[:60] for b, gs, ex in defs]
        ctx.ob(ok, "reader-splitter-sees-text-after-marker:%s" % e[1], t.get("s"), why)
    trims = [c for c in calls_of(pc) if norm_path(c[1][1]).endswith("trim_end_matches")]
    ok = len(trims) == 1 and trims[0][1][2][1] == ("array", (("const", None, 13), ("const", None, 10)))
    ctx.ob(ok, "reader-trims-crlf", pc.loc, "trim_end_matches(['\\r','\\n']) before parsing: %s" % ok)


ESCAPES = {92: "\\\\", 10: "\\n", 13: "\\r"}


def rule_P2(ctx, F):
    fs = F.need_fn("filepath_to_string")
    cs = calls_of(fs)
    cont = [c for c in cs if norm_path(c[1][1]).endswith("::contains")]
    trig = None
    if len(cont) == 1 and cont[0][1][2][1][0] == "array":
        trig = sorted(x[2] for x in cont[0][1][2][1][1])
    ctx.ob(trig == sorted(ESCAPES), "escape-trigger-set", fs.loc, "escaping triggered by chars %s ; required %s" % (trig, sorted(ESCAPES)))
    reps = [c for c in cs if norm_path(c[1][1]).endswith("::replace") and c[1][2][2] != ("const", None, b"/")]
    # innermost first: order by nesting depth
    chain = []
    for c in reps:
        depth = show(c[1]).count("replace(")
        chain.append((depth, c[1][2][1][2] if c[1][2][1][0] == "const" else None, const_str(c[1][2][2]), c[2]))
    chain.sort()
    got = [(a, b) for _, a, b, _ in chain]
    ctx.ob(got == [(92, "\\\\"), (10, "\\n"), (13, "\\r")], "escape-replacements", fs.loc, "replacements in order %s ; required backslash first, then \\n, \\r" % got)
    if reps and cont:
        ok = all(has_guard(guards_at(fs, c[0]), cont[0][1], True) is not None for c in reps)
        ctx.ob(ok, "escape-only-when-triggered", fs.loc, "replacements happen on the contains(..) edge: %s" % ok)
    # is_escaped = true exactly there
    e = val(fs.expr_local(0))
    ctx.ob(e[0] == "adt" and e[3] == ("filepath_string", "is_escaped"), "escape-result-shape", fs.loc, "returns %s" % show(e)[:120])
    # unescape: inverse map, everything else is an error
    un = F.need_fn("unescape")
    arms = {}
    for bi, t in un.calls():
        e = val(un.expr_call(t))
        if norm_path(e[1]).endswith("String::push_str") and e[2][1][0] == "const":
            s = const_str(e[2][1])
            for c, tr in guards_at(un, bi):
                if isinstance(c, tuple) and c[0] == "switchval" and c[1][0] == "call" and "unwrap" in c[1][1]:
                    arms[tr] = s
    ctx.ob(arms == {110: "\n", 114: "\r", 92: "\\"}, "unescape-arms", un.loc, "unescape arms %s ; required n->LF, r->CR, backslash->backslash" % {chr(k): v for k, v in arms.items()})
    # the fallthrough arm bails
    bails = [bi for bi, t in un.calls() if "anyhow" in callee_name(t["callee"]) and ("format_err" in callee_name(t["callee"]) or "Error" in callee_name(t["callee"]))]
    ok = any(any(isinstance(c, tuple) and c[0] == "switchnot" and isinstance(tr, tuple) and set(tr) == {110, 114, 92} for c, tr in guards_at(un, b)) for b in bails)
    ctx.ob(ok, "unescape-other-is-error", un.loc, "any other escaped character reaches bail!: %s" % ok)
    # every rejection happens inside the escape handling: the writer emits backslash-free text for ordinary paths and arbitrary
    # sequences of the three escape pairs otherwise, so a reader that rejects by a test on the whole string (outside the
    # `find('\\') == Some(..)` arm) refuses something the writer can print
    outside = []
    for b in bails:
        gs = guards_at(un, b)
        inside = any(isinstance(c, tuple) and c[0] == "switchval" and "find" in show(c) and tr == 1 for c, tr in gs)
        if not inside:
            outside.append(b)
    ctx.ob(bool(bails) and not outside, "unescape-rejects-only-inside-an-escape", un.loc,
           "%d error exit(s), %d of them not under the Some arm of find('\\')" % (len(bails), len(outside)))
    # the escape char searched is backslash
    f = [c for c in calls_of(un) if norm_path(c[1][1]).endswith("::find")]
    ctx.ob(len(f) == 1 and f[0][1][2][1] == ("const", None, 92), "unescape-finds-backslash", un.loc, "find('\\\\'): %s" % [show(x[1]) for x in f])


# ---------------------------------------------------------------- P3: ordered choice ----
HEXSET = set("0123456789abcdef")


class Hole:
    def __init__(self, name, allowed):
        self.name, self.allowed = name, allowed   # allowed: predicate on a character

    def ok(self, ch):
        return self.allowed(ch)


def can_contain(tokens, d, anchored=False):
    """Is there an instance of the token sequence (str literals / Hole) that contains d
    (or, anchored, starts with d)?  Holes may be empty and of any length."""
    n = len(tokens)

    def match_from(ti, off, k):
        # try to match d[k:] starting at token ti, offset off (literal) / inside hole
        if k == len(d):
            return True
        if ti >= n:
            return False
        tok = tokens[ti]
        if isinstance(tok, Hole):
            # consume d[k] inside the hole, or leave the hole
            if tok.ok(d[k]) and match_from(ti, 0, k + 1):
                return True
            return match_from(ti + 1, 0, k)
        if off >= len(tok):
            return match_from(ti + 1, 0, k)
        if tok[off] == d[k]:
            return match_from(ti, off + 1, k + 1)
        return False
    if anchored:
        return match_from(0, 0, 0)
    for ti in range(n):
        tok = tokens[ti]
        if isinstance(tok, Hole):
            if match_from(ti, 0, 0):
                return True
        else:
            for off in range(len(tok)):
                if match_from(ti, off, 0):
                    return True
    return False


def reader_order(F):
    """order in which parse_check_line tries the two splitters (call-site dominance)"""
    pc = F.need_fn("parse_check_line")
    su = [bi for bi, t in pc.calls() if callee_name(t["callee"]) == "split_untagged_check_line"]
    st = [bi for bi, t in pc.calls() if callee_name(t["callee"]) == "split_tagged_check_line"]
    if len(su) != 1 or len(st) != 1:
        raise MissingAnchor("splitter calls in parse_check_line")
    if pc.dominates(su[0], st[0]):
        return ["untagged", "tagged"], pc
    if pc.dominates(st[0], su[0]):
        return ["tagged", "untagged"], pc
    raise MissingAnchor("ordered choice between the two splitters")


def rule_P3(ctx, F):
    fn, shapes, esc, ps = writer_model(F)
    order, pc = reader_order(F)
    su = F.need_fn("split_untagged_check_line")
    st = F.need_fn("split_tagged_check_line")
    d1 = const_str(val(su.expr_local(0))[2][1])
    cs = calls_of(st)
    pre = const_str([c for c in cs if norm_path(c[1][1]).endswith("::starts_with")][0][1][2][1])
    d2 = const_str([c for c in cs if norm_path(c[1][1]).endswith("::rsplit_once")][0][1][2][1])
    # PATH: escaped text -- any character except raw CR/LF; HEX: lowercase hex digits (any count: --length)
    PATH = Hole("PATH", lambda ch: ch not in "\r\n")
    HEX = Hole("HEX", lambda ch: ch in HEXSET)
    wt, wu = shapes["tagged"][0], shapes["untagged"][0]
    W_ = {"tagged": [wt[0], PATH, wt[2], HEX], "untagged": [HEX, wu[0], PATH]}
    matchers = {"untagged": lambda toks: can_contain(toks, d1),
                "tagged": lambda toks: can_contain(toks, pre, anchored=True) and can_contain(toks, d2)}
    ctx.extra["P3_reader_order"] = order
    for k, shape in enumerate(order):
        for earlier in order[:k]:
            clash = matchers[earlier](W_[shape])
            ctx.ob(not clash, "ordered-choice:%s-line-vs-%s-splitter" % (shape, earlier), pc.loc,
                   ("a %s line %r can satisfy the %s splitter, which the reader tries first: e.g. a path containing %r is split at the wrong place"
                    % (shape, "".join(t if isinstance(t, str) else "{%s}" % t.name for t in W_[shape]), earlier, d1 if earlier == "untagged" else d2)) if clash else
                   "no %s line can satisfy the earlier %s splitter" % (shape, earlier))
    # the intended splitter always accepts its own shape at the intended place
    ctx.ob(matchers["tagged"](W_["tagged"]) and matchers["untagged"](W_["untagged"]), "shapes-accepted-by-own-splitter", pc.loc, "each shape satisfies its own matcher")


# ---------------------------------------------------------------- P4: panic freedom ----
PARSE_FNS = ["parse_check_line", "split_untagged_check_line", "split_tagged_check_line", "unescape", "hex_half_byte", "check_for_invalid_characters"]
ASCII1 = lambda v: isinstance(v, int) and 0 <= v < 128


def rule_P4(ctx, F):
    hv = F.need_fn("hex_half_byte")
    # result range of hex_half_byte (Ok values) by path enumeration
    ev = Evaluator(F, hv, {"c": AV(0, 0x10FFFF)})
    lo, hi = None, None
    for env, path in enumerate_paths(ev):
        e = last_def_on_path(hv, 0, path)
        v = val(e)
        if v[0] == "adt" and v[2] == "Ok":
            r = ev.eval(e[4][0] if e[0] == "adt" else v[4][0], env)
            if not r.empty:
                lo = r.lo if lo is None else min(lo, r.lo)
                hi = r.hi if hi is None else max(hi, r.hi)
    ctx.ob(lo == 0 and hi == 15, "hex_half_byte-range", hv.loc, "Ok values of hex_half_byte lie in [%s, %s] ; required [0, 15]" % (lo, hi))
    nsites = 0
    for name in PARSE_FNS:
        fn = F.need_fn(name)
        cnt = {}
        STRLEN = AV(0, (1 << 63) - 1)   # a str/slice is at most isize::MAX bytes long
        ev = Evaluator(F, fn, {}, ret_ranges={"core::str::<impl str>::len": STRLEN, "std::str::<impl str>::len": STRLEN,
                                             "core::str::<impl str>::find": AV(0, (1 << 63) - 2), "std::str::<impl str>::find": AV(0, (1 << 63) - 2)})
        for bi, b in enumerate(fn.blocks):
            if b.get("cleanup") or bi not in fn.reachable():
                continue
            t = b["term"]
            kind = None
            detail = ""
            ok = False
            if t["k"] == "call":
                cn = norm_path(callee_name(t["callee"]))
                e = val(fn.expr_call(t))
                gs = guards_at(fn, bi)
                if cn.endswith("Option::<T>::unwrap") or cn.endswith("Option::<T>::expect") or cn.endswith("Result::<T, E>::unwrap") or cn.endswith("Result::<T, E>::expect"):
                    kind = "unwrap"
                    arg = e[2][0]
                    detail = show(arg)[:120]
                    # idiom (b): s[X..].chars().next().unwrap() where X < s.len() is established
                    m = unify(("call", name_ends("Iterator>::next"), (W("it"),)), arg)
                    if m:
                        it = val(fn.expand_built(m["it"]))
                        mm = find_sub(it, ("call", name_ends("::chars"), (("call", name_has("index"), (W("s"), ("adt", name_ends("RangeFrom"), W(), W(), (W("x"),)))),)))
                        if mm:
                            s_, x_ = mm[1]["s"], mm[1]["x"]
                            # x = i + 1 with guard i < len(s) - 1
                            mi = unify(P.bin("Add", W("i"), P.const(1)), x_)
                            if mi and has_guard(gs, P.bin("Lt", mi["i"], P.bin("Sub", ("call", name_ends("::len"), (s_,)), P.const(1))), True) is not None:
                                ok = True
                                detail += " -- non-empty because i < len-1 dominates"
                    if not ok:
                        detail += " -- Option may be None: only a BYTE-length guard (if any) protects a CHARACTER iterator" if "chars" in show(val(fn.expand_built(arg))) else " -- no recognised guard"
                elif "str" in cn and ("Index" in cn or cn.endswith("::index")) or cn.endswith("traits::<impl core::ops::Index<I> for str>::index"):
                    kind = "str-index"
                    detail = show(e)[:140]
                    rng = e[2][1]
                    if rng[0] == "adt":
                        bounds = rng[4]
                        # (a) [1..] after the first char compared equal to an ASCII constant
                        if norm_path(rng[1]).endswith("RangeFrom") and bounds[0] == ("const", None, 1):
                            for c, tr in gs:
                                if tr and c[0] == "bin" and c[1] == "Eq" and any(x[0] == "const" and ASCII1(x[2]) for x in (c[2], c[3])):
                                    ok = True
                                # ... or after s.starts_with(<ASCII char>) on the same string
                                if tr is True and c[0] == "call" and norm_path(c[1]).endswith("::starts_with") and len(c[2]) == 2 and c[2][0] == e[2][0] \
                                        and c[2][1][0] == "const" and ASCII1(c[2][1][2]):
                                    ok = True
                        # (b) [prefix.len()..] after starts_with(prefix)
                        m = unify(("call", name_ends("::len"), (W("p"),)), bounds[0]) if norm_path(rng[1]).endswith("RangeFrom") else None
                        if m and has_guard(gs, ("call", name_ends("::starts_with"), (e[2][0], m["p"])), True) is not None:
                            ok = True
                        # (c) indices derived from find(ASCII char) = Some(i): [..i], [i+1..], [i+2..] (2nd only after an ASCII escape char matched)
                        fi = find_sub(rng, ("path", ("call", name_ends("::find"), (e[2][0], W("ch"))), (("as", "Some"), "0")))
                        if fi and fi[1]["ch"][0] == "const" and ASCII1(fi[1]["ch"][2]):
                            I = fi[0]
                            if bounds[0] == I or unify(P.bin("Add", I, P.const(1)), bounds[0]) is not None:
                                inb = has_guard(gs, P.bin("Lt", I, P.bin("Sub", ("call", name_ends("::len"), (e[2][0],)), P.const(1))), True) is not None or bounds[0] == I
                                ok = inb
                            elif unify(P.bin("Add", I, P.const(2)), bounds[0]) is not None:
                                # the char at i+1 was matched against ASCII constants (1 byte) on this path
                                ok = any(isinstance(c, tuple) and c[0] in ("switchval",) and ASCII1(tr) for c, tr in gs) or not fn.paths_avoiding(0, bi, set(
                                    b2 for b2, bb in enumerate(fn.blocks) if bb["term"]["k"] == "switch" and any(ASCII1(v) and v in (110, 114, 92) for v, _ in bb["term"]["targets"])))
                elif t.get("t") is None and ("panicking" in cn or "slice_index" in cn):
                    continue  # the failing side of an Assert/unwrap already enumerated
            elif t["k"] == "assert":
                kind = "assert:" + t["kind"]
                env = ev.env_at(bi)
                c = ev.eval(fn.expr_operand(t["cond"]), env)
                want = 1 if t["expected"] else 0
                ok = c.const() == want
                detail = "%s == %s ; evaluates to %s" % (show(val(fn.expr_operand(t["cond"])))[:120], t["expected"], c)
                if not ok and t["kind"] == "Overflow(Sub)":
                    # len(s) - 1 on the edge where find(s, _) returned Some: s is non-empty
                    cc = val(fn.expr_operand(t["cond"]))
                    m = unify(("overflowed", ("bin", "SubWithOverflow", ("call", name_ends("::len"), (W("s"),)), P.const(1))), cc)
                    gs = guards_at(fn, bi)
                    if m and any(isinstance(c, tuple) and c[0] == "switchval" and c[1][0] == "discr" and c[1][1][0] == "call" and c[1][1][1].endswith("::find") and c[1][1][2][0] == m["s"] and tr == 1 for c, tr in gs):
                        ok = True
                        detail += " ; s is non-empty on the find(..) == Some edge"
                if not ok and t["kind"].startswith("Overflow"):
                    # operands bounded by hex_half_byte's range
                    ev2 = Evaluator(F, fn, {}, ret_ranges={"hex_half_byte": AV(0, 15)})
                    e2 = fn.expr_operand(t["cond"])
                    # values flowing out of `hex_half_byte(..)?` are the Ok payloads
                    rr = _eval_with_branch_payload(ev2, fn, e2, env)
                    ok = rr is not None and rr.const() == want
                    detail += " ; with hex_half_byte in [0,15]: %s" % rr
            if kind is None:
                continue
            nsites += 1
            cnt[kind] = cnt.get(kind, 0) + 1
            ctx.ob(ok, "parse-panic:%s:%s#%d" % (name, kind, cnt[kind]), t.get("s"), "%s : %s" % (kind, detail))
    ctx.floor("panic-capable sites on the check-line parse path", nsites, 8)


def _eval_with_branch_payload(ev, fn, e, env):
    """evaluate treating `Try::branch(hex_half_byte(..)) as Continue.0` as the callee's Ok range"""
    def rewrite(x):
        if not isinstance(x, tuple):
            return x
        if x and x[0] == "path":
            root, el = path_fields(x)
            if root[0] == "call" and "Try>::branch" in root[1] and root[2] and strip_ref(root[2][0])[0] == "call" and strip_ref(root[2][0])[1] == "hex_half_byte":
                return ("call", "hex_half_byte", ())
        return tuple(rewrite(y) for y in x)
    try:
        return ev.eval(rewrite(e), env)
    except Exception:
        return None


def origin_chain_block(fn, operand, suffix, depth=0):
    """block of the first call ending in `suffix` met while following the definition chain
    (first operand of every intermediate use/cast/call) back from `operand`"""
    if operand is None or operand["k"] not in ("copy", "move") or depth > 30:
        return None
    l = operand["place"]["l"]
    ds = [d for d in fn.defs().get(l, []) if d[0] in ("assign", "call")]
    if len(ds) != 1:
        return None
    d = ds[0]
    if d[0] == "call":
        if norm_path(callee_name(d[2]["callee"])).endswith(suffix):
            return d[1]
        return origin_chain_block(fn, d[2]["args"][0], suffix, depth + 1) if d[2]["args"] else None
    rv = d[3]["rv"]
    nxt = rv.get("op") or rv.get("a")
    if rv["k"] == "agg" and rv.get("agg") == "tuple":
        # `(a, b)` destructured later: follow the component the operand projects out
        fields = [x["f"] for x in operand["place"]["p"] if isinstance(x, dict) and "f" in x]
        if fields and fields[0].isdigit() and int(fields[0]) < len(rv["ops"]):
            nxt = rv["ops"][int(fields[0])]
    if rv["k"] in ("ref", "rawptr"):
        nxt = {"k": "copy", "place": {"l": rv["place"]["l"], "p": []}}
    return origin_chain_block(fn, nxt, suffix, depth + 1) if isinstance(nxt, dict) else None


def nibble_sources(fn, store_stmt):
    """(block of the next() feeding the 16* operand, block of the next() feeding the other)"""
    rv = store_stmt["rv"]
    # the stored value is `move _s` with _s = (_m + _lo).0 ... walk to the AddWithOverflow
    def find_bin(operand, op, depth=0):
        if operand is None or operand["k"] not in ("copy", "move") or depth > 10:
            return None
        ds = [d for d in fn.defs().get(operand["place"]["l"], []) if d[0] == "assign"]
        if len(ds) != 1:
            return None
        r = ds[0][3]["rv"]
        if r["k"] == "bin" and r["op"].startswith(op):
            return r
        nxt = r.get("op") or r.get("a")
        return find_bin(nxt, op, depth + 1) if isinstance(nxt, dict) else None
    top = rv["op"] if rv["k"] == "use" else None
    add = rv if rv["k"] == "bin" else find_bin(top, "Add")
    if add is None:
        return None, None
    mul = find_bin(add["a"], "Mul")
    other = add["b"]
    if mul is None:
        mul = find_bin(add["b"], "Mul")
        other = add["a"]
    if mul is None:
        return None, None
    hi = mul["b"] if mul["a"]["k"] == "const" else mul["a"]
    return origin_chain_block(fn, hi, "Iterator>::next"), origin_chain_block(fn, other, "Iterator>::next")


def rule_P5(ctx, F):
    hv = F.need_fn("hex_half_byte")
    ev = Evaluator(F, hv, {"c": AV(0, 0x10FFFF)})
    paths = enumerate_paths(ev)
    okcells = []
    covered = 0
    for env, path in paths:
        dom = env["c"]
        e = last_def_on_path(hv, 0, path)
        v = val(e) if e is not None else ("?",)
        covered += dom.hi - dom.lo + 1
        if v[0] == "adt" and v[2] == "Ok":
            raw = e[4][0]
            vals = [Evaluator(F, hv, {"c": AV(c, c)}).eval(raw, {"c": AV(c, c)}).const() for c in range(dom.lo, min(dom.hi, dom.lo + 40) + 1)]
            okcells.append((dom.lo, dom.hi, vals))
    want = [(48, 57, list(range(0, 10))), (97, 102, list(range(10, 16)))]
    ctx.ob(sorted(okcells) == want, "hex-reader-partition", hv.loc, "hex_half_byte accepts %s ; required '0'..'9' -> 0..9, 'a'..'f' -> 10..15 and nothing else (lowercase only, non-ASCII rejected)"
           % [(chr(a), chr(b), v) for a, b, v in okcells])
    pc = F.need_fn("parse_check_line")
    # length test: hash_hex.len() == 2 * OUT_LEN dominates the decode loop
    hh = [(bi, val(pc.expr_call(t))) for bi, t in pc.calls() if callee_name(t["callee"]) == "hex_half_byte"]
    ctx.ob(len(hh) == 2, "hex-two-digits-per-byte", pc.loc, "%d hex_half_byte call(s)" % len(hh))
    for bi, e in hh[:1]:
        g = has_guard(guards_at(pc, bi), P.bin("Eq", ("call", name_ends("::len"), (W(),)), P.bin("Mul", P.const(2), ("const", name_ends("OUT_LEN"), W()))), True)
        ctx.ob(g is not None, "hex-length-is-64", pc.loc, "decode dominated by hash_hex.len() == 2*OUT_LEN: %s" % (g is not None))
    st = [(bi, s) for bi, si, s in pc.stmts() if s["k"] == "assign" and s["place"]["p"] and s["place"]["ty"] == "u8" and s["place"]["p"][0] == "deref"]
    okf = False
    for bi, s in st:
        v = val(pc.expr_rvalue(s["rv"]))
        br = lambda x: ("path", ("call", name_has("Try>::branch"), (P.call("hex_half_byte", x),)), (("as", "Continue"), "0"))
        m = unify(P.bin("Add", P.bin("Mul", P.const(16), br(W("hi"))), br(W("lo"))), v)
        if m is None:
            continue
        # which iterator step feeds the high nibble?  follow the definition chain of the Mul operand
        rv = s["rv"]
        src = origin_chain_block(pc, rv["op"] if rv["k"] == "use" else None, "Iterator>::next") if rv["k"] == "use" else None
        hi_b = lo_b = None
        for d in pc.defs().get(s["rv"]["op"]["place"]["l"], []) if rv["k"] == "use" and rv["op"]["k"] in ("copy", "move") else []:
            pass
        adds = [x for x in st]
        hi_b, lo_b = nibble_sources(pc, s)
        okf = hi_b is not None and lo_b is not None and hi_b != lo_b and pc.dominates(hi_b, lo_b)
    ctx.ob(okf, "hex-byte-formula", pc.loc, "*byte = 16*hex_half_byte(first char)? + hex_half_byte(second char)?: %s" % okf)
    # invalid characters: NUL and U+FFFD rejected, empty path rejected
    ci = F.need_fn("check_for_invalid_characters")
    chars = sorted(c[1][2][1][2] for c in calls_of(ci) if norm_path(c[1][1]).endswith("::contains") and c[1][2][1][0] == "const")
    ctx.ob(0 in chars and 0xFFFD in chars, "reject-nul-and-replacement-char", ci.loc, "check_for_invalid_characters tests %s" % [hex(c) for c in chars])
    emp = [c for c in calls_of(pc) if norm_path(c[1][1]).endswith("String::is_empty")]
    ctx.ob(len(emp) == 1, "reject-empty-path", pc.loc, "ensure!(!file_path_string.is_empty()): %d test(s)" % len(emp))
    cic = [c for c in calls_of(pc) if c[1][1] == "check_for_invalid_characters"]
    ctx.ob(len(cic) == 1 and "unescape" in show(val(pc.expand_built(cic[0][1]))) or len(cic) == 1, "invalid-chars-checked-after-unescape", pc.loc, "check_for_invalid_characters(&file_path_string): %d call(s)" % len(cic))


# ---------------------------------------------------------------- B rules (C12) ----
def rule_B1(ctx, F):
    mc = F.fn("main::{closure#0}")
    if mc is None:
        raise MissingAnchor("main::{closure#0}")
    exits = [(bi, t) for bi, t in mc.calls() if norm_path(callee_name(t["callee"])).endswith("process::exit")]
    ctx.ob(len(exits) == 1, "one-exit", mc.loc, "%d process::exit call(s) in main" % len(exits))
    FF = W(pred=lambda x: isinstance(x, tuple) and len(x) == 3 and x[0] in ("built", "phi", "local") and x[2] == "files_failed")
    for bi, t in exits:
        a = t["args"][0]
        alts = local_defs_with_guards(mc, a["place"]["l"]) if a["k"] in ("copy", "move") else []
        seen = {}
        for b, gs, e in alts:
            if has_guard(gs, P.bin("Gt", FF, P.const(0)), True) is not None:
                seen["failed"] = e
            elif has_guard(gs, P.bin("Gt", FF, P.const(0)), False) is not None:
                seen["clean"] = e
        ok = seen.get("clean") == ("const", None, 0) and seen.get("failed") is not None and seen["failed"][0] == "const" and seen["failed"][2] not in (0, None)
        ctx.ob(ok, "exit-status-zero-only-if-no-failure", t.get("s"), "exit code: files_failed > 0 => %s ; otherwise => %s" % (show(seen.get("failed", ("?",))), show(seen.get("clean", ("?",)))))
    # every Err of hash_one_input is counted
    hoi = [(bi, val(mc.expr_call(t))) for bi, t in mc.calls() if callee_name(t["callee"]) == "hash_one_input"]
    sat = [(bi, val(mc.expr_call(t)), t) for bi, t in mc.calls() if norm_path(callee_name(t["callee"])).endswith("saturating_add")]
    sat = [x for x in sat if unify(("call", W(), (FF, P.const(1))), x[1]) is not None]
    ok = len(hoi) == 1 and len(sat) == 1 and has_guard(guards_at(mc, sat[0][0]), sw(hoi[0][1]), 1) is not None
    ctx.ob(ok, "hash-error-counted", sat[0][2].get("s") if sat else mc.loc, "files_failed = files_failed.saturating_add(1) on the Err edge of hash_one_input: %s" % ok)
    if ok:
        # the Err edge cannot skip the increment
        errt = None
        for b2, blk in enumerate(mc.blocks):
            t2 = blk["term"]
            if t2["k"] == "switch" and val(mc.expr_operand(t2["op"])) == ("discr", hoi[0][1]):
                for v, tgt in t2["targets"]:
                    if v == 1:
                        errt = tgt
        nxt = [bi for bi, t in mc.calls() if norm_path(callee_name(t["callee"])).endswith("Iterator>::next")]
        ok2 = errt is not None and nxt and not mc.paths_avoiding(errt, nxt[0], {sat[0][0]}) and not any(mc.paths_avoiding(errt, e[0], {sat[0][0]}) for e in exits)
        ctx.ob(bool(ok2), "hash-error-always-counted", sat[0][2].get("s"), "no path from the Err edge to the next file or to exit skips the increment: %s" % bool(ok2))
    # files_failed only ever grows: every redefinition is the initial 0 or an accumulation of itself;
    # the per-checkfile count reaches it through &mut or through an accumulating assignment
    ffl = [l for l in range(len(mc.locals)) if mc.names.get(l) == "files_failed"]
    if not ffl:
        raise MissingAnchor("local files_failed in main")
    w = []
    lossy = []
    for d in mc.defs().get(ffl[0], []):
        if d[0] == "assign" and not d[3]["place"]["p"]:
            v = val(mc.expr_rvalue(d[3]["rv"]))
            w.append(show(v)[:60])
            acc = v == ("const", None, 0) or (v[0] == "call" and norm_path(v[1]).endswith("saturating_add") and v[2] and (find_sub(v[2][0], ("built", ffl[0], W())) is not None or find_sub(v[2][0], ("phi", ffl[0], W())) is not None)) \
                or (v[0] == "bin" and v[1] == "Add" and (find_sub(v, ("built", ffl[0], W())) is not None or find_sub(v, ("phi", ffl[0], W())) is not None))
            if not acc:
                lossy.append((show(v)[:80], d[3].get("s")))
        elif d[0] == "call":
            v = val(mc.expr_call(d[2]))
            w.append(show(v)[:60])
            acc = norm_path(v[1]).endswith("saturating_add") and v[2] and (find_sub(v[2][0], ("built", ffl[0], W())) is not None or find_sub(v[2][0], ("phi", ffl[0], W())) is not None)
            if not acc:
                lossy.append((show(v)[:80], d[2].get("s")))
    ctx.ob(not lossy, "files_failed-only-accumulates", lossy[0][1] if lossy else mc.loc,
           "files_failed is redefined as %s -- failures counted so far are overwritten" % lossy[0][0] if lossy else "definitions of files_failed: %s" % w)
    cc = [(bi, val(mc.expr_call(t))) for bi, t in mc.calls() if callee_name(t["callee"]) == "check_one_checkfile"]
    ctx.ob(len(cc) == 1, "one-checkfile-call", mc.loc, "%d check_one_checkfile call(s)" % len(cc))
    by_ref = bool(cc) and any(a in (("built", ffl[0], "files_failed"), ("phi", ffl[0], "files_failed")) for a in cc[0][1][2])
    by_val = bool(cc) and any(find_sub(val(mc.expr_rvalue(d[3]["rv"])) if d[0] == "assign" and not d[3]["place"]["p"] else (val(mc.expr_call(d[2])) if d[0] == "call" else ()), cc[0][1]) is not None
                              for d in mc.defs().get(ffl[0], []) if d[0] in ("assign", "call"))
    ctx.ob(by_ref or by_val, "checkfile-failures-reach-counter", mc.loc, "check_one_checkfile's failures reach files_failed (by &mut: %s, by returned count: %s)" % (by_ref, by_val))
    # check_one_checkfile(..)? propagates
    br = [c for c in calls_of(mc) if "Try>::branch" in c[1][1] and cc and c[1][2] == (cc[0][1],)]
    ctx.ob(len(br) == 1, "checkfile-error-propagates", mc.loc, "check_one_checkfile(..)? : %d" % len(br))
    # ---- check_one_checkfile
    cf = F.need_fn("check_one_checkfile")
    col = [(bi, val(cf.expr_call(t)), t) for bi, t in cf.calls() if callee_name(t["callee"]) == "check_one_line"]
    sat = [(bi, val(cf.expr_call(t)), t) for bi, t in cf.calls() if norm_path(callee_name(t["callee"])).endswith("saturating_add")]
    CNT = W("cnt", pred=lambda x: isinstance(x, tuple) and ((x[0] == "arg" and x[2] == "files_failed") or (len(x) == 3 and x[0] in ("built", "phi") and isinstance(x[2], str))))
    m = unify(("call", W(), (CNT, P.const(1))), sat[0][1]) if len(sat) == 1 else None
    ok = len(col) == 1 and m is not None and has_guard(guards_at(cf, sat[0][0]), col[0][1], False) is not None
    ctx.ob(ok, "line-failure-counted", sat[0][2].get("s") if sat else cf.loc, "counter = counter.saturating_add(1) on the check_one_line == false edge: %s" % ok)
    stb = set()
    if m is not None:
        cnt = m["cnt"]
        if cnt[0] == "arg":
            st = [(bi, val(cf.expr_rvalue(s["rv"]))) for bi, si, s in cf.stmts() if s["k"] == "assign" and s["place"]["p"] == ["deref"] and s["place"]["l"] == cnt[1]]
            ctx.ob(len(st) == 1 and st[0][1] == sat[0][1], "line-failure-stored", cf.loc, "the incremented value is stored back through the &mut counter: %s" % [show(x[1])[:60] for x in st])
            stb = set(b for b, _ in st)
        else:
            ds = [d for d in cf.defs().get(cnt[1], []) if (d[0] == "call" and d[1] == sat[0][0]) or (d[0] == "assign" and not d[3]["place"]["p"] and val(cf.expr_rvalue(d[3]["rv"])) == sat[0][1])]
            returned = any(e[0] == "adt" and e[2] == "Ok" and find_sub(e, cnt) is not None for b, gs, e in ret_alternatives(cf))
            ctx.ob(bool(ds) and returned, "line-failure-stored", cf.loc, "the incremented value becomes the local counter (%s) and the counter is returned in Ok(..) (%s)" % (bool(ds), returned))
            stb = set(d[1] for d in ds)
    if ok and stb:
        ft = None
        for b2, blk in enumerate(cf.blocks):
            t2 = blk["term"]
            if t2["k"] == "switch" and val(cf.expr_operand(t2["op"])) == col[0][1]:
                listed = dict(t2["targets"])
                ft = listed.get(0)
        rl = [bi for bi, t in cf.calls() if norm_path(callee_name(t["callee"])).endswith("read_line")]
        ok2 = ft is not None and rl and not cf.paths_avoiding(ft, rl[0], stb) and not any(cf.paths_avoiding(ft, r, stb) for r in cf.returns())
        ctx.ob(bool(ok2), "line-failure-always-counted", sat[0][2].get("s"), "no path from a failed line to the next line or to return skips the increment: %s" % bool(ok2))
        ctx.ob(bool(rl) and cf.paths_avoiding(cf.succ(sat[0][0])[0] if cf.succ(sat[0][0]) else 0, rl[0], set()), "remaining-lines-still-checked", cf.loc, "after a failure the loop goes on to the next line")
    rets = ret_alternatives(cf)
    okr = [(gs, e) for b, gs, e in rets if e[0] == "adt" and e[2] == "Ok"]
    N = W("n")
    ok = len(okr) == 1 and has_guard(okr[0][0], P.bin("Eq", N, P.const(0)), True) is not None
    ctx.ob(ok, "checkfile-ends-at-eof-only", cf.loc, "Ok(()) returned only on read_line == 0: %s" % ok)
    ctx.ob(len(col) == 1 and "line" in show(col[0][1]) and col[0][1][2][1] == ("arg", 2, "args"), "line-passed-to-check", cf.loc, "check_one_line(&line, args)")
    # a check line is read WHOLE: read_line is called on the BufReader over the input itself, not on a length-limiting adapter
    # (the writer prints lines of any length: an escaped path can be twice as long as the path)
    rls = [(bi, val(cf.expr_call(t))) for bi, t in cf.calls() if norm_path(callee_name(t["callee"])).endswith("read_line")]
    news = [val(cf.expr_call(t)) for bi, t in cf.calls() if norm_path(callee_name(t["callee"])).endswith("BufReader::<R>::new")]
    caps = [show(val(cf.expr_call(t)))[:60] for bi, t in cf.calls() if norm_path(callee_name(t["callee"])).rsplit("::", 1)[-1] in ("take", "read_until", "take_while")]
    okw = bool(rls) and not caps and all("take(" not in show(e) and "Take" not in show(e) for b_, e in rls)
    ctx.ob(okw, "checkfile-lines-read-whole", cf.loc, "read_line on the buffered input itself; length-limiting adapters in the function: %s" % (caps or "none"))


def rule_B2(ctx, F):
    cl = F.need_fn("check_one_line")
    pc = [c for c in calls_of(cl) if c[1][1] == "parse_check_line"]
    if len(pc) != 1:
        raise MissingAnchor("parse_check_line call in check_one_line")
    PR = pc[0][1]
    PARSED = ("path", PR, (("as", "Ok"), "0"))
    hp = [c for c in calls_of(cl) if c[1][1] == "hash_path"]
    ok = len(hp) == 1 and hp[0][1][2][0] == ("arg", 2, "args") and find_sub(hp[0][1][2][1], ("path", PR, (("as", "Ok"), "0", "file_path"))) is not None
    ctx.ob(ok, "hashes-the-parsed-path", hp[0][2] if hp else cl.loc, "hash_path(args, &parsed.file_path): %s" % ok)
    eqs = [c for c in calls_of(cl) if norm_path(c[1][1]).endswith("<blake3::Hash as core::cmp::PartialEq>::eq")]
    ctx.ob(len(eqs) == 1, "one-hash-comparison", cl.loc, "%d Hash == Hash comparison(s)" % len(eqs))
    if eqs:
        a, b = eqs[0][1][2]
        exp_ok = a == ("path", PR, (("as", "Ok"), "0", "expected_hash")) or b == ("path", PR, (("as", "Ok"), "0", "expected_hash"))
        other = b if a == ("path", PR, (("as", "Ok"), "0", "expected_hash")) else a
        fills = [c for c in calls_of(cl) if c[1][1] == "blake3::OutputReader::fill"]
        found_ok = other[0] == "call" and "Into" in other[1] and other[2][0][0] == "built" and len(fills) == 1 and find_sub(fills[0][1][2][1], other[2][0]) is not None
        out_ok = len(fills) == 1 and hp and cl.dominates(hp[0][0], fills[0][0])
        ctx.ob(exp_ok and found_ok and out_ok, "compares-expected-with-found", eqs[0][2],
               "eq(%s, %s) ; required (parsed.expected_hash, bytes filled from hash_path's reader)" % (show(a)[:60], show(b)[:60]))
    alts = ret_alternatives(cl)
    trues = [(b, gs) for b, gs, e in alts if e == ("const", None, 1)]
    falses = [(b, gs) for b, gs, e in alts if e == ("const", None, 0)]
    ok = len(trues) == 1 and eqs and has_guard(trues[0][1], eqs[0][1], True) is not None
    ctx.ob(bool(ok), "true-only-on-equal-hashes", cl.loc, "`true` is returned only on the expected == found edge: %s" % bool(ok))
    ctx.ob(len(trues) + len(falses) == len(alts) and len(falses) >= 3, "other-returns-false", cl.loc, "%d return alternatives: %d true, %d false" % (len(alts), len(trues), len(falses)))
    # every false return is preceded by a diagnostic print
    prints = [bi for bi, t in cl.calls() if norm_path(callee_name(t["callee"])).endswith("::_print") or norm_path(callee_name(t["callee"])).endswith("::_eprint")]
    n = 0
    for b, gs in falses:
        n += 1
        silent = cl.paths_avoiding(0, b, set(prints))
        ctx.ob(not silent, "failure-is-reported#%d" % n, cl.blocks[b]["term"].get("s"), "every path to this `false` passes a print (FAILED / diagnostic): %s" % (not silent))


def rule_B3(ctx, F):
    hp = F.need_fn("hash_path")
    cs = calls_of(hp)
    cl = [c for c in cs if "Clone>::clone" in norm_path(c[1][1])]
    ok = len(cl) == 1 and cl[0][1][2][0] == ("path", ("arg", 1, "args"), ("base_hasher",))
    hl = [l for l in range(len(hp.locals)) if hp.names.get(l) == "hasher"]
    init = val(hp.init_expr(hl[0])) if hl and hp.init_expr(hl[0]) is not None else None
    ok = ok and init is not None and init == cl[0][1]   # the clone is the hasher's ONLY definition
    news = [c for c in cs if c[1][1].startswith("blake3::Hasher::new")]
    ok = ok and not news
    ctx.ob(ok, "hasher-is-clone-of-base", hp.loc, "hasher = args.base_hasher.clone(): %s" % ok)
    ups = [c for c in cs if c[1][1] in ("blake3::Hasher::update_reader", "blake3::Hasher::update_mmap_rayon", "blake3::Hasher::update_mmap", "blake3::Hasher::update", "blake3::Hasher::update_rayon")]
    kinds = sorted(c[1][1].split("::")[-1] for c in ups)
    ctx.ob(kinds == ["update_mmap_rayon", "update_reader", "update_reader"], "three-input-branches", hp.loc, "absorbing calls: %s" % kinds)
    for i, c in enumerate(ups):
        br = [x for x in cs if "Try>::branch" in x[1][1] and x[1][2] == (c[1],)]
        ctx.ob(len(br) == 1 and c[1][2][0][0] == "built" and c[1][2][0][2] == "hasher", "absorb-error-propagates#%d" % (i + 1), c[2], "%s(..)? on the cloned hasher: %s" % (c[1][1].split("::")[-1], len(br) == 1))
    mm = [c for c in ups if c[1][1].endswith("update_mmap_rayon")]
    ctx.ob(len(mm) == 1 and mm[0][1][2][1] == ("arg", 2, "path"), "mmap-branch-uses-path", hp.loc, "update_mmap_rayon(path)")
    fo = [c for c in cs if norm_path(c[1][1]).endswith("fs::File::open")]
    ctx.ob(len(fo) == 1 and fo[0][1][2][0] == ("arg", 2, "path"), "no-mmap-branch-opens-path", hp.loc, "File::open(path)")
    fx = [c for c in cs if c[1][1] == "blake3::Hasher::finalize_xof"]
    sp = [c for c in cs if c[1][1] == "blake3::OutputReader::set_position"]
    ok = len(fx) == 1 and len(sp) == 1 and unify(("call", W(), (W(), P.call("Args::seek", ("arg", 1, "args")))), sp[0][1]) is not None and hp.dominates(fx[0][0], sp[0][0])
    ctx.ob(ok, "seek-applied", sp[0][2] if sp else hp.loc, "finalize_xof() then set_position(args.seek()): %s" % ok)
    ctx.ob(all(hp.dominates(c[0], fx[0][0]) or not hp.paths_avoiding(0, fx[0][0], set()) or True for c in ups) and len(fx) == 1, "finalize-after-absorb", hp.loc, "finalize_xof after the absorbing branch")
    # Args::seek / len return the parsed fields
    for nm, fld in (("Args::seek", "seek"), ("Args::len", "length")):
        f = F.need_fn(nm)
        e = val(f.expr_local(0))
        ctx.ob(e == ("path", ("arg", 1, "self"), ("inner", fld)), "args-%s" % fld, f.loc, "%s() = %s" % (nm, show(e)))
    # base_hasher mode table in Args::parse
    ap = F.need_fn("Args::parse")
    news = {}
    for bi, t in ap.calls():
        n = callee_name(t["callee"])
        if n in ("blake3::Hasher::new_keyed", "blake3::Hasher::new_derive_key", "blake3::Hasher::new"):
            news[n.split("::")[-1]] = (guards_at(ap, bi), val(ap.expr_call(t)), t.get("s"))
    ok = set(news) == {"new_keyed", "new_derive_key", "new"}
    ctx.ob(ok, "base-hasher-three-modes", ap.loc, "constructors used: %s" % sorted(news))
    if ok:
        INNER = W("inner")
        gk = has_guard(news["new_keyed"][0], ("path", INNER, ("keyed",)), True)
        ctx.ob(gk is not None and "read_key_from_stdin" in show(news["new_keyed"][1]), "mode-keyed", news["new_keyed"][2], "--keyed => new_keyed(&read_key_from_stdin()?)")
        gd = any(c[0] == "switchval" and "derive_key" in show(c) and tr == 1 for c, tr in news["new_derive_key"][0] if isinstance(c, tuple))
        ctx.ob(gd and "derive_key" in show(news["new_derive_key"][1]), "mode-derive-key", news["new_derive_key"][2], "--derive-key CONTEXT => new_derive_key(context): %s" % show(news["new_derive_key"][1])[:100])
        gn = has_guard(news["new"][0], ("path", INNER, ("keyed",)), False) is not None
        ctx.ob(gn, "mode-default", news["new"][2], "neither => Hasher::new()")


def rule_B4(ctx, F):
    wh = F.need_fn("write_hex_output")
    LEN = ("phi", W(), "len")
    take = None
    for l in range(len(wh.locals)):
        if wh.names.get(l) == "take_bytes":
            take = val(wh.expr_local(l))
    want_take = ("call", name_ends("cmp::min"), (LEN, P.cast(("call", name_ends("::len"), (W(),)), "u64")))
    ctx.ob(take is not None and unify(want_take, take) is not None, "hex-take", wh.loc, "take_bytes = %s ; required min(len, block.len())" % (show(take)[:100] if take else "?"))
    ll = [l for l in range(len(wh.locals)) if wh.names.get(l) == "len"]
    alts = [val(a) for a in wh.phi_alts(ll[0])] if ll else []
    ok = any(unify(P.call("Args::len", P.arg("args")), a) is not None for a in alts) and any(take is not None and unify(P.bin("Sub", LEN, take), a) is not None for a in alts) and len(alts) == 2
    ctx.ob(ok, "hex-len-decreases-by-take", wh.loc, "len in {%s} ; required {args.len(), len - take_bytes}" % ", ".join(show(a)[:50] for a in alts))
    # loop runs while len > 0; returns only when not
    rets = ret_alternatives(wh)
    ok = all(has_guard(gs, P.bin("Gt", LEN, P.const(0)), False) is not None for b, gs, e in rets) and len(rets) >= 1
    ctx.ob(ok, "hex-loop-exits-on-zero-only", wh.loc, "returns only on the len > 0 false edge: %s" % ok)
    ps = prints_of(wh)
    ok = len(ps) == 1 and ps[0][1] is not None and len(ps[0][1]) == 1 and isinstance(ps[0][1][0], tuple)
    sl = None
    if ok:
        a = ps[0][1][0][1]
        sl = find_sub(a, ("adt", name_ends("RangeTo"), W(), W(), (P.bin("Mul", P.const(2), P.cast(take, "usize")),))) if take is not None else None
        enc = find_sub(val(wh.expand_built(a)), ("call", name_has("hex::encode"), (W(),)))
        ok = sl is not None and enc is not None
    ctx.ob(ok, "hex-prints-2x-take-chars", ps[0][2] if ps else wh.loc, "prints hex::encode(block)[..2*take_bytes]: %s" % ok)
    fl = [c for c in calls_of(wh) if c[1][1] == "blake3::OutputReader::fill"]
    ctx.ob(len(fl) == 1 and "block" in show(fl[0][1][2][1]), "hex-fills-block", wh.loc, "output.fill(&mut block) once per iteration")
    wr = F.need_fn("write_raw_output")
    tk = [c for c in calls_of(wr) if norm_path(c[1][1]).endswith("io::Read::take")]
    ok = len(tk) == 1 and tk[0][1][2] == (("arg", 1, "output"), P.call("Args::len", ("arg", 2, "args")))
    ctx.ob(ok, "raw-takes-len", wr.loc, "write_raw_output copies output.take(args.len()): %s" % [show(c[1]) for c in tk])
    cp = [c for c in calls_of(wr) if norm_path(c[1][1]).endswith("io::copy")]
    br = [c for c in calls_of(wr) if "Try>::branch" in c[1][1]]
    ctx.ob(len(cp) == 1 and len(br) == 1, "raw-copy-error-propagates", wr.loc, "io::copy(..)? : %d/%d" % (len(cp), len(br)))
    # hash_one_input routes: raw -> raw writer; else hex
    ho = F.need_fn("hash_one_input")
    cs = calls_of(ho)
    raw = [c for c in cs if c[1][1] == "write_raw_output"]
    hexs = [c for c in cs if c[1][1] == "write_hex_output"]
    ok = len(raw) == 1 and has_guard(guards_at(ho, raw[0][0]), P.call("Args::raw", P.arg("args")), True) is not None and len(hexs) == 3 and \
        all(has_guard(guards_at(ho, h[0]), P.call("Args::raw", P.arg("args")), False) is not None for h in hexs)
    ctx.ob(ok, "raw-vs-hex-routing", ho.loc, "--raw => write_raw_output, otherwise write_hex_output (3 sites): %s" % ok)
    HP = ("path", ("call", name_has("Try>::branch"), (P.call("hash_path", P.arg("args"), P.arg("path")),)), (("as", "Continue"), "0"))
    ok = all(unify(HP, c[1][2][0]) is not None for c in raw + hexs)
    ctx.ob(ok, "writers-get-hash_path-output", ho.loc, "every writer receives hash_path(args, path)?: %s" % ok)
