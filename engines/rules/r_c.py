"""C twins of the Rust rules over the clang AST facts (engine E3): F1-F7, K1, S1/S2, S4, M1, M3,
mode table, forwarding, dispatcher guards (D1-C), globals inventory (G1-C), TBB seam (G5-C)."""
import os
import re
import sys
VERIF = os.path.dirname(os.path.dirname(os.path.dirname(os.path.abspath(__file__))))
sys.path.insert(0, os.path.join(VERIF, "engines", "cfront"))
sys.path.insert(0, os.path.join(VERIF, "engines", "specmodel"))
import cast
from cast import cshow, walk_stmts, calls_in
import blake3_spec as spec
from mirlib import MissingAnchor
from r_flags import SPEC_FLAGS, ROOT, PARENT, CS, CE, MODE_BITS, bits, BOT, TOP, join

REPO = os.environ.get("VERIF_REPO", "/repo")
_TU = {}


# C preprocessor flavours: the same sources parsed for another target / compiler personality, so that the `_MSC_VER`, 32-bit
# and `__GNUC__` branches of blake3_impl.h / blake3_dispatch.c are decided too (headers that are not installed are replaced
# by the declaration-only stand-ins under engines/cfront/stubs; nothing is compiled to code, linked or run)
_STUBS = os.path.join(VERIF, "engines", "cfront", "stubs")
C_FLAVOURS = {
    "gnu-x86_64": (),
    # -U__clang__: blake3_impl.h prefers the __GNUC__/__clang__ builtins when it sees them; MSVC proper defines neither
    "msvc-x86_64": ("--target=x86_64-pc-windows-msvc", "-U__clang__", "-isystem", os.path.join(_STUBS, "msvc")),
    "msvc-i686": ("--target=i686-pc-windows-msvc", "-U__clang__", "-isystem", os.path.join(_STUBS, "msvc")),
    # a compiler that is neither GNU-like nor MSVC: the portable fallbacks of blake3_impl.h, no x86 dispatch at all
    "generic": ("-U__clang__", "-U__GNUC__"),
    "gnu-aarch64": ("--target=aarch64-linux-gnu", "-isystem", os.path.join(_STUBS, "aarch64"), "-isystem", "/usr/include/x86_64-linux-gnu"),
    "gnu-i686": ("--target=i686-linux-gnu", "-isystem", os.path.join(_STUBS, "i686"), "-isystem", "/usr/include/x86_64-linux-gnu"),
}
FLAVOUR = "gnu-x86_64"


def set_flavour(fl):
    global FLAVOUR
    if fl not in C_FLAVOURS:
        raise KeyError(fl)
    FLAVOUR = fl


def tu(path, defines=(), **kw):
    if C_FLAVOURS[FLAVOUR]:
        kw = dict(kw)
        kw["extra_args"] = tuple(C_FLAVOURS[FLAVOUR]) + tuple(kw.get("extra_args", ()))
    k = (path, tuple(defines), repr(sorted(kw.items())))
    if k not in _TU:
        _TU[k] = cast.TU(path, defines, **kw)
    return _TU[k]


def nc(e):
    """drop the source-type slot of cast nodes (typedef spelling varies: size_t / unsigned long)"""
    if not isinstance(e, tuple):
        return e
    if e and e[0] == "cast":
        return ("cast", nc(e[1]), e[2])
    return tuple(nc(x) for x in e)


def need(t, fn):
    f = t.funcs.get(fn)
    if f is None:
        raise MissingAnchor("C function %s in %s" % (fn, t.path))
    return f


def where(t, line):
    return "%s:%s" % (t.path, line)


# ---------------------------------------------------------------- type helpers ----
def strip_ty(ty):
    ty = ty.replace("const ", "").replace("struct ", "").strip()
    while ty.endswith("*") or ty.endswith("]"):
        if ty.endswith("*"):
            ty = ty[:-1].strip()
        else:
            ty = ty[:ty.rindex("[")].strip()
    return ty.replace("const", "").strip()


def local_types(f):
    tys = {n: t for n, t in f["params"]}
    for s, g in walk_stmts(f["body"]):
        if s[0] == "decl":
            tys[s[1]] = s[2]
    return tys


def owner_of(t, f, e, tys=None):
    """(struct name, field) of a member expression, resolving the base through locals / struct fields"""
    if e[0] != "member":
        return None
    tys = tys or local_types(f)
    base = e[1]
    bt = type_of(t, f, base, tys)
    if bt is None:
        return None
    return (strip_ty(bt), e[2])


def type_of(t, f, e, tys):
    if e[0] == "var":
        return tys.get(e[1])
    if e[0] == "member":
        bt = type_of(t, f, e[1], tys)
        if bt is None:
            return None
        for n, ft in t.structs.get(strip_ty(bt), []):
            if n == e[2]:
                return ft
        return None
    if e[0] == "un" and e[1] in ("&", "*"):
        return type_of(t, f, e[2], tys)
    if e[0] == "index":
        return type_of(t, f, e[1], tys)
    if e[0] == "cast":
        return e[2]
    return None


# ---------------------------------------------------------------- known bits ----
class CFlags:
    def __init__(self, t):
        self.t = t
        self.loc = {}
        self.changed = False
        self._tys = {n: local_types(f) for n, f in t.funcs.items()}
        for _ in range(40):
            self.changed = False
            for n, f in t.funcs.items():
                self._scan(n, f)
            if not self.changed:
                break

    def get(self, k):
        return self.loc.get(k, BOT)

    def put(self, k, v):
        old = self.loc.get(k, BOT)
        new = join(old, v)
        if new != old:
            self.loc[k] = new
            self.changed = True

    def key_of(self, fn, e):
        f = self.t.funcs[fn]
        if e[0] == "var":
            names = [p for p, _ in f["params"]]
            if e[1] in names:
                return ("param", fn, names.index(e[1]))
            return ("local", fn, e[1])
        if e[0] == "member":
            o = owner_of(self.t, f, e, self._tys[fn])
            return ("field",) + o if o else ("field", "?", e[2])
        return None

    def ev(self, fn, e):
        k = e[0]
        if k == "int":
            return (e[1] & 0xFF, e[1] & 0xFF) if 0 <= e[1] <= 0xFF else TOP
        if k == "enum":
            return (e[2] & 0xFF, e[2] & 0xFF) if e[2] is not None else TOP
        if k == "bin":
            a, b = self.ev(fn, e[2]), self.ev(fn, e[3])
            if e[1] in ("|", "|="):
                return (a[0] | b[0], a[1] | b[1])
            if e[1] in ("&", "&="):
                return (a[0] & b[0], a[1] & b[1])
            return TOP
        if k == "cast":
            return self.ev(fn, e[1])
        if k == "cond":
            return join(self.ev(fn, e[2]), self.ev(fn, e[3]))
        if k in ("var", "member"):
            kk = self.key_of(fn, e)
            return self.get(kk) if kk else TOP
        if k == "call" and isinstance(e[1], str) and e[1] in self.t.funcs:
            return self.get(("ret", e[1]))
        return TOP

    def _scan(self, fn, f):
        for s, g in walk_stmts(f["body"]):
            if s[0] == "decl" and s[3] is not None and s[2].replace("const ", "") in ("uint8_t",):
                self.put(("local", fn, s[1]), self.ev(fn, s[3]))
            elif s[0] == "assign":
                kk = self.key_of(fn, s[2])
                ty = type_of(self.t, f, s[2], self._tys[fn])
                if kk and ty and ty.replace("const ", "") == "uint8_t":
                    v = self.ev(fn, s[3])
                    if s[1] == "|=":
                        cur = self.get(kk)
                        v = (cur[0] | v[0], cur[1] | v[1]) if cur != BOT else v
                    elif s[1] != "=":
                        v = TOP
                    self.put(kk, v)
            elif s[0] == "return" and s[1] is not None and f["ret"].replace("INLINE", "").strip().endswith("uint8_t"):
                self.put(("ret", fn), self.ev(fn, s[1]))
        for c, g, line in calls_in(f["body"]):
            if isinstance(c[1], str) and c[1] in self.t.funcs:
                cal = self.t.funcs[c[1]]
                for i, a in enumerate(c[2]):
                    if i < len(cal["params"]) and cal["params"][i][1].replace("const ", "") == "uint8_t":
                        self.put(("param", c[1], i), self.ev(fn, a))


C_SINKS = {"blake3_compress_in_place": (4, 3, 2), "blake3_compress_xof": (4, 3, 2), "blake3_xof_many": (4, 3, 2), "blake3_hash_many": (6, 4, None)}


def rule_FC(ctx):
    t = tu("c/blake3.c")
    A = CFlags(t)
    S = lambda f: ("member", ("var", "self", "param"), f)
    OBC = ("var", "output_block_counter", "var")
    table = {
        ("output_chaining_value", "blake3_compress_in_place", 1): dict(mustnot=ROOT, counter=S("counter"), block_len=S("block_len")),
        ("output_root_bytes", "blake3_compress_xof", 1): dict(must=ROOT, counter=OBC, block_len=S("block_len")),
        ("output_root_bytes", "blake3_compress_xof", 2): dict(must=ROOT, counter=OBC, block_len=S("block_len")),
        ("output_root_bytes", "blake3_xof_many", 1): dict(must=ROOT, counter=OBC, block_len=S("block_len")),
        ("chunk_state_update", "blake3_compress_in_place", 1): dict(mustnot=ROOT | PARENT | CE, counter=S("chunk_counter"), block_len=("int", 64)),
        ("chunk_state_update", "blake3_compress_in_place", 2): dict(mustnot=ROOT | PARENT | CE, counter=S("chunk_counter"), block_len=("int", 64)),
        ("compress_chunks_parallel", "blake3_hash_many", 1): dict(mustnot=ROOT | PARENT | CS | CE, counter=("var", "chunk_counter", "param")),
        ("compress_parents_parallel", "blake3_hash_many", 1): dict(must=PARENT, mustnot=ROOT | CS | CE, counter=("int", 0)),
    }
    seen = set()
    for fn, f in t.funcs.items():
        n = {}
        for c, g, line in calls_in(f["body"]):
            if c[1] not in C_SINKS:
                continue
            n[c[1]] = n.get(c[1], 0) + 1
            key = (fn, c[1], n[c[1]])
            seen.add(key)
            sp = table.get(key)
            if sp is None:
                ctx.ob(False, "c-unknown-sink:%s:%s#%d" % key, where(t, line), "compression call not in the spec table: %s" % cshow(c)[:160])
                continue
            fi, ci, bi = C_SINKS[c[1]]
            fl = A.ev(fn, c[2][fi])
            ok = (fl[0] & sp.get("must", 0)) == sp.get("must", 0) and not (fl[1] & sp.get("mustnot", 0))
            ctx.ob(ok, "c-sink-flags:%s:%s#%d" % key, where(t, line), "flags %s: must={%s} may={%s}" % (cshow(c[2][fi])[:60], bits(fl[0]), bits(fl[1])))
            ctx.ob(c[2][ci] == sp["counter"], "c-sink-counter:%s:%s#%d" % key, where(t, line), "counter %s" % cshow(c[2][ci]))
            if "block_len" in sp:
                ctx.ob(c[2][bi] == sp["block_len"], "c-sink-block_len:%s:%s#%d" % key, where(t, line), "block_len %s" % cshow(c[2][bi]))
            narrow = []
            cast.walk_expr(c[2][ci], lambda x: narrow.append(x) if x[0] == "cast" and strip_ty(x[2]) in ("uint32_t", "int32_t", "uint8_t", "uint16_t", "int", "unsigned int") else None)
            ctx.ob(not narrow, "c-sink-counter-64bit:%s:%s#%d" % key, where(t, line), "no narrowing cast in the counter operand" if not narrow else "counter narrowed: %s" % cshow(narrow[0]))
    for key in table:
        if key not in seen:
            ctx.ob(False, "c-sink-missing:%s:%s#%d" % key, t.path, "expected compression site not found")
    ctx.floor("C compression sites in blake3.c", len(seen), 8)
    # hash_many batches
    f = need(t, "compress_chunks_parallel")
    hm = [c for c, g, l in calls_in(f["body"]) if c[1] == "blake3_hash_many"][0]
    a = hm[2]
    ctx.ob(a[5] in (("int", 1), ("var", "true", "var")) and a[7] == ("enum", "CHUNK_START", 1) and a[8] == ("enum", "CHUNK_END", 2), "c-chunks-batch", t.path,
           "hash_many(.., increment=%s, flags, %s, %s)" % (cshow(a[5]), cshow(a[7]), cshow(a[8])))
    ctx.ob(a[2] == ("bin", "/", ("int", 1024), ("int", 64)) and a[3] == ("var", "key", "param") and a[0] == ("var", "chunks_array", "var") and a[1] == ("var", "chunks_array_len", "var") and a[9] == ("var", "out", "param"),
           "c-chunks-batch-operands", t.path, "inputs=%s n=%s blocks=%s key=%s out=%s" % (cshow(a[0]), cshow(a[1]), cshow(a[2]), cshow(a[3]), cshow(a[9])))
    pc = [s for s, g in walk_stmts(f["body"]) if s[0] == "decl" and s[1] == "counter"]
    want = ("bin", "+", ("var", "chunk_counter", "param"), ("cast", ("var", "chunks_array_len", "var"), "uint64_t"))
    ctx.ob(len(pc) == 1 and nc(pc[0][3]) == want, "c-chunks-partial-counter", t.path, "partial chunk counter = %s" % (cshow(pc[0][3]) if pc else "?"))
    asg = [s for s, g in walk_stmts(f["body"]) if s[0] == "assign" and s[2] == ("member", ("var", "chunk_state", "var"), "chunk_counter")]
    ctx.ob(len(asg) == 1 and asg[0][3] == ("var", "counter", "var"), "c-chunks-partial-counter-stored", t.path, "chunk_state.chunk_counter = counter")
    f = need(t, "compress_parents_parallel")
    hm = [c for c, g, l in calls_in(f["body"]) if c[1] == "blake3_hash_many"][0]
    a = hm[2]
    ctx.ob(a[5] in (("int", 0), ("var", "false", "var")) and a[7] == ("int", 0) and a[8] == ("int", 0) and a[2] == ("int", 1) and a[6] == ("bin", "|", ("var", "flags", "param"), ("enum", "PARENT", 4)),
           "c-parents-batch", t.path, "hash_many(.., blocks=%s, key, 0, increment=%s, %s, %s, %s)" % (cshow(a[2]), cshow(a[5]), cshow(a[6]), cshow(a[7]), cshow(a[8])))
    # stored flags
    f1 = A.get(("field", "blake3_chunk_state", "flags"))
    f2 = A.get(("field", "output_t", "flags"))
    ctx.ob(f1 != BOT and not (f1[1] & ~MODE_BITS), "c-field:chunk.flags", t.path, "blake3_chunk_state.flags may={%s} ; mode bits only" % bits(f1[1]))
    ctx.ob(f2 != BOT and not (f2[1] & ROOT), "c-field:output.flags", t.path, "output_t.flags may={%s} ; ROOT never stored" % bits(f2[1]))
    # make_output sites
    co = [c for c, g, l in calls_in(need(t, "chunk_state_output")["body"]) if c[1] == "make_output"]
    fl = A.ev("chunk_state_output", co[0][2][4]) if co else BOT
    ok = len(co) == 1 and (fl[0] & CE) and not (fl[1] & (PARENT | ROOT)) and co[0][2][0] == S("cv") and co[0][2][1] == S("buf") and co[0][2][2] == S("buf_len") and co[0][2][3] == S("chunk_counter")
    ctx.ob(bool(ok), "c-chunk-output", t.path, "chunk output = %s ; flags must={%s} may={%s}" % (cshow(co[0])[:120] if co else "?", bits(fl[0]), bits(fl[1])))
    po = [c for c, g, l in calls_in(need(t, "parent_output")["body"]) if c[1] == "make_output"]
    fl = A.ev("parent_output", po[0][2][4]) if po else BOT
    ok = len(po) == 1 and (fl[0] & PARENT) and not (fl[1] & (CS | CE | ROOT)) and po[0][2][0] == ("var", "key", "param") and po[0][2][1] == ("var", "block", "param") and po[0][2][2] == ("int", 64) and po[0][2][3] == ("int", 0)
    ctx.ob(bool(ok), "c-parent-output", t.path, "parent output = %s ; flags must={%s} may={%s}" % (cshow(po[0])[:120] if po else "?", bits(fl[0]), bits(fl[1])))
    mo = need(t, "make_output")
    asg = {s[2][2]: s[3] for s, g in walk_stmts(mo["body"]) if s[0] == "assign" and s[2][0] == "member" and s[2][1] == ("var", "ret", "var")}
    ok = asg == {"block_len": ("var", "block_len", "param"), "counter": ("var", "counter", "param"), "flags": ("var", "flags", "param")}
    cps = [c for c, g, l in calls_in(mo["body"]) if c[1] == "memcpy"]
    ok = ok and len(cps) == 2 and {cshow(c[2][0]) + "<-" + cshow(c[2][1]) for c in cps} == {"ret.input_cv<-input_cv", "ret.block<-block"}
    ctx.ob(ok, "c-make_output", t.path, "make_output stores its arguments field by field: %s" % ok)
    # start flag
    sf = need(t, "chunk_state_maybe_start_flag")
    rets = [(s[1], g) for s, g in walk_stmts(sf["body"]) if s[0] == "return"]
    cond = ("bin", "==", S("blocks_compressed"), ("int", 0))
    ok = len(rets) == 2 and any(r == ("enum", "CHUNK_START", 1) and g == ((cond, True),) for r, g in rets) and any(r == ("int", 0) and g == ((cond, False),) for r, g in rets)
    if not ok and len(rets) == 1 and rets[0][1] == () and isinstance(rets[0][0], tuple) and rets[0][0][0] == "cond":
        # the same decision written as one conditional expression, either polarity
        c_, a_, b_ = rets[0][0][1:4]
        val_ = lambda x: r_cbudget_norm(x)
        ok = (nc(c_) == cond and val_(a_) == ("int", 1) and val_(b_) == ("int", 0)) or \
             (nc(c_) == ("bin", "!=", cond[2], cond[3]) and val_(a_) == ("int", 0) and val_(b_) == ("int", 1))
    ctx.ob(ok, "c-start-flag", t.path, "CHUNK_START exactly when blocks_compressed == 0: %s" % ok)
    # blocks_compressed += 1 right after each compression in chunk_state_update
    cu = need(t, "chunk_state_update")
    flat = []

    def seq(stmts):
        for i, s in enumerate(stmts):
            if s[0] == "expr" and s[1][0] == "call" and s[1][1] == "blake3_compress_in_place":
                nxt = stmts[i + 1] if i + 1 < len(stmts) else None
                flat.append(nxt is not None and nxt[0] == "assign" and nxt[1] == "+=" and nxt[2] == S("blocks_compressed") and nxt[3] == ("int", 1))
            if s[0] == "if":
                seq(s[2]); seq(s[3])
            if s[0] == "loop":
                seq(s[3])
    seq(cu["body"])
    ctx.ob(flat == [True, True], "c-compress-then-count", t.path, "each compression in chunk_state_update is followed by blocks_compressed += 1: %s" % flat)
    for c, g, l in calls_in(cu["body"]):
        if c[1] == "blake3_compress_in_place":
            want = ("bin", "|", S("flags"), ("call", "chunk_state_maybe_start_flag", (("var", "self", "param"),)))
            ctx.ob(c[2][4] == want and c[2][0] == S("cv"), "c-update-block-flags@%d" % (1 if not any("@1" in o["key"] for o in ctx.obl if o["rule"] == ctx.current_rule and "c-update-block-flags" in o["key"]) else 2), where(t, l), "flags = %s, cv = %s" % (cshow(c[2][4]), cshow(c[2][0])))
    # root bytes: counter derives from seek, +1 / += blocks
    rb = need(t, "output_root_bytes")
    d = {s[1]: s[3] for s, g in walk_stmts(rb["body"]) if s[0] == "decl"}
    ok = d.get("output_block_counter") == ("bin", "/", ("var", "seek", "param"), ("int", 64)) and d.get("offset_within_block") == ("bin", "%", ("var", "seek", "param"), ("int", 64))
    ctx.ob(ok, "c-root-counter-from-seek", t.path, "output_block_counter = seek / 64, offset = seek %% 64: %s" % ok)
    incs = [(s[1], s[3]) for s, g in walk_stmts(rb["body"]) if s[0] == "assign" and s[2] == OBC]
    ok = ("+=", ("int", 1)) in incs and ("+=", ("bin", "/", ("var", "out_len", "param"), ("int", 64))) in incs and len(incs) == 2
    ctx.ob(ok, "c-root-counter-advances", t.path, "output_block_counter updates: %s" % [(o, cshow(v)) for o, v in incs])
    xm = [c for c, g, l in calls_in(rb["body"]) if c[1] == "blake3_xof_many"]
    ctx.ob(len(xm) == 1 and xm[0][2][6] == ("bin", "/", ("var", "out_len", "param"), ("int", 64)) and xm[0][2][5] == ("var", "out", "param"), "c-root-xof-many-blocks", t.path, "xof_many(.., out, out_len / 64)")
    sk = [p for p in rb["params"] if p[0] == "seek"]
    ctx.ob(bool(sk) and sk[0][1] == "uint64_t", "c-seek-64bit", t.path, "seek parameter type %s" % (sk[0][1] if sk else "?"))


def rule_KC(ctx):
    t = tu("c/blake3.c")
    for n, v in SPEC_FLAGS.items():
        ctx.ob(t.enums.get(n) == v, "c-flag:%s" % n, "c/blake3_impl.h", "%s = %s" % (n, t.enums.get(n)))
    g = {x["name"]: x for x in t.globals}
    iv = g.get("IV")
    got = [e[1] for e in iv["init"][1]] if iv and iv.get("init") and iv["init"][0] == "init" else []
    ctx.ob(got == spec.IV, "c-IV", "c/blake3_impl.h", "IV = %s" % ["%08x" % x for x in got])
    ms = g.get("MSG_SCHEDULE")
    rows = [[e[1] for e in r[1]] for r in ms["init"][1]] if ms and ms.get("init") and ms["init"][0] == "init" else []
    want = spec.msg_schedule()
    for r in range(7):
        ctx.ob(len(rows) == 7 and rows[r] == want[r], "c-MSG_SCHEDULE[%d]" % r, "c/blake3_impl.h", "row %d = %s" % (r, rows[r] if len(rows) == 7 else "?"))
    hdr = open(os.path.join(REPO, "c", "blake3.h")).read()
    for n, v in (("BLAKE3_KEY_LEN", 32), ("BLAKE3_OUT_LEN", 32), ("BLAKE3_BLOCK_LEN", 64), ("BLAKE3_CHUNK_LEN", 1024), ("BLAKE3_MAX_DEPTH", 54)):
        m = re.search(r"#define\s+%s\s+(\d+)" % n, hdr)
        ctx.ob(bool(m) and int(m.group(1)) == v, "c-size:%s" % n, "c/blake3.h", "%s = %s" % (n, m.group(1) if m else "?"))
    hs = dict(t.structs.get("blake3_hasher", []))
    cs = dict(t.structs.get("blake3_chunk_state", []))
    ctx.ob(hs.get("cv_stack") == "uint8_t[1760]" and hs.get("key") == "uint32_t[8]", "c-hasher-layout", "c/blake3.h", "cv_stack %s (=(54+1)*32), key %s" % (hs.get("cv_stack"), hs.get("key")))
    ctx.ob(cs.get("chunk_counter") == "uint64_t" and cs.get("buf") == "uint8_t[64]" and cs.get("cv") == "uint32_t[8]", "c-chunk-layout", "c/blake3.h", "chunk_counter %s, buf %s, cv %s" % (cs.get("chunk_counter"), cs.get("buf"), cs.get("cv")))
    ot = dict(t.structs.get("output_t", []))
    ctx.ob(ot.get("counter") == "uint64_t", "c-output-counter-64bit", "c/blake3.c", "output_t.counter %s" % ot.get("counter"))
    # scratch arrays: capacities against the widest reachable SIMD degree are M1C's obligation (per preprocessor configuration,
    # compared with >=); here only the one array whose size is a spec constant
    for s_, g_ in walk_stmts(need(t, "output_root_bytes")["body"]):
        if s_[0] == "decl" and s_[1] == "wide_buf":
            ctx.ob(s_[2] == "uint8_t[64]", "c-scratch:output_root_bytes.wide_buf", t.path, "wide_buf: %s ; required uint8_t[64] (one output block)" % s_[2])
            break
    else:
        raise MissingAnchor("local wide_buf in C function output_root_bytes")


def rule_modeC(ctx):
    t = tu("c/blake3.c")
    SELF = ("var", "self", "param")
    f = need(t, "blake3_hasher_init")
    cs = [c for c, g, l in calls_in(f["body"])]
    ctx.ob(cs == [("call", "hasher_init_base", (SELF, ("var", "IV", "var"), ("int", 0)))], "c-mode:init", t.path, "init = %s" % [cshow(c) for c in cs])
    f = need(t, "blake3_hasher_init_keyed")
    cs = [c for c, g, l in calls_in(f["body"])]
    ok = cs == [("call", "load_key_words", (("var", "key", "param"), ("var", "key_words", "var"))), ("call", "hasher_init_base", (SELF, ("var", "key_words", "var"), ("enum", "KEYED_HASH", 16)))]
    ctx.ob(ok, "c-mode:init_keyed", t.path, "init_keyed = %s" % [cshow(c) for c in cs])
    f = need(t, "blake3_hasher_init_derive_key_raw")
    cs = [c for c, g, l in calls_in(f["body"])]
    CH = ("un", "&", ("var", "context_hasher", "var"))
    want = [("call", "hasher_init_base", (CH, ("var", "IV", "var"), ("enum", "DERIVE_KEY_CONTEXT", 32))),
            ("call", "blake3_hasher_update", (CH, ("var", "context", "param"), ("var", "context_len", "param"))),
            ("call", "blake3_hasher_finalize", (CH, ("var", "context_key", "var"), ("int", 32))),
            ("call", "load_key_words", (("var", "context_key", "var"), ("var", "context_key_words", "var"))),
            ("call", "hasher_init_base", (SELF, ("var", "context_key_words", "var"), ("enum", "DERIVE_KEY_MATERIAL", 64)))]
    ctx.ob(cs == want, "c-mode:init_derive_key_raw", t.path, "derive_key_raw = %s" % [cshow(c)[:70] for c in cs])
    f = need(t, "blake3_hasher_init_derive_key")
    cs = [c for c, g, l in calls_in(f["body"]) if c[1] != "strlen"]
    want = [("call", "blake3_hasher_init_derive_key_raw", (SELF, ("var", "context", "param"), ("call", "strlen", (("var", "context", "param"),))))]
    ctx.ob(cs == want, "c-derive-key-initialisers-agree", t.path, "init_derive_key = %s" % [cshow(c) for c in cs])
    f = need(t, "hasher_init_base")
    st = [s for s, g in walk_stmts(f["body"])]
    cs = [c for c, g, l in calls_in(f["body"])]
    ok = ("call", "chunk_state_init", (("un", "&", ("member", SELF, "chunk")), ("var", "key", "param"), ("var", "flags", "param"))) in cs and \
        any(c[1] == "memcpy" and c[2][0] == ("member", SELF, "key") and c[2][1] == ("var", "key", "param") for c in cs) and \
        any(s[0] == "assign" and s[2] == ("member", SELF, "cv_stack_len") and s[3] == ("int", 0) for s in st)
    ctx.ob(ok, "c-init-base", t.path, "hasher_init_base stores key, chunk_state_init(&chunk, key, flags), cv_stack_len = 0: %s" % ok)
    f = need(t, "blake3_hasher_finalize")
    cs = [c for c, g, l in calls_in(f["body"])]
    ctx.ob(cs == [("call", "blake3_hasher_finalize_seek", (SELF, ("int", 0), ("var", "out", "param"), ("var", "out_len", "param")))], "c-finalize-forwards", t.path, "finalize = %s" % [cshow(c) for c in cs])
    f = need(t, "blake3_hasher_update")
    cs = [c for c, g, l in calls_in(f["body"])]
    ok = len(cs) == 1 and cs[0][1] == "blake3_hasher_update_base" and cs[0][2][:3] == (SELF, ("var", "input", "param"), ("var", "input_len", "param"))
    ctx.ob(ok, "c-update-forwards", t.path, "update = %s" % [cshow(c) for c in cs])


def written_fields(t, fname, memo=None, depth=0):
    """fields written through the first parameter (self) of a C function: {(path tuple)}; follows
    callees that receive self or &self->x as their first argument"""
    memo = {} if memo is None else memo
    if fname in memo or depth > 8:
        return memo.get(fname, set())
    memo[fname] = set()
    f = t.funcs.get(fname)
    if not f or not f["params"]:
        return set()
    selfn = f["params"][0][0]
    out = set()

    def path_of(e):
        p = []
        while True:
            if e[0] == "member":
                p.append(e[2]); e = e[1]
            elif e[0] == "index":
                e = e[1]
            elif e[0] == "un" and e[1] in ("&", "*"):
                e = e[2]
            elif e[0] == "cast":
                e = e[1]
            elif e[0] == "bin" and e[1] in ("+", "-"):
                e = e[2]
            else:
                break
        if e == ("var", selfn, "param"):
            return tuple(reversed(p))
        return None
    for s, g in walk_stmts(f["body"]):
        if s[0] == "assign":
            p = path_of(s[2])
            if p is not None and (p or s[2][0] in ("un", "index")):
                out.add(p)
    for c, g, line in calls_in(f["body"]):
        if not isinstance(c[1], str):
            continue
        for i, a in enumerate(c[2]):
            p = path_of(a)
            if p is None:
                continue
            if c[1] in ("memcpy", "memset", "memmove") and i == 0:
                out.add(p)
            elif c[1] in t.funcs and i < len(t.funcs[c[1]]["params"]):
                pty = t.funcs[c[1]]["params"][i][1]
                if "*" in pty and not pty.strip().startswith("const") or "[" in pty and not pty.strip().startswith("const"):
                    for q in written_fields(t, c[1], memo, depth + 1) if i == 0 else {()}:
                        out.add(p + q)
            elif c[1] not in t.funcs and c[1] in t.protos and i < len(t.protos[c[1]]["params"]):
                pty = t.protos[c[1]]["params"][i][1]
                if ("*" in pty or "[" in pty) and not pty.strip().startswith("const"):
                    out.add(p)
    memo[fname] = out
    return out


def rule_S1C(ctx):
    t = tu("c/blake3.c")
    memo = {}
    W = set()
    for fn in ("blake3_hasher_update", "blake3_hasher_update_base"):
        W |= written_fields(t, fn, memo)
    R = written_fields(t, "blake3_hasher_reset", memo)
    ctx.floor("C hasher fields written by update", len(W), 5)
    LENGTH_GUARDED = {("cv_stack",): ("cv_stack_len",)}   # entries >= cv_stack_len are never read
    for w in sorted(W):
        ok = any(w[:len(r)] == r for r in R) or (w in LENGTH_GUARDED and LENGTH_GUARDED[w] in R)
        ctx.ob(ok, "c-reset-restores:%s" % ".".join(w), "c/blake3.c", "update writes self->%s ; reset writes {%s}%s" % (".".join(w), ", ".join(sorted(".".join(r) for r in R)),
               " (length-guarded array: covered by its length field)" if w in LENGTH_GUARDED and ok else ""))
    # reset values = init values
    rs = need(t, "blake3_hasher_reset")
    SELF = ("var", "self", "param")
    cs = [c for c, g, l in calls_in(rs["body"])]
    ok = ("call", "chunk_state_reset", (("un", "&", ("member", SELF, "chunk")), ("member", SELF, "key"), ("int", 0))) in cs
    st = [s for s, g in walk_stmts(rs["body"]) if s[0] == "assign"]
    ok = ok and any(s[2] == ("member", SELF, "cv_stack_len") and s[3] == ("int", 0) for s in st)
    ctx.ob(ok, "c-reset-values", "c/blake3.c", "reset = chunk_state_reset(&self->chunk, self->key, 0); cv_stack_len = 0: %s" % ok)
    ci, cr = need(t, "chunk_state_init"), need(t, "chunk_state_reset")

    def effects(f):
        eff = {}
        for s, g in walk_stmts(f["body"]):
            if s[0] == "assign" and s[2][0] == "member":
                eff[s[2][2]] = cshow(s[3])
        for c, g, l in calls_in(f["body"]):
            if c[1] in ("memcpy", "memset") and c[2][0][0] == "member":
                eff[c[2][0][2]] = "%s(%s)" % (c[1], ", ".join(cshow(a) for a in c[2][1:]))
        return eff
    ei, er = effects(ci), effects(cr)
    # init may be written as `chunk_state_reset(self, key, 0); self->flags = flags;`: then it has reset's effects with counter 0
    deleg = [c for c, g, l in calls_in(ci["body"]) if c[1] == "chunk_state_reset" and len(c[2]) == 3 and r_cbudget_norm(c[2][0]) == ("var", ci["params"][0][0])
             and r_cbudget_norm(c[2][1]) == ("var", ci["params"][1][0])]
    if deleg and r_cbudget_norm(deleg[0][2][2]) == ("int", 0):
        for k_, v_ in er.items():
            ei.setdefault(k_, "0" if k_ == "chunk_counter" else v_)
    ei.pop("flags", None)
    er2 = dict(er)
    same = all(ei.get(k) == er2.get(k) for k in ("cv", "blocks_compressed", "buf", "buf_len")) and ei.get("chunk_counter") == "0" and er2.get("chunk_counter") == "chunk_counter" and "flags" not in er
    ctx.ob(same, "c-chunk-reset-equals-init", "c/blake3.c", "chunk_state_reset writes %s ; chunk_state_init writes %s (flags kept)" % (er, ei))
    # after construction: key and chunk.flags are never written by update
    ctx.ob(("key",) not in W and ("chunk", "flags") not in W, "c-key-flags-immutable", "c/blake3.c", "update never writes self->key / self->chunk.flags")


def rule_S4C(ctx):
    t = tu("c/blake3.c")
    for fn in ("blake3_hasher_finalize", "blake3_hasher_finalize_seek"):
        f = need(t, fn)
        ty = f["params"][0][1]
        ctx.ob(ty.startswith("const blake3_hasher"), "c-finalize-const-self:%s" % fn, where(t, f["line"]), "%s(%s self, ..)" % (fn, ty))
        w = written_fields(t, fn, {})
        ctx.ob(not w, "c-finalize-writes-nothing:%s" % fn, where(t, f["line"]), "fields written through self: %s" % sorted(w))
        casts = []
        for s, g in walk_stmts(f["body"]):
            for e in s[1:]:
                if isinstance(e, tuple):
                    cast.walk_expr(e, lambda x: casts.append(x) if x[0] == "cast" and "*" in x[2] and "const" in x[3] and "const" not in x[2] else None)
        ctx.ob(not casts, "c-finalize-no-const-cast:%s" % fn, where(t, f["line"]), "casts dropping const: %s" % [cshow(c) for c in casts])
    # helpers used by finalize take const pointers
    for fn in ("chunk_state_output", "output_chaining_value", "output_root_bytes", "chunk_state_len", "chunk_state_maybe_start_flag"):
        f = need(t, fn)
        ctx.ob(f["params"][0][1].startswith("const "), "c-query-helper-const:%s" % fn, where(t, f["line"]), "%s(%s)" % (fn, f["params"][0][1]))


def rule_M3C(ctx):
    t = tu("c/blake3.c")
    def first_is_early_return(fn, var):
        f = need(t, fn)
        s = f["body"][0] if f["body"] else None
        return s is not None and s[0] == "if" and s[1] == ("bin", "==", ("var", var, "param"), ("int", 0)) and len(s[2]) == 1 and s[2][0][0] == "return" and not s[3], f
    for fn, var in (("blake3_hasher_finalize_seek", "out_len"), ("output_root_bytes", "out_len"), ("blake3_hasher_update_base", "input_len")):
        ok, f = first_is_early_return(fn, var)
        ctx.ob(ok, "c-zero-length-noop:%s" % fn, where(t, f["line"]), "first statement of %s is `if (%s == 0) return;`: %s" % (fn, var, ok))
    d = tu("c/blake3_dispatch.c")
    f = need(d, "blake3_xof_many")
    ok = f["body"] and f["body"][0][0] == "if" and f["body"][0][1] == ("bin", "==", ("var", "outblocks", "param"), ("int", 0)) and f["body"][0][2] and f["body"][0][2][0][0] == "return"
    ctx.ob(bool(ok), "c-zero-length-noop:blake3_xof_many", where(d, f["line"]), "first statement of blake3_xof_many is `if (outblocks == 0) return;`: %s" % bool(ok))


# ---------------------------------------------------------------- dispatcher (D1-C), globals, TBB seam ----
ISA_FEATURE = {"avx512": {"AVX512VL", "AVX512F"}, "avx2": {"AVX2"}, "sse41": {"SSE41"}, "sse2": {"SSE2"}}
DEGREE = {"avx512": 16, "avx2": 8, "sse41": 4, "sse2": 4, "neon": 4}


def guard_features(g):
    """set of feature enumerators a guard condition tests: `features & X`  or  `(features & (A|B)) == (A|B)`"""
    out = set()
    def feats(e):
        s = set()
        cast.walk_expr(e, lambda x: s.add(x[1]) if x[0] == "enum" else None)
        return s
    if g[0] == "bin" and g[1] == "&" and g[2] == ("var", "features", "var"):
        return feats(g[3]), "any"
    if g[0] == "bin" and g[1] == "==" and g[2][0] == "bin" and g[2][1] == "&" and g[2][2] == ("var", "features", "var") and feats(g[2][3]) == feats(g[3]):
        return feats(g[3]), "all"
    return None, None


def rule_D1C(ctx):
    combos = [(), ("BLAKE3_NO_AVX512",), ("BLAKE3_NO_AVX512", "BLAKE3_NO_AVX2"), ("BLAKE3_NO_AVX512", "BLAKE3_NO_AVX2", "BLAKE3_NO_SSE41"),
              ("BLAKE3_NO_AVX512", "BLAKE3_NO_AVX2", "BLAKE3_NO_SSE41", "BLAKE3_NO_SSE2")]
    if ctx.tier == "quick":
        combos = [combos[0], combos[-1], combos[1]]
    for defs in combos:
        t = tu("c/blake3_dispatch.c", defs)
        tag = "+".join(d.replace("BLAKE3_", "") for d in defs) or "default"
        disabled = set(d.replace("BLAKE3_NO_", "").lower() for d in defs)
        chains = {}
        for op in ("compress_in_place", "compress_xof", "xof_many", "hash_many"):
            f = need(t, "blake3_" + op)
            params = tuple(("var", p[0], "param") for p in f["params"])
            chain = []
            for c, g, line in calls_in(f["body"]):
                if not isinstance(c[1], str) or not c[1].startswith("blake3_" + op + "_"):
                    continue
                isa = c[1][len("blake3_" + op + "_"):]
                if isa == "portable":
                    ctx.ob(c[2] == params or (op == "xof_many"), "c-dispatch-fallback:%s:%s" % (op, tag), where(t, line), "fallback %s" % cshow(c)[:120])
                    chain.append(("portable", None))
                    continue
                feats = None
                for cond, pol in g:
                    fs, mode = guard_features(cond)
                    if fs is not None and pol:
                        feats = fs
                need_f = ISA_FEATURE.get(isa, {"?"})
                if isa == "neon" and feats is None and not g:
                    # NEON is selected by the preprocessor (BLAKE3_USE_NEON == 1), not by a runtime feature test: the call is
                    # unconditional and must be followed by a return so that the portable fallback is not run as well
                    feats = frozenset({"NEON"})
                    need_f = {"NEON"}
                    body = f["body"]
                    idx = [i for i, st in enumerate(body) if st[0] == "expr" and st[1] == c]
                    ctx.ob(bool(idx) and idx[0] + 1 < len(body) and body[idx[0] + 1][0] == "return", "c-dispatch-neon-returns:%s:%s" % (op, tag), where(t, line),
                           "the unconditional NEON call is followed by return")
                ok = feats is not None and bool(feats & need_f) and feats <= need_f
                ctx.ob(ok, "c-dispatch-guard:%s:%s:%s" % (op, isa, tag), where(t, line), "%s called under `features & %s` ; kernel ISA %s" % (c[1], sorted(feats) if feats else None, isa))
                ctx.ob(c[2] == params, "c-dispatch-passthrough:%s:%s:%s" % (op, isa, tag), where(t, line), "%s(%s)" % (c[1], ", ".join(cshow(a) for a in c[2]))[:160])
                ctx.ob(isa not in disabled, "c-dispatch-disabled-absent:%s:%s:%s" % (op, isa, tag), where(t, line), "kernel %s present although BLAKE3_NO_%s is defined" % (isa, isa.upper()) if isa in disabled else "enabled")
                chain.append((isa, frozenset(feats or ())))
            chains[op] = chain
            if op in ("compress_in_place", "compress_xof", "hash_many"):
                ctx.ob(bool(chain) and chain[-1][0] == "portable", "c-dispatch-ends-portable:%s:%s" % (op, tag), where(t, f["line"]), "chain %s" % [c[0] for c in chain])
        # xof_many: portable fallback is a loop over blake3_compress_xof with counter + i
        f = need(t, "blake3_xof_many")
        loops = [s for s, g in walk_stmts(f["body"]) if s[0] == "loop"]
        okx = False
        for lp in loops:
            for c, g, line in calls_in(lp[3]):
                if c[1] == "blake3_compress_xof" and c[2][3] == ("bin", "+", ("var", "counter", "param"), ("var", "i", "var")) and c[2][:3] == (("var", "cv", "param"), ("var", "block", "param"), ("var", "block_len", "param")) \
                        and c[2][4] == ("var", "flags", "param") and c[2][5] == ("bin", "+", ("var", "out", "param"), ("bin", "*", ("int", 64), ("var", "i", "var"))):
                    okx = lp[2] == ("bin", "<", ("var", "i", "var"), ("var", "outblocks", "param"))
        ctx.ob(okx, "c-xof-fallback-loop:%s" % tag, where(t, f["line"]), "for i < outblocks: blake3_compress_xof(cv, block, block_len, counter + i, flags, out + 64*i): %s" % okx)
        # simd_degree: return values per guard, <= MAX_SIMD_DEGREE, same chain as hash_many
        sd = need(t, "blake3_simd_degree")
        rets = []
        for s, g in walk_stmts(sd["body"]):
            if s[0] == "return":
                feats = None
                for cond, pol in g:
                    fs, mode = guard_features(cond)
                    if fs is not None and pol:
                        feats = fs
                rets.append((frozenset(feats) if feats else None, s[1]))
        if any(c[0] == "neon" for c in chains["hash_many"]) and len(rets) >= 2 and rets[0][0] is None and not any(r[0] for r in rets):
            rets[0] = (frozenset({"NEON"}), rets[0][1])     # `#if BLAKE3_USE_NEON == 1  return 4;` precedes the fallback return
        hm = [c for c in chains["hash_many"] if c[0] != "portable"]
        sdc = [r for r in rets if r[0] is not None]
        ctx.ob([c[1] for c in hm] == [r[0] for r in sdc], "c-simd-degree-chain-equals-hash_many:%s" % tag, where(t, sd["line"]),
               "simd_degree tests %s ; hash_many tests %s" % ([sorted(r[0]) for r in sdc], [sorted(c[1]) for c in hm]))
        for (isa, fs), (fs2, v) in zip(hm, sdc):
            ctx.ob(v == ("int", DEGREE[isa]) and DEGREE[isa] <= 16, "c-simd-degree:%s:%s" % (isa, tag), where(t, sd["line"]), "%s => degree %s ; kernel width %d, MAX_SIMD_DEGREE 16" % (sorted(fs2), cshow(v), DEGREE[isa]))
        last = [r for r in rets if r[0] is None]
        ctx.ob(bool(last) and last[-1][1] == ("int", 1), "c-simd-degree-fallback:%s" % tag, where(t, sd["line"]), "fallback degree %s" % (cshow(last[-1][1]) if last else "?"))


def _norm_atomics(x):
    """the MSVC spelling of the cache access (ATOMIC_LOAD / ATOMIC_STORE in blake3_dispatch.c): `InterlockedOr(&g, 0)` is a
    load of g, `InterlockedExchange(&g, v);` as a statement is the store g = v.  Rewritten to the plain forms so that one
    path rule decides all three spellings (C11 _Atomic, MSVC Interlocked*, plain int)."""
    if isinstance(x, list):
        return [_norm_atomics(y) for y in x]
    if not isinstance(x, tuple):
        return x
    if len(x) == 3 and x[0] == "expr" and isinstance(x[1], tuple) and x[1][:2] == ("call", "_InterlockedExchange") and len(x[1][2]) == 2 \
            and x[1][2][0][:2] == ("un", "&"):
        return ("assign", "=", x[1][2][0][2], _norm_atomics(x[1][2][1]), x[2])
    if x[:2] == ("call", "_InterlockedOr") and len(x[2]) == 2 and x[2][0][:2] == ("un", "&") and x[2][1] == ("int", 0):
        return x[2][0][2]
    return tuple(_norm_atomics(y) for y in x)


def rule_G1C(ctx):
    for path in ("c/blake3.c", "c/blake3_dispatch.c", "c/blake3_portable.c"):
        t = tu(path)
        n = 0
        for g in t.globals:
            f = g.get("file") or ""
            if "/usr/" in f or f.startswith("/usr") or "lib/clang" in f:
                continue
            if g["storage"] == "extern" and not g["has_init"]:
                continue
            n += 1
            is_cache = g["name"] == "g_cpu_features" and path.endswith("dispatch.c")
            const = g["type"].startswith("const ") or " const" in g["type"].split("[")[0]
            ctx.ob(const or is_cache, "c-global:%s:%s" % (os.path.basename(path), g["name"]), where(t, g["line"]),
                   "%s %s: %s" % (g["storage"], g["type"], "idempotent CPU-feature cache" if is_cache else "const data" if const else "mutable static storage other than the feature-detection cache"))
        # function-local statics
        for fn, f in t.funcs.items():
            for s, gg in walk_stmts(f["body"]):
                if s[0] == "decl" and "static" in s[2].split() and "const" not in s[2]:
                    ctx.ob(False, "c-local-static:%s:%s" % (fn, s[1]), where(t, s[4]), "function-local mutable static %s %s" % (s[2], s[1]))
    d = tu("c/blake3_dispatch.c")
    dfuncs = {fn: dict(f, body=_norm_atomics(f["body"])) for fn, f in d.funcs.items()}
    stores = []
    for fn, f in dfuncs.items():
        for s, g in walk_stmts(f["body"]):
            if s[0] == "assign" and s[2] == ("var", "g_cpu_features", "var"):
                stores.append((fn, s[3], s[4]))
            if s[0] == "expr" or s[0] == "decl":
                e = s[1] if s[0] == "expr" else s[3]
                if e is not None:
                    cast.walk_expr(e, lambda x: stores.append((fn, x, s[-1])) if x[0] == "un" and x[1] == "&" and x[2] == ("var", "g_cpu_features", "var") else None)
    # who may write: only get_cpu_features; what: a plain local; when: at most once per path, and the
    # local is not modified between the store and the return of that same local (the published value is final)
    if not any(g["name"] == "g_cpu_features" for g in d.globals):
        # no x86 dispatch in this flavour (IS_X86 undefined): there is no feature cache, hence nothing shared at all
        ctx.ob(not stores and "get_cpu_features" not in d.funcs, "c-no-cache-in-this-flavour", d.path, "no g_cpu_features, no get_cpu_features, no stores")
        return
    bad = [(fn, cshow(v)) for fn, v, l in stores if fn != "get_cpu_features" or v[0] != "var"]
    ctx.ob(bool(stores) and not bad, "c-cache-writer", "c/blake3_dispatch.c",
           "stores to g_cpu_features: %s" % [(fn, cshow(v)) for fn, v, l in stores])
    need(d, "get_cpu_features")
    gfn = dfuncs["get_cpu_features"]
    problems = []

    def is_store(st):
        return st[0] == "assign" and st[2] == ("var", "g_cpu_features", "var")

    def walk(stmts, states):
        """states: set of (stored_var or None); returns the fall-through states"""
        for st in stmts:
            if not states:
                break
            if is_store(st):
                nxt = set()
                for sv in states:
                    if sv is not None:
                        problems.append("line %s: a second store to g_cpu_features on a path that has already published a value" % st[-1])
                    nxt.add(st[3][1] if st[3][0] == "var" else "?")
                states = nxt
            elif st[0] == "assign" and st[2][0] == "var":
                for sv in states:
                    if sv is not None and st[2][1] == sv:
                        problems.append("line %s: %s is modified after it was published to g_cpu_features" % (st[-1], sv))
            elif st[0] == "return":
                for sv in states:
                    if sv is not None and st[1] != ("var", sv, "var"):
                        problems.append("line %s: returns %s after publishing %s" % (st[-1], cshow(st[1]) if st[1] else "void", sv))
                states = set()
            elif st[0] == "if":
                subs = [x for x in st if isinstance(x, list)]
                out = set()
                for sub in subs:
                    out |= walk(sub, set(states))
                if len(subs) < 2:
                    out |= states
                states = out
            elif st[0] == "loop":
                subs = [x for x in st if isinstance(x, list)]
                cur = set(states)
                for _ in range(3):
                    cur |= walk(subs[0] if subs else [], set(cur))
                states = cur
            elif st[0] in ("switch", "goto", "label"):
                problems.append("line %s: unstructured control flow in get_cpu_features" % st[-1])
        return states
    walk(gfn["body"], {None})
    ctx.ob(not problems, "c-cache-store-final", where(d, gfn["line"]),
           "; ".join(sorted(set(problems)))[:300] or "on every path g_cpu_features is stored at most once, from a local that is not modified afterwards and is the value returned")
    # the stored value is computed from cpuid / xgetbv only: every `features |= X` sits under tests of regs / mask
    gf = gfn
    srcs = set()
    for c, g, line in calls_in(gf["body"]):
        if isinstance(c[1], str):
            srcs.add(c[1])
    ctx.ob(srcs <= {"cpuid", "cpuidex", "xgetbv"}, "c-cache-value-from-cpuid", where(d, gf["line"]), "get_cpu_features calls only %s" % sorted(srcs))


def rule_G5C(ctx):
    t = tu("c/blake3.c", ("BLAKE3_USE_TBB",))
    f = need(t, "blake3_compress_subtree_wide")
    js = [c for c, g, l in calls_in(f["body"]) if c[1] == "blake3_compress_subtree_wide_join_tbb"]
    V = lambda n, k="var": ("var", n, k)
    want = (V("key", "param"), V("flags", "param"), V("use_tbb", "param"),
            V("input", "param"), V("left_input_len"), V("chunk_counter", "param"), V("cv_array"), ("un", "&", V("left_n")),
            V("right_input"), V("right_input_len"), V("right_chunk_counter"), V("right_cvs"), ("un", "&", V("right_n")))
    ctx.ob(len(js) == 1 and js[0][2] == want, "c-tbb-seam-arguments", "c/blake3.c", "join_tbb(%s)" % (", ".join(cshow(a) for a in js[0][2]) if js else "?")[:200])
    d = {s[1]: s[3] for s, g in walk_stmts(f["body"]) if s[0] == "decl"}
    ok = d.get("right_input") == ("un", "&", ("index", V("input", "param"), V("left_input_len"))) and d.get("right_input_len") == ("bin", "-", V("input_len", "param"), V("left_input_len")) \
        and nc(d.get("right_chunk_counter")) == ("bin", "+", V("chunk_counter", "param"), ("cast", ("bin", "/", V("left_input_len"), ("int", 1024)), "uint64_t")) \
        and d.get("right_cvs") == ("un", "&", ("index", V("cv_array"), ("bin", "*", V("degree"), ("int", 32)))) and d.get("left_input_len") == ("call", "left_subtree_len", (V("input_len", "param"),))
    ctx.ob(ok, "c-subtree-split", "c/blake3.c", "right half = &input[left_len], input_len-left_len, counter+left_len/CHUNK_LEN, &cv_array[degree*OUT_LEN]: %s" % ok)
    # serial build: the two recursive calls use their own side's operands
    t0 = tu("c/blake3.c")
    f0 = need(t0, "blake3_compress_subtree_wide")
    rec = [(s[2], s[3]) for s, g in walk_stmts(f0["body"]) if s[0] == "assign" and s[3][0] == "call" and s[3][1] == "blake3_compress_subtree_wide"]
    wl = ("call", "blake3_compress_subtree_wide", (V("input", "param"), V("left_input_len"), V("key", "param"), V("chunk_counter", "param"), V("flags", "param"), V("cv_array"), V("use_tbb", "param")))
    wr = ("call", "blake3_compress_subtree_wide", (V("right_input"), V("right_input_len"), V("key", "param"), V("right_chunk_counter"), V("flags", "param"), V("right_cvs"), V("use_tbb", "param")))
    ctx.ob(rec == [(V("left_n"), wl), (V("right_n"), wr)], "c-serial-recursion", "c/blake3.c", "left_n/right_n = recursive calls on their own halves: %s" % (rec == [(V("left_n"), wl), (V("right_n"), wr)]))
    stubs = os.path.join(VERIF, "engines", "cfront", "stubs")
    x = tu("c/blake3_tbb.cpp", (), lang="c++", extra_args=("-std=c++20", "-I", stubs, "-fno-exceptions"))
    jf = x.funcs.get("blake3_compress_subtree_wide_join_tbb")
    if jf is None:
        raise MissingAnchor("blake3_compress_subtree_wide_join_tbb in c/blake3_tbb.cpp")
    P_ = lambda n: ("var", n, "param")
    lams = []
    for c, g, l in calls_in(jf["body"]):
        if isinstance(c[1], tuple) or (isinstance(c[1], str) and "parallel_invoke" in c[1]):
            lams = [a for a in c[2] if a[0] == "lambda"]
    if not lams:
        for s, g in walk_stmts(jf["body"]):
            if s[0] == "expr":
                cast.walk_expr(s[1], lambda z: lams.append(z) if z[0] == "lambda" else None)
    ctx.ob(len(lams) == 2, "c-tbb-two-lambdas", "c/blake3_tbb.cpp", "%d lambda(s) handed to parallel_invoke" % len(lams))
    sides = [("l", "l_n"), ("r", "r_n")]
    for (pre, nres), lam in zip(sides, lams):
        byref = [c for c in lam[1] if c.strip().endswith("&")]
        ctx.ob(not byref, "c-tbb-capture-by-value:%s" % pre, "c/blake3_tbb.cpp", "captures %s" % list(lam[1]))
        body = list(lam[2])
        want = ("assign", "=", ("un", "*", ("var", nres, "param")), ("call", "blake3_compress_subtree_wide", (P_(pre + "_input"), P_(pre + "_input_len"), P_("key"), P_(pre + "_chunk_counter"), P_("flags"), P_(pre + "_cvs"), P_("use_tbb"))))
        ok = len(body) == 1 and body[0][:4] == want
        ctx.ob(ok, "c-tbb-lambda-own-side:%s" % pre, "c/blake3_tbb.cpp", "lambda body: %s" % (cshow(body[0][3])[:140] if body and body[0][0] == "assign" else body[:1]))


def rule_LZC(ctx):
    """lazy chunk closing (C): blake3_hasher_update_base takes chunk_state_output(&self->chunk) as an interior
    chaining value only inside `if (input_len > 0)` evaluated after the input cursor was advanced"""
    t = tu("c/blake3.c")
    f = need(t, "blake3_hasher_update_base")
    found = []

    def walk(stmts, conds):
        for i, s in enumerate(stmts):
            if s[0] == "if":
                subs = [x for x in s if isinstance(x, list)]
                walk(subs[0], conds + [(s[1], True, stmts[:i])])
                if len(subs) > 1:
                    walk(subs[1], conds + [(s[1], False, stmts[:i])])
            elif s[0] == "loop":
                subs = [x for x in s if isinstance(x, list)]
                walk(subs[0] if subs else [], conds + [(s[2], True, stmts[:i])])
            else:
                hit = []
                here = conds + [(("int", 1), True, stmts[:i])]
                for x in s:
                    if isinstance(x, tuple):
                        cast.walk_expr(x, lambda y: hit.append(y) if y[0] == "call" and y[1] == "chunk_state_output" and y[2] and y[2][0] == ("un", "&", ("member", ("var", "self", "param"), "chunk")) else None)
                if hit:
                    found.append((s, here))
    walk(f["body"], [])
    ctx.ob(len(found) >= 1, "c-own-chunk-output-sites", where(t, f["line"]), "%d use(s) of chunk_state_output(&self->chunk) in update" % len(found))
    def more_input_by_subtraction(conds, site):
        """second accepted form: an earlier `if (input_len <= V) { ...; return; }` leaves input_len > V, and the statements up to
        the site subtract exactly V from input_len (V not reassigned in between): input_len > 0 at the site"""
        N = r_cbudget_norm
        pre = []
        for c, truth, before in conds:
            pre.extend(before)
        # statements of the innermost list that precede the site
        for k, st in enumerate(pre):
            if st[0] != "if":
                continue
            subs = [x for x in st if isinstance(x, list)]
            c = N(st[1])
            if not (len(subs) >= 1 and subs[0] and subs[0][-1][0] == "return" and (len(subs) == 1 or not subs[1])):
                continue
            if c in (("bin", "==", ("var", "input_len"), ("int", 0)), ("un", "!", ("var", "input_len"))):
                # third accepted form: `if (input_len == 0) return;` earlier on the path, input_len untouched since
                if not any(later[0] == "assign" and N(later[2]) == ("var", "input_len") for later in pre[k + 1:]):
                    return True
                continue
            if not (c[0] == "bin" and c[1] == "<=" and c[2] == ("var", "input_len") and c[3][0] == "var"):
                continue
            V = c[3]
            subtracted = False
            clean = True
            for later in pre[k + 1:]:
                if later[0] == "assign" and N(later[2]) == V:
                    clean = False
                if later[0] == "assign" and N(later[2]) == ("var", "input_len"):
                    if later[1] == "-=" and N(later[3]) == V and not subtracted:
                        subtracted = True
                    else:
                        clean = False
            if clean and subtracted:
                return True
        return False
    for s, conds in found:
        ok = False
        for c, truth, before in conds:
            c = c
            while c[0] == "cast":
                c = c[1]
            if truth and c[0] == "bin" and c[1] in (">", "!=") and c[2][0] == "var" and c[2][1] == "input_len" and c[3] == ("int", 0):
                ok = True
        if not ok:
            ok = more_input_by_subtraction(conds, s)
        ctx.ob(ok, "c-chunk-closed-only-with-more-input", where(t, s[-1] if isinstance(s[-1], int) else f["line"]),
               "chunk_state_output(&self->chunk) is taken under if (input_len > 0): %s (conditions: %s)" % (ok, [cshow(c)[:40] for c, tr, b in conds]))


C_OBJECT_FILES = [("c/blake3.c", ()), ("c/blake3_portable.c", ()), ("c/blake3_sse2.c", ("-msse2",)), ("c/blake3_sse41.c", ("-msse4.1",)),
                  ("c/blake3_avx2.c", ("-mavx2",)), ("c/blake3_avx512.c", ("-mavx512f", "-mavx512vl"))]


def rule_G1obj(ctx):
    """object-level twin of G1C for every C translation unit incl. the intrinsics kernels: compiled (never
    linked or run) at -O0, the object has no writable data (.data/.bss/.tdata/.tbss are empty).  The dispatcher is
    the one exception: its only writable object is g_cpu_features (decided by G1C on the AST)."""
    import subprocess
    import tempfile
    import re as _re
    n = 0
    for path, mflags in C_OBJECT_FILES + [("c/blake3_dispatch.c", ())]:
        src = os.path.join(REPO, path)
        with tempfile.TemporaryDirectory() as td:
            o = os.path.join(td, "x.o")
            r = subprocess.run(["clang", "-c", "-O0", "-I", os.path.join(REPO, "c")] + list(mflags) + [src, "-o", o], capture_output=True, text=True)
            if r.returncode:
                ctx.ob(False, "c-object-compiles:%s" % os.path.basename(path), path, "clang -c failed: %s" % r.stderr[-300:])
                continue
            h = subprocess.run(["llvm-objdump", "-h", o], capture_output=True, text=True).stdout
            syms = subprocess.run(["llvm-objdump", "-t", o], capture_output=True, text=True).stdout
        n += 1
        sizes = {}
        for line in h.splitlines():
            m = _re.match(r"^\s*\d+\s+(\S+)\s+([0-9a-f]{8})\s", line)
            if m:
                sizes[m.group(1)] = int(m.group(2), 16)
        writable = {k: v for k, v in sizes.items() if (k in (".data", ".bss", ".tdata", ".tbss") or k.startswith(".data.") or k.startswith(".bss.")) and v}
        names = []
        for line in syms.splitlines():
            m = _re.match(r"^[0-9a-f]{16}\s+\S+\s+O\s+(\.data\S*|\.bss\S*|\.tdata\S*|\.tbss\S*)\s+[0-9a-f]+\s+(\S+)$", line)
            if m:
                names.append(m.group(2))
        if path.endswith("dispatch.c"):
            ok = set(names) <= {"g_cpu_features"}
            ctx.ob(ok, "c-object-writable-data:%s" % os.path.basename(path), path, "writable objects: %s ; only the idempotent feature cache is allowed" % sorted(names))
        else:
            ctx.ob(not writable, "c-object-writable-data:%s" % os.path.basename(path), path,
                   "writable sections %s, objects %s" % (writable, sorted(names)) if writable else "no writable data section (sections: %s)" % sorted(k for k in sizes if sizes[k])[:6])
    ctx.floor("C translation units checked at object level", n, 7)


def rule_W1C(ctx):
    """blake3_compress_subtree_wide (C): the two-children shortcut is taken exactly when the LEFT recursion returned one
    chaining value; otherwise one parent layer is compressed over left_n + right_n children"""
    for defs in ((), ("BLAKE3_USE_TBB",)):
        t = tu("c/blake3.c", defs)
        f = need(t, "blake3_compress_subtree_wide")
        tag = "+tbb" if defs else ""
        ifs = [s for s in f["body"] if s[0] == "if" and any(x[0] == "return" and x[1] == ("int", 2) for x in s[2])]
        ok = len(ifs) == 1 and nc(ifs[0][1]) in (("bin", "==", ("var", "left_n", "var"), ("int", 1)), ("bin", "==", ("int", 1), ("var", "left_n", "var")))
        ctx.ob(ok, "c-subtree-two-children-iff-left-n-1%s" % tag, where(t, f["line"]),
               "`return 2` (children copied out unmerged) under %s ; required left_n == 1" % ([cshow(s[1]) for s in ifs] or "no such branch"))
        if ok:
            mc = [x for x in ifs[0][2] if x[0] == "expr" and x[1][0] == "call" and x[1][1] == "memcpy"]
            okc = len(mc) == 1 and nc(mc[0][1][2][0]) == ("var", "out", "param") and nc(mc[0][1][2][1]) == ("var", "cv_array", "var") and r_cbudget_norm(mc[0][1][2][2]) == ("int", 64)
            ctx.ob(okc, "c-subtree-two-children-copy%s" % tag, where(t, f["line"]), "memcpy(out, cv_array, 2 * BLAKE3_OUT_LEN): %s" % okc)
        d = {s[1]: s[3] for s in f["body"] if s[0] == "decl"}
        rets = [s for s in f["body"] if s[0] == "return"]
        okp = len(rets) == 1 and rets[0][1][0] == "call" and rets[0][1][1] == "compress_parents_parallel" and \
            nc(rets[0][1][2][0]) == ("var", "cv_array", "var") and nc(rets[0][1][2][1]) == ("var", "num_chaining_values", "var") and \
            nc(d.get("num_chaining_values")) in (("bin", "+", ("var", "left_n", "var"), ("var", "right_n", "var")), ("bin", "+", ("var", "right_n", "var"), ("var", "left_n", "var")))
        first = f["body"][0]
        okl = first[0] == "if" and r_cbudget_norm(first[1]) in (("bin", "<=", ("var", "input_len"), ("bin", "*", ("call", "blake3_simd_degree", ()), ("int", 1024))),) \
            and any(x[0] == "return" and x[1][0] == "call" and x[1][1] == "compress_chunks_parallel" for x in first[2])
        ctx.ob(okl, "c-subtree-leaf-width-is-simd-degree%s" % tag, where(t, f["line"]), "leaf case: input_len <= blake3_simd_degree() * BLAKE3_CHUNK_LEN => compress_chunks_parallel: %s" % okl)
        ctx.ob(okp, "c-subtree-parents-over-all-children%s" % tag, where(t, f["line"]), "return compress_parents_parallel(cv_array, left_n + right_n, ..): %s" % okp)


def r_cbudget_norm(e):
    import r_cbudget
    return r_cbudget.norm(e)


def rule_ZPC(ctx):
    """C twin of ZP: wherever blake3_chunk_state.buf_len is set back to 0 the same statement list zeroes the whole buf of the
    same object (memset(x->buf, 0, BLAKE3_BLOCK_LEN)) with no write into buf between the two; buf / buf_len are written only by
    the chunk_state_* functions.  (The final block is compressed from all 64 buffer bytes: stale bytes would become padding.)"""
    t = tu("c/blake3.c")
    n = 0
    writers = set()

    def lists(stmts):
        yield stmts
        for s in stmts:
            for x in s:
                if isinstance(x, list):
                    for y in lists(x):
                        yield y
    for fn, f in sorted(t.funcs.items()):
        tys = local_types(f)
        for sl in lists(f["body"]):
            for i, s in enumerate(sl):
                if s[0] == "assign" and s[2][0] == "member" and s[2][2] in ("buf_len",) and owner_of(t, f, s[2], tys) == ("blake3_chunk_state", "buf_len"):
                    writers.add(fn)
                    if s[1] == "=" and s[3] == ("int", 0):
                        n += 1
                        base = s[2][1]
                        zs = [j for j, z in enumerate(sl) if z[0] == "expr" and z[1][:2] == ("call", "memset") and len(z[1][2]) == 3
                              and nc(z[1][2][0]) == ("member", base, "buf") and z[1][2][1] == ("int", 0) and r_cbudget_norm(z[1][2][2]) == ("int", 64)]
                        ok = False
                        for j in zs:
                            lo, hi = min(i, j), max(i, j)
                            between = sl[lo + 1:hi]
                            if not any("'buf'" in repr(b) for b in between):
                                ok = True
                        ctx.ob(ok, "c-zero-padding-on-length-reset:%s#%d" % (fn, n), where(t, s[-1]),
                               "%s = 0 %s" % (cshow(s[2]), "with memset(buf, 0, BLAKE3_BLOCK_LEN) beside it" if ok else "without zeroing buf: stale bytes beyond buf_len would be compressed as padding"))
        for c, g, line in calls_in(f["body"]):
            if c[1] in ("memcpy", "memset") and c[2] and "buf" in cshow(c[2][0]):
                d = c[2][0]
                while d[0] in ("cast", "bin", "un", "index"):
                    d = d[1] if d[0] != "bin" else d[2]
                if d[0] == "member" and d[2] == "buf" and owner_of(t, f, d, tys) == ("blake3_chunk_state", "buf"):
                    writers.add(fn)
    allowed = {"chunk_state_init", "chunk_state_reset", "chunk_state_fill_buf", "chunk_state_update"}
    ctx.ob(writers <= allowed and "chunk_state_update" in writers, "c-buffer-fields-written-only-by-chunk-state-functions", t.path, "writers of buf/buf_len: %s" % sorted(writers))
    ctx.floor("C length resets with zeroing", n, 2)      # init may delegate to reset: at least reset and update


NO_ISA = ("BLAKE3_NO_SSE2", "BLAKE3_NO_SSE41", "BLAKE3_NO_AVX2", "BLAKE3_NO_AVX512")


def rule_M1C(ctx):
    """scratch capacity vs the widest kernel, per preprocessor configuration: in every combination of the BLAKE3_NO_<ISA>
    switches (and in every C flavour) the largest value blake3_simd_degree() can return -- read from the dispatcher as parsed
    with those switches -- fits the on-stack arrays of c/blake3.c as parsed with the same switches: chunks_array >= degree
    pointers, parents_array >= max(degree, 2), cv_array (subtree_wide) >= 2 * max(degree, 2) CVs, cv_array / out_array
    (to_parent_node) >= max(degree, 2) CVs / half of that.  Capacities are compared with >=, not ==: a larger array is fine."""
    import itertools
    if FLAVOUR.endswith("aarch64"):
        combos = [(), ("BLAKE3_USE_NEON=0",)]
    elif ctx.tier == "quick":
        combos = [(), NO_ISA[3:], NO_ISA[2:], NO_ISA[1:], NO_ISA, (NO_ISA[0],), (NO_ISA[1],)]
    else:
        combos = [c for r in range(5) for c in itertools.combinations(NO_ISA, r)]
    n = 0
    for defs in combos:
        tag = "+".join(x.replace("BLAKE3_", "") for x in defs) or "default"
        d = tu("c/blake3_dispatch.c", defs)
        t = tu("c/blake3.c", defs)
        sd = need(d, "blake3_simd_degree")
        degs = []
        sym = False
        for s_, g in walk_stmts(sd["body"]):
            if s_[0] == "return":
                v = r_cbudget_norm(s_[1]) if s_[1] is not None else None
                if v is not None and v[0] == "int":
                    degs.append(v[1])
                else:
                    sym = True
        if sym or not degs:
            ctx.ob(False, "c-scratch-capacity:%s" % tag, where(d, sd["line"]), "blake3_simd_degree returns a non-literal value")
            continue
        deg = max(degs)
        d2 = max(deg, 2)

        def cap(fn, name):
            for s_, g_ in walk_stmts(need(t, fn)["body"]):
                if s_[0] == "decl" and s_[1] == name:
                    m = re.search(r"\[(\d+)\]\s*$", s_[2])
                    return int(m.group(1)) if m else None
            if name == "out_array":
                return -1       # the condensing loop is #if'd out when MAX_SIMD_DEGREE_OR_2 == 2
            raise MissingAnchor("local %s in C function %s" % (name, fn))
        reqs = [("compress_chunks_parallel", "chunks_array", deg), ("compress_parents_parallel", "parents_array", d2),
                ("blake3_compress_subtree_wide", "cv_array", 2 * d2 * 32), ("compress_subtree_to_parent_node", "cv_array", d2 * 32),
                ("compress_subtree_to_parent_node", "out_array", d2 * 32 // 2)]
        bad = []
        for fn, name, req in reqs:
            c = cap(fn, name)
            if c == -1:
                if d2 > 2:
                    bad.append("the loop condensing more than 2 chaining values is compiled out, but degree %d yields up to %d" % (deg, d2))
                continue
            if c is None or c < req:
                bad.append("%s.%s holds %s, needs %d" % (fn, name, c, req))
        n += 1
        ctx.ob(not bad, "c-scratch-capacity:%s" % tag, t.path, "widest reachable degree %d (returns %s): %s" % (deg, sorted(set(degs)), "; ".join(bad) or "all five scratch arrays are large enough"))
    ctx.floor("preprocessor configurations with scratch-capacity check", n, 2)


KERNIGHAN = [("decl", "count", "unsigned int", ("int", 0)),
             ("loop", "while", ("bin", "!=", ("var", "x", "param"), ("int", 0)),
              [("assign", "+=", ("var", "count", "var"), ("int", 1)), ("assign", "&=", ("var", "x", "param"), ("bin", "-", ("var", "x", "param"), ("int", 1)))]),
             ("return", ("var", "count", "var"))]


def _strip_lines(x):
    if isinstance(x, list):
        return [_strip_lines(y) for y in x if not (isinstance(y, list) and not y)]
    if isinstance(x, tuple):
        if x and x[0] in ("decl", "assign", "return", "expr", "if", "loop") and isinstance(x[-1], int):
            x = x[:-1]
        if x and x[0] == "loop":
            x = tuple(y for y in x if not isinstance(y, int) and y != [])
        return tuple(_strip_lines(y) for y in x)
    return x


def rule_HBC(ctx):
    """the bit helpers of blake3_impl.h in the flavour at hand.  highest_one: for each of the 64 classes of nonzero inputs (highest
    set bit = q, lower bits arbitrary) the body, interpreted over intervals with every branch decided by the class, returns exactly
    q -- this covers the __builtin_clzll form, both _BitScanReverse forms and the shift-and-mask fallback.  popcnt is one of the two
    enumerated forms (the builtin, or Kernighan's clear-lowest-bit loop).  round_down_to_power_of_2(x) = 1 << highest_one(x | 1)."""
    import bitclass
    t = tu("c/blake3.c")
    f = need(t, "highest_one")
    msvc = FLAVOUR.startswith("msvc")
    be = bitclass.BitEval(32 if msvc or FLAVOUR.endswith("i686") else 64)
    bad = []
    for q in range(64):
        try:
            r = be.call(f, [(1 << q, (1 << (q + 1)) - 1)])
            if r != (q, q):
                bad.append("highest bit %d: returns %s" % (q, r if r[0] != r[1] else r[0]))
        except bitclass.Undecided as e:
            bad.append("highest bit %d: %s" % (q, e))
    ctx.ob(not bad, "c-highest_one", where(t, f["line"]), "; ".join(bad[:4]) or "returns q for every x in [2^q, 2^(q+1)) and every q in 0..63")
    def as_assign(s_):
        if isinstance(s_, tuple) and s_ and s_[0] == "expr" and isinstance(s_[1], tuple) and s_[1][0] == "bin" and s_[1][1].endswith("=") and s_[1][1] not in ("==", "!=", "<=", ">="):
            return ("assign", s_[1][1], s_[1][2], s_[1][3]) + tuple(s_[2:])
        return s_

    def for_to_while(stmts):
        out = []
        for s_ in stmts:
            if isinstance(s_, tuple) and s_ and s_[0] == "loop" and s_[1] == "for":
                init = list(s_[5]) if len(s_) > 5 and isinstance(s_[5], list) else []
                inc = [as_assign(x_) for x_ in (s_[6] if len(s_) > 6 and isinstance(s_[6], list) else [])]
                out.extend(init)
                out.append(("loop", "while", s_[2], list(s_[3]) + inc, s_[4], [], []))
            else:
                out.append(s_)
        return out

    def prop_consts(stmts):
        """substitute single-assignment initialised locals into the final return"""
        if not stmts or stmts[-1][0] != "return":
            return stmts
        env = {}
        for s_ in stmts[:-1]:
            if s_[0] == "decl" and s_[3] is not None:
                env[s_[1]] = s_[3]
            else:
                return stmts
        def sub(x):
            if isinstance(x, tuple):
                if len(x) >= 2 and x[0] == "var" and x[1] in env:
                    return sub(env[x[1]])
                return tuple(sub(y) for y in x)
            return x
        return [("return", sub(stmts[-1][1])) + tuple(stmts[-1][2:])]
    p = need(t, "popcnt")
    body = _strip_lines(for_to_while(p["body"]))
    okb = body == [("return", ("cast", ("call", "__builtin_popcountll", (("var", "x", "param"),)), "unsigned int", "int"))] or body == _strip_lines(KERNIGHAN)
    ctx.ob(okb, "c-popcnt", where(t, p["line"]), "popcnt is %s" % ("the builtin or Kernighan's loop" if okb else "neither enumerated form: %s" % (body,)))
    r = need(t, "round_down_to_power_of_2")
    body = _strip_lines(prop_consts(r["body"]))
    okr = len(body) == 1 and body[0][0] == "return" and r_cbudget_norm(body[0][1]) == ("bin", "<<", ("int", 1), ("call", "highest_one", (("bin", "|", ("var", "x"), ("int", 1)),)))
    ctx.ob(okr, "c-round_down_to_power_of_2", where(t, r["line"]), "1ULL << highest_one(x | 1): %s" % okr)


def parse_gcc_asm(text):
    """(instruction lines, output constraints, input constraints, clobbers) of one GCC extended-asm statement's source text"""
    i = text.index("(")
    body = text[i + 1:text.rindex(")")]
    secs, cur, depth, k = [[]], [], 0, 0
    toks = []
    while k < len(body):
        ch = body[k]
        if ch == '"':
            j = k + 1
            while body[j] != '"' or body[j - 1] == "\\":
                j += 1
            toks.append(("str", body[k + 1:j]))
            k = j + 1
            continue
        if ch == "(":
            depth += 1
        elif ch == ")":
            depth -= 1
        elif ch == ":" and depth == 0:
            toks.append(("sec", None))
        k += 1
    sections = [[]]
    for kind, v in toks:
        if kind == "sec":
            sections.append([])
        else:
            sections[-1].append(v)
    while len(sections) < 4:
        sections.append([])
    tmpl = "".join(sections[0]).replace("\\n", "\n").replace("\\t", " ")
    lines = [" ".join(l.split()) for l in tmpl.split("\n") if l.strip()]
    return lines, sections[1], sections[2], sections[3]


CPUID_BITS = {  # Intel SDM vol. 2A, CPUID; vol. 1 ch. 13-15 (XCR0 state components)
    "SSE2": {("bit", 1, None, "edx", 26)},
    "SSSE3": {("bit", 1, None, "ecx", 9)},
    "SSE41": {("bit", 1, None, "ecx", 19)},
    "AVX": {("bit", 1, None, "ecx", 27), ("xcr0", 6), ("bit", 1, None, "ecx", 28)},
    "AVX2": {("bit", 1, None, "ecx", 27), ("xcr0", 6), ("maxleaf", 7), ("bit", 7, 0, "ebx", 5)},
    "AVX512F": {("bit", 1, None, "ecx", 27), ("xcr0", 6), ("xcr0", 224), ("maxleaf", 7), ("bit", 7, 0, "ebx", 16)},
    "AVX512VL": {("bit", 1, None, "ecx", 27), ("xcr0", 6), ("xcr0", 224), ("maxleaf", 7), ("bit", 7, 0, "ebx", 31)},
}


def rule_D3C(ctx):
    """the CPU probes of c/blake3_dispatch.c in the flavour at hand: cpuid/cpuidex hand (id[, sid]) to the instruction in eax[/ecx]
    and store eax, ebx, ecx, edx to out[0..3] in that order (GNU x86-64 asm, the ebx-preserving i386 asm, or MSVC's
    __cpuid/__cpuidex); xgetbv reads XCR0 (ecx = 0 / _xgetbv(0)) and returns edx:eax"""
    d = tu("c/blake3_dispatch.c")
    if "get_cpu_features" not in d.funcs:
        ctx.ob("cpuid" not in d.funcs and "xgetbv" not in d.funcs, "c-no-cpu-probes-in-this-flavour", d.path, "no x86 dispatch in this flavour")
        return
    OUT = lambda i: ("index", ("var", "out", "param"), ("int", i))
    for fn, ins in (("cpuid", [("var", "id", "param")]), ("cpuidex", [("var", "id", "param"), ("var", "sid", "param")])):
        f = need(d, fn)
        body = f["body"]
        ok, why = False, "unrecognised body"
        if len(body) == 1 and body[0][0] == "asm" and body[0][1]:
            lines, outs, inps, clob = parse_gcc_asm(body[0][1])
            ops = body[0][2]
            want_in = ["a", "c"][:len(ins)]
            if lines == ["cpuid"]:
                ok = outs == ["=a", "=b", "=c", "=d"] and inps == want_in and ops == tuple(OUT(i) for i in range(4)) + tuple(ins)
                why = "cpuid with %s -> %s, inputs %s" % (outs, [cshow(o) for o in ops[:4]], inps)
            elif lines == ["movl %%ebx, %1", "cpuid", "xchgl %1, %%ebx"]:
                ok = outs == ["=a", "=r", "=c", "=d"] and inps == want_in and ops == tuple(OUT(i) for i in range(4)) + tuple(ins)
                why = "ebx-preserving cpuid (%%1 = out[1]) with %s, inputs %s" % (outs, inps)
            else:
                why = "asm template %s" % lines
        elif len(body) == 1 and body[0][0] == "expr" and body[0][1][0] == "call":
            c = body[0][1]
            want = ("__cpuid" if fn == "cpuid" else "__cpuidex", (("cast", ("var", "out", "param"), "int *"),) + tuple(ins))
            ok = (c[1], tuple(nc(a) for a in c[2])) == want
            why = cshow(c)
        ctx.ob(ok, "c-probe:%s" % fn, where(d, f["line"]), why)
    f = need(d, "xgetbv")
    body = _strip_lines(f["body"])
    ok, why = False, "unrecognised body"
    if len(body) == 1 and body[0][0] == "return":
        ok = body[0][1] == ("call", "_xgetbv", (("int", 0),))
        why = cshow(body[0][1])
    else:
        asms = [s for s in f["body"] if s[0] == "asm"]
        rets = [s for s in body if s[0] == "return"]
        if len(asms) == 1 and asms[0][1] and len(rets) == 1:
            lines, outs, inps, clob = parse_gcc_asm(asms[0][1])
            ops = asms[0][2]
            ok = lines == ["xgetbv"] and outs == ["=a", "=d"] and inps == ["c"] and len(ops) == 3 and ops[2] == ("int", 0) and ops[0][0] == "var" and ops[1][0] == "var" \
                and nc(rets[0][1]) == ("bin", "|", ("bin", "<<", ("cast", ops[1], "uint64_t"), ("int", 32)), ops[0])
            why = "xgetbv with ecx=%s -> %s ; returns %s" % (cshow(ops[2]) if len(ops) == 3 else "?", outs, cshow(rets[0][1]))
    ctx.ob(ok, "c-probe:xgetbv", where(d, f["line"]), why)


def cfold(e):
    """integer value of a constant expression (literals, enums, casts, + - * / << >> | &), else None"""
    e = r_cbudget_norm(e)
    if e[0] == "int":
        return e[1]
    if e[0] == "bin":
        a, b = cfold(e[2]), cfold(e[3])
        if a is None or b is None:
            return None
        return {"<<": a << b if 0 <= b < 64 else None, ">>": a >> b if 0 <= b < 64 else None, "|": a | b, "&": a & b, "+": a + b, "-": a - b, "*": a * b}.get(e[1])
    return None


def rule_D4C(ctx):
    """the CPUID decode of get_cpu_features: every `features |= X` is guarded by (at least) the architectural conditions for X --
    the right register bit of the right leaf (the leaf is the one last queried on the path), OSXSAVE plus the XCR0 state bits for
    the AVX family, max leaf >= 7 before leaf 7 is read.  Extra guards are fine; a missing or misplaced one lets a kernel be
    selected on a CPU/OS that cannot run it.  SSE2 may be unconditional only where the target is x86-64."""
    d = tu("c/blake3_dispatch.c")
    if "get_cpu_features" not in d.funcs:
        ctx.ob(True, "c-no-cpu-probes-in-this-flavour", d.path, "no x86 dispatch in this flavour")
        return
    f = dict(d.funcs["get_cpu_features"], body=_norm_atomics(d.funcs["get_cpu_features"]["body"]))
    regs = {}
    found = {}
    problems = []
    is64 = not FLAVOUR.endswith("i686")

    def cond_atoms(c, st):
        """conjuncts of a guard as architectural atoms (None for anything else)"""
        c = nc(c)
        if c[0] == "bin" and c[1] == "&&":
            return cond_atoms(c[2], st) + cond_atoms(c[3], st)
        if c[0] == "bin" and c[1] == "&" and c[2][:2] == ("un", "*") and c[2][2][0] == "var" and c[2][2][1] in regs:
            m = cfold(c[3])
            if m and m & (m - 1) == 0:
                if st["leaf"] is None:
                    problems.append("a register bit is tested where the queried leaf is not determined")
                    return [None]
                return [("bit", st["leaf"][0], st["leaf"][1], regs[c[2][2][1]], m.bit_length() - 1)]
        if c[0] == "bin" and c[1] == "==" and c[2][0] == "bin" and c[2][1] == "&" and c[2][2] == ("var", st.get("mask"), "var"):
            a, b = cfold(c[2][3]), cfold(c[3])
            if a is not None and a == b:
                return [("xcr0", a)] + (list(st.get("mask_implies", [])) if a else [])
        if c[0] == "bin" and c[1] == ">=" and c[2] == ("var", st.get("maxid"), "var"):
            b = cfold(c[3])
            if b is not None:
                return [("maxleaf", b)]
        return [None]

    def walk(stmts, guards, st):
        for s in stmts:
            if s[0] == "decl" and s[3] is not None:
                e = nc(s[3])
                if e[:2] == ("un", "&") and e[2][0] == "index" and e[2][1] == ("var", "regs", "var") and e[2][2][0] == "int":
                    regs[s[1]] = ["eax", "ebx", "ecx", "edx"][e[2][2][1]] if e[2][2][1] < 4 else "?"
                elif e == ("call", "xgetbv", ()):
                    st["mask"] = s[1]
                elif e[0] == "cond" and e[2] == ("call", "xgetbv", ()) and r_cbudget_norm(e[3]) == ("int", 0):
                    # mask = <cond> ? xgetbv() : 0 -- a non-zero state-bit test on mask implies <cond>
                    st["mask"] = s[1]
                    st["mask_implies"] = [a_ for a_ in cond_atoms(e[1], st) if a_ is not None]
                elif e[:2] == ("un", "*") and e[2][0] == "var" and regs.get(e[2][1]) == "eax" and st["leaf"] == (0, None):
                    st["maxid"] = s[1]
            if s[0] == "expr" and s[1][0] == "call" and s[1][1] in ("cpuid", "cpuidex"):
                a = [cfold(x) for x in s[1][2][1:]]
                if s[1][2][0] == ("var", "regs", "var") and all(x is not None for x in a):
                    st["leaf"] = (a[0], a[1] if len(a) > 1 else None)
                else:
                    st["leaf"] = None
            if s[0] == "assign" and s[2] == ("var", "features", "var") and s[1] == "|=" and s[3][0] == "enum":
                found.setdefault(s[3][1], []).append((set(g for g in guards if g is not None), s[-1]))
            if s[0] == "if":
                subs = [x for x in s if isinstance(x, list)]
                at = cond_atoms(s[1], st)
                st2 = dict(st)
                walk(subs[0], guards + at, st2)
                if len(subs) > 1 and subs[1]:
                    st3 = dict(st)
                    walk(subs[1], guards, st3)
                    if st3["leaf"] != st["leaf"]:
                        st["leaf"] = None
                if st2["leaf"] != st["leaf"]:
                    st["leaf"] = None        # a leaf queried inside the branch: unknown after the join
                for k in ("mask", "maxid"):
                    st.setdefault(k, st2.get(k))
            if s[0] == "loop":
                problems.append("loop in get_cpu_features")
    walk(f["body"], [], {"leaf": None})
    n = 0
    for feat, req in sorted(CPUID_BITS.items()):
        sites = found.get(feat, [])
        if not sites:
            ctx.ob(False, "c-cpuid-decode:%s" % feat, where(d, f["line"]), "no `features |= %s` found" % feat)
            continue
        for gs, line in sites:
            n += 1
            need_ = set(req)
            if feat == "SSE2" and is64 and not gs:
                need_ = set()      # architecturally guaranteed on x86-64
            have_x = 0
            for g_ in gs:
                if g_[0] == "xcr0":
                    have_x |= g_[1]
            miss = set(r_ for r_ in need_ - gs if not (r_[0] == "xcr0" and r_[1] & ~have_x == 0) and not (r_[0] == "maxleaf" and any(g_[0] == "maxleaf" and g_[1] >= r_[1] for g_ in gs)))
            ctx.ob(not miss, "c-cpuid-decode:%s" % feat, where(d, line), "features |= %s under %s%s" % (feat, sorted(gs, key=str), " ; missing %s" % sorted(miss, key=str) if miss else ""))
    ctx.ob(not problems, "c-cpuid-decode-shape", where(d, f["line"]), "; ".join(sorted(set(problems))) or "every tested register bit belongs to a determined leaf")
    ctx.floor("feature-bit decode sites", n, 7)


def pm(pat, e, b):
    """match expression/statement shape `pat` against `e`; ("pv", k) in the pattern binds consistently to one local/parameter name"""
    if isinstance(pat, tuple) and len(pat) == 2 and pat[0] == "pv":
        if not (isinstance(e, tuple) and len(e) >= 2 and e[0] == "var"):
            return False
        if pat[1] in b:
            return b[pat[1]] == e[1]
        if e[1] in b.values():
            return False
        b[pat[1]] = e[1]
        return True
    if isinstance(pat, (tuple, list)):
        if not isinstance(e, (tuple, list)) or len(pat) != len(e):
            return False
        return all(pm(x, y, b) for x, y in zip(pat, e))
    return pat == e


def rule_MOC(ctx):
    """C twin of MO (merge order of the CV stack) plus the update loop's subtree alignment:
    merge: while cv_stack_len > popcnt(total_len): parent = &cv_stack[(len-2)*32]; parent_output(parent, key, chunk.flags) is
    written back as a chaining value to the same slot; len -= 1.  push: merge(chunk_counter) first, then the CV goes to slot len
    and len += 1.  update: the aligned subtree length is halved while (subtree_len - 1) & (chunk_counter * CHUNK_LEN) != 0; the left
    CV is pushed with the counter, then the right one with counter + subtree_chunks / 2, then the counter advances by
    subtree_chunks = subtree_len / CHUNK_LEN; the own chunk is pushed with its counter and reset to counter + 1.  finalize folds
    the stack from the top: parent_output(stack[i] || running CV) for i = len-1 .. 0 (or starts from stack[len-2] || stack[len-1]).
    Shapes are matched modulo casts, constant folding, single-assignment locals and the NAMES of locals and parameters."""
    t = tu("c/blake3.c")
    N = r_cbudget_norm
    V = lambda k: ("pv", k)

    def shapes(SELF):
        LEN = ("member", SELF, "cv_stack_len")
        STACK = ("member", SELF, "cv_stack")
        return dict(LEN=LEN, STACK=STACK, KEY=("member", SELF, "key"), FLAGS=("member", ("member", SELF, "chunk"), "flags"),
                    CTR=("member", ("member", SELF, "chunk"), "chunk_counter"), CHUNK=("un", "&", ("member", SELF, "chunk")),
                    slot=lambda ix: ("un", "&", ("index", STACK, ("bin", "*", ix, ("int", 32)))))

    def subst(e, env):
        if isinstance(e, tuple):
            if e[0] == "var" and e[1] in env:
                return env[e[1]]
            return tuple(subst(x, env) for x in e)
        return e

    def seq_of(stmts, env=None):
        out = []
        for s in stmts:
            if s[0] == "expr" and s[1][0] == "call":
                out.append(subst(N(s[1]), env or {}))
            elif s[0] == "assign":
                out.append(("assign", s[1], subst(N(s[2]), env or {}), subst(N(s[3]), env or {})))
        return out
    # ---- merge
    m = need(t, "hasher_merge_cv_stack")
    S = shapes(V("self"))
    env = {}
    loops = []
    for s in m["body"]:
        if s[0] == "decl" and s[3] is not None:
            env[s[1]] = N(s[3])
        if s[0] == "loop":
            loops.append(s)
    ok = len(loops) == 1
    why = "%d loop(s)" % len(loops)
    if ok:
        lp = loops[0]
        b = {}
        okc = pm(("bin", ">", S["LEN"], ("call", "popcnt", (V("total_len"),))), subst(N(lp[2]), env), b)
        benv = dict(env)
        items = []
        for s in lp[3]:
            if s[0] == "decl" and s[3] is not None:
                v = subst(N(s[3]), benv)
                if v[0] == "call" and v[1] == "parent_output":
                    items.append(("decl", ("var", s[1]), v))
                else:
                    benv[s[1]] = v
            elif s[0] == "expr" and s[1][0] == "call":
                items.append(subst(N(s[1]), benv))
            elif s[0] == "assign":
                items.append(("assign", s[1], subst(N(s[2]), benv), subst(N(s[3]), benv)))
        top2 = S["slot"](("bin", "-", S["LEN"], ("int", 2)))
        want = [("decl", V("output"), ("call", "parent_output", (top2, S["KEY"], S["FLAGS"]))),
                ("call", "output_chaining_value", (("un", "&", V("output")), top2)), ("assign", "-=", S["LEN"], ("int", 1))]
        okb = pm(want, items, b)
        ok = okc and okb
        why = "while (%s): %s" % (cshow(lp[2]), "parent_output(&cv_stack[(len-2)*32], key, chunk.flags) -> same slot; len -= 1" if okb else "body does not merge the top two entries in place")
    ctx.ob(ok, "c-merge-top-two-in-place", where(t, m["line"]), why)
    # ---- push
    p = need(t, "hasher_push_cv")
    want = [("call", "hasher_merge_cv_stack", (V("self"), V("chunk_counter"))), ("call", "memcpy", (S["slot"](S["LEN"]), V("new_cv"), ("int", 32))), ("assign", "+=", S["LEN"], ("int", 1))]
    okp = pm(want, seq_of(p["body"]), {})
    ctx.ob(okp, "c-push-merges-then-appends", where(t, p["line"]), "hasher_push_cv = merge(chunk_counter); memcpy(&cv_stack[len*32], new_cv, 32); len += 1: %s" % okp)
    # ---- update loop
    u = need(t, "blake3_hasher_update_base")
    mains = [s for s in u["body"] if s[0] == "loop"]
    oku = len(mains) == 1
    detail = []
    if oku:
        body = mains[0][3]
        b = {}
        decls = [(("var", s[1]), N(s[3])) for s in body if s[0] == "decl" and s[3] is not None]
        inner = [s for s in body if s[0] == "loop"]
        branch = [s for s in body if s[0] == "if"]
        tail = [("assign", s[1], N(s[2]), N(s[3])) for s in body if s[0] == "assign"]
        CTR = S["CTR"]
        a1 = pm([(V("subtree_len"), ("call", "round_down_to_power_of_2", (V("input_len"),))), (V("count_so_far"), ("bin", "*", CTR, ("int", 1024))),
                 (V("subtree_chunks"), ("bin", "/", V("subtree_len"), ("int", 1024)))], decls, b)
        a3 = len(inner) == 1 and pm(("bin", "!=", ("bin", "&", ("bin", "-", V("subtree_len"), ("int", 1)), V("count_so_far")), ("int", 0)), N(inner[0][2]), b) \
            and pm([("assign", "/=", V("subtree_len"), ("int", 2))], seq_of(inner[0][3]), b)
        a5 = any(pm(("assign", "+=", CTR, V("subtree_chunks")), x, b) for x in tail)
        detail.append("subtree_len = round_down(input_len), count_so_far = counter*CHUNK_LEN, subtree_chunks = subtree_len/CHUNK_LEN: %s; halving loop: %s; counter += subtree_chunks: %s" % (a1, a3, a5))
        a6 = a7 = False
        if len(branch) == 1:
            for sub in [x for x in branch[0] if isinstance(x, list)]:
                pushes = [N(c) for c, g, l in calls_in(sub) if c[1] == "hasher_push_cv"]
                if len(pushes) == 2:
                    a6 = pm([("call", "hasher_push_cv", (V("self"), V("cv_pair"), CTR)),
                             ("call", "hasher_push_cv", (V("self"), ("un", "&", ("index", V("cv_pair"), ("int", 32))), ("bin", "+", CTR, ("bin", "/", V("subtree_chunks"), ("int", 2)))))], pushes, b)
                elif len(pushes) == 1:
                    b2 = dict(b)
                    asg = [x for x in seq_of(sub) if x[0] == "assign"]
                    a7 = pm(("call", "hasher_push_cv", (V("self"), V("cv"), ("member", V("chunk_state"), "chunk_counter"))), pushes[0], b2) \
                        and any(pm(("assign", "=", ("member", V("chunk_state"), "chunk_counter"), CTR), x, b2) for x in asg)
        detail.append("pair pushed left (counter) then right (counter + subtree_chunks/2): %s; single chunk pushed with the hasher's counter: %s" % (a6, a7))
        oku = all((a1, a3, a5, a6, a7))
    ctx.ob(oku, "c-update-aligned-subtrees-and-push-order", where(t, u["line"]), "; ".join(detail) or "expected exactly one main loop")
    # own chunk: push(chunk_cv, counter) then reset(counter + 1)
    cs = [N(c) for c, g, l in calls_in(u["body"]) if c[1] in ("hasher_push_cv", "chunk_state_reset", "output_chaining_value")]
    oko = False
    for i in range(len(cs) - 2):
        if pm([("call", "output_chaining_value", (("un", "&", V("output")), V("chunk_cv"))), ("call", "hasher_push_cv", (V("self"), V("chunk_cv"), S["CTR"])),
               ("call", "chunk_state_reset", (S["CHUNK"], S["KEY"], ("bin", "+", S["CTR"], ("int", 1))))], cs[i:i + 3], {}):
            oko = True
    ctx.ob(oko, "c-own-chunk-pushed-then-reset-to-next-counter", where(t, u["line"]), "hasher_push_cv(self, chunk_cv, counter); chunk_state_reset(&self->chunk, key, counter + 1): %s" % oko)
    # ---- finalize fold
    f = need(t, "blake3_hasher_finalize_seek")
    lp = [s for s in f["body"] if s[0] == "loop"]
    br = [s for s in f["body"] if s[0] == "if" and len([x for x in s if isinstance(x, list)]) == 2 and [x for x in s if isinstance(x, list)][1]]
    okf = len(lp) == 1 and len(br) >= 1
    if okf:
        b = {}
        bq = br[-1]
        subs = [x for x in bq if isinstance(x, list)]
        f1 = pm(("bin", "!=", ("call", "chunk_state_len", (S["CHUNK"],)), ("int", 0)), N(bq[1]), b)
        f2 = pm([("assign", "=", V("cvs_remaining"), S["LEN"]), ("assign", "=", V("output"), ("call", "chunk_state_output", (S["CHUNK"],)))], seq_of(subs[0]), b)
        f3 = pm([("assign", "=", V("cvs_remaining"), ("bin", "-", S["LEN"], ("int", 2))),
                 ("assign", "=", V("output"), ("call", "parent_output", (S["slot"](V("cvs_remaining")), S["KEY"], S["FLAGS"])))], seq_of(subs[1]), b)
        L = lp[0]
        PB = V("parent_block")
        want = [("assign", "-=", V("cvs_remaining"), ("int", 1)), ("call", "memcpy", (PB, S["slot"](V("cvs_remaining")), ("int", 32))),
                ("call", "output_chaining_value", (("un", "&", V("output")), ("un", "&", ("index", PB, ("int", 32))))), ("assign", "=", V("output"), ("call", "parent_output", (PB, S["KEY"], S["FLAGS"])))]
        f4 = pm(("bin", "!=", V("cvs_remaining"), ("int", 0)), N(L[2]), b) and pm(want, seq_of(L[3]), b)
        okf = f1 and f2 and f3 and f4
        detail = "start from the chunk output with all of the stack %s / from stack[len-2]||stack[len-1] %s (chosen by chunk_state_len > 0 %s); fold stack[i] || cv downwards %s" % (f2, f3, f1, f4)
    else:
        detail = "expected one fold loop and the two-way start"
    ctx.ob(okf, "c-finalize-folds-stack-from-the-top", where(t, f["line"]), detail)


def rule_X0C(ctx):
    """C twin of X0: blake3_xof_many of the dispatcher returns early for outblocks == 0 before it can reach an assembled
    kernel that is not zero-safe (precondition derived from the object code by X0asm)"""
    import r_asmsym
    pre = r_asmsym.rule_X0asm(ctx)
    unsafe_k = {k: v for k, v in pre.items() if not v[0]}
    d = tu("c/blake3_dispatch.c")
    f = need(d, "blake3_xof_many")
    kernels = [c for c, g, l in calls_in(f["body"]) if isinstance(c[1], str) and c[1].startswith("blake3_xof_many_") and c[1] != "blake3_xof_many_portable"]
    if not kernels:
        ctx.ob(True, "c-xof-zero-blocks", where(d, f["line"]), "no xof_many kernel is called in this flavour")
        return
    needs = [k for k in unsafe_k if any(k.startswith(c[1] + ":") for c in kernels)]
    if not needs:
        ctx.ob(True, "c-xof-zero-blocks", where(d, f["line"]), "the assembled kernels return without storing for a zero count")
        return
    # an early `if (outblocks == 0) return;` at the top level, before the first statement containing a kernel call
    guard = False
    for s in f["body"]:
        if any(True for c, g, l in calls_in([s]) if c in kernels):
            break
        if s[0] == "if":
            c = r_cbudget_norm(s[1])
            subs = [x for x in s if isinstance(x, list)]
            if c in (("bin", "==", ("var", "outblocks"), ("int", 0)), ("un", "!", ("var", "outblocks"))) and subs and subs[0] and subs[0][0][0] == "return":
                guard = True
    ctx.ob(guard, "c-xof-zero-blocks", where(d, f["line"]), "%s ; blake3_xof_many returns early for outblocks == 0: %s" % (unsafe_k[needs[0]][1], guard))


def rule_TMC(ctx):
    """tail merge (C): the CV stack is merged down to popcnt(chunk_counter) at the moment the hasher's own chunk state receives
    its first bytes -- finalize folds the stack assuming exactly that.  Every chunk_state_update(&self->chunk, ..) in
    blake3_hasher_update_base therefore sits under `chunk_state_len(&self->chunk) > 0` (the state was non-empty already, the
    merge happened when it became so) or is followed, in the same statement list and before any return, by
    hasher_merge_cv_stack(self, self->chunk.chunk_counter).  (Merging more often is harmless: the merge is idempotent.)"""
    t = tu("c/blake3.c")
    N = r_cbudget_norm
    u = need(t, "blake3_hasher_update_base")
    SELF = ("var", u["params"][0][0])
    CHUNK = ("un", "&", ("member", SELF, "chunk"))
    CTR = ("member", ("member", SELF, "chunk"), "chunk_counter")
    nonempty = ("bin", "!=", ("call", "chunk_state_len", (CHUNK,)), ("int", 0))
    sites = []

    def walk(stmts, guards):
        for i, s in enumerate(stmts):
            if s[0] == "if":
                subs = [x for x in s if isinstance(x, list)]
                walk(subs[0], guards + [(N(s[1]), True)])
                if len(subs) > 1:
                    walk(subs[1], guards + [(N(s[1]), False)])
            elif s[0] == "loop":
                subs = [x for x in s if isinstance(x, list)]
                walk(subs[0] if subs else [], guards)
            elif s[0] == "expr" and s[1][0] == "call" and s[1][1] == "chunk_state_update" and N(s[1][2][0]) == CHUNK:
                merged = False
                for later in stmts[i + 1:]:
                    if later[0] == "return":
                        break
                    if later[0] == "expr" and N(later[1]) == ("call", "hasher_merge_cv_stack", (SELF, CTR)):
                        merged = True
                        break
                sites.append((s[-1], (nonempty, True) in guards, merged))
    walk(u["body"], [])
    for line, guarded, merged in sites:
        ctx.ob(guarded or merged, "c-own-chunk-bytes-imply-merged-stack#%d" % (sites.index((line, guarded, merged)) + 1), where(t, line),
               "chunk_state_update(&self->chunk, ..) %s" % ("under chunk_state_len(&self->chunk) > 0" if guarded else "followed by hasher_merge_cv_stack(self, chunk_counter)" if merged
                                                            else "may give an EMPTY chunk state its first bytes without merging the CV stack: finalize would fold an unmerged stack"))
    ctx.floor("own-chunk update sites in blake3_hasher_update_base", len(sites), 2)
