"""K rules on the Rust crates: spec constants/tables (K1), SIMD degrees (K3), scratch sizing (M1)."""
import os
import re
import struct
import sys
from mirlib import *
sys.path.insert(0, os.path.join(os.path.dirname(os.path.dirname(os.path.abspath(__file__))), "specmodel"))
import blake3_spec as spec


def rule_K1_tables(ctx, F):
    iv = F.const_bytes("IV")
    words = list(struct.unpack("<8I", iv)) if len(iv) == 32 else []
    ctx.ob(words == spec.IV, "IV", F.consts["IV"]["s"], "IV = %s ; spec frac(sqrt(2,3,5,7,11,13,17,19)) = %s" % (["%08x" % w for w in words], ["%08x" % w for w in spec.IV]))
    ms = F.const_bytes("MSG_SCHEDULE")
    want = spec.msg_schedule()
    n = len(ms) // (16 * 7) if ms else 0
    got = []
    if n in (4, 8):
        flat = [int.from_bytes(ms[i:i + n], "little") for i in range(0, len(ms), n)]
        got = [flat[r * 16:(r + 1) * 16] for r in range(7)]
    for r in range(7):
        ctx.ob(bool(got) and got[r] == want[r], "MSG_SCHEDULE[%d]" % r, F.consts["MSG_SCHEDULE"]["s"],
               "round %d schedule %s ; spec sigma^%d = %s" % (r, got[r] if got else "?", r, want[r]))


def rule_K3_M1(ctx, F):
    MAXD = F.const_val("platform::MAX_SIMD_DEGREE")
    MAX2 = F.const_val("platform::MAX_SIMD_DEGREE_OR_2")
    OUT = F.const_val("OUT_LEN")
    ctx.ob(MAX2 == max(MAXD, 2), "MAX_SIMD_DEGREE_OR_2", F.consts["platform::MAX_SIMD_DEGREE_OR_2"]["s"], "MAX_SIMD_DEGREE=%s MAX_SIMD_DEGREE_OR_2=%s ; required max(MAX,2)" % (MAXD, MAX2))
    sd = F.need_fn("platform::Platform::simd_degree")
    adt = F.adts["platform::Platform"]
    variants = [v["name"] for v in adt["variants"]]
    EXPECT = {"Portable": 1, "SSE2": 4, "SSE41": 4, "AVX2": 8, "AVX512": 16, "NEON": 4, "WASM32_SIMD": 4}
    # degree local alternatives
    dl = [l for l in range(len(sd.locals)) if sd.names.get(l) == "degree"]
    arms = {}
    if dl:
        for b, gs, e in local_defs_with_guards(sd, dl[0]):
            for c, tr in gs:
                if isinstance(c, tuple) and c[0] == "switchval":
                    arms[variants[tr]] = e
                elif isinstance(c, tuple) and c[0] == "switchin":      # `SSE2 | SSE41 => 4`
                    for tv in tr:
                        arms[variants[tv]] = e
    if len(variants) == 1 and dl:
        arms[variants[0]] = val(sd.expr_local(dl[0]))
    for v in variants:
        e = arms.get(v)
        d = e[2] if e and e[0] == "const" else None
        ctx.ob(d == EXPECT.get(v) and d is not None and d <= MAXD, "simd_degree:%s" % v, sd.loc,
               "Platform::%s => degree %s ; spec table %s, MAX_SIMD_DEGREE %s" % (v, d, EXPECT.get(v), MAXD))
    # module DEGREE constants agree with the dispatch table
    for mod, want in (("sse2", 4), ("sse41", 4), ("avx2", 8), ("avx512", 16)):
        c = F.consts.get("%s::DEGREE" % mod)
        if c is not None:
            ctx.ob(c.get("val") == want and want <= MAXD, "module-degree:%s" % mod, c["s"], "%s::DEGREE = %s ; routed as degree %d, MAX %s" % (mod, c.get("val"), want, MAXD))

    def local_ty(fnname, lname):
        fn = F.need_fn(fnname)
        for l, nm in fn.names.items():
            if nm == lname:
                return fn.locals[l]["ty"], fn.loc
        raise MissingAnchor("local %s in %s" % (lname, fnname))

    def arr_len(ty):
        m = re.match(r"\[u8; (\d+)\]$", ty)
        return int(m.group(1)) if m else None
    checks = [
        ("compress_subtree_wide", "cv_array", 2 * MAX2 * OUT, "2*MAX_SIMD_DEGREE_OR_2*OUT_LEN"),
        ("compress_subtree_to_parent_node", "cv_array", MAX2 * OUT, "MAX_SIMD_DEGREE_OR_2*OUT_LEN"),
        ("compress_subtree_to_parent_node", "out_array", MAX2 * OUT // 2, "MAX_SIMD_DEGREE_OR_2*OUT_LEN/2"),
    ]
    for fnname, lname, want, text in checks:
        ty, where = local_ty(fnname, lname)
        ctx.ob(arr_len(ty) == want, "scratch:%s.%s" % (fnname, lname), where, "%s: %s ; required [u8; %s] = %d" % (lname, ty, text, want))
    ty, where = local_ty("compress_chunks_parallel", "chunks_array")
    ctx.ob(ty.replace(" ", "").endswith(",%d>" % MAXD) and "1024]" in ty, "scratch:chunks_array", where, "chunks_array: %s ; capacity MAX_SIMD_DEGREE=%d of &[u8; CHUNK_LEN]" % (ty, MAXD))
    ty, where = local_ty("compress_parents_parallel", "parents_array")
    ctx.ob(ty.replace(" ", "").endswith(",%d>" % MAX2) and "64]" in ty, "scratch:parents_array", where, "parents_array: %s ; capacity MAX_SIMD_DEGREE_OR_2=%d of &[u8; BLOCK_LEN]" % (ty, MAX2))
    hf = [f for f in F.adt_fields("Hasher") if f["name"] == "cv_stack"]
    md = F.const_val("MAX_DEPTH")
    rs = F.need_fn("Hasher::reset")
    tys = sorted(set(l["ty"] for l in rs.locals if "ArrayVec<[u8; 32]" in l["ty"]))
    ctx.ob(bool(hf) and bool(tys) and all(t.replace(" ", "").endswith("ArrayVec<[u8;32],%d>" % (md + 1)) for t in tys), "scratch:cv_stack", F.adts["Hasher"]["s"],
           "cv_stack: %s (evaluated: %s) ; required ArrayVec<[u8; 32], MAX_DEPTH+1=%d>" % (hf[0]["ty"] if hf else "?", tys, md + 1))
    # the degree used to split cv_array is max(simd_degree, 2) or 1
    csw = F.need_fn("compress_subtree_wide")
    dl = [l for l in range(len(csw.locals)) if csw.names.get(l) == "degree"]
    alts = [val(a) for a in csw.phi_alts(dl[0])] if dl else []
    want = ("call", W(pred=lambda s: isinstance(s, str) and norm_path(s).endswith("cmp::max")), (P.call("platform::Platform::simd_degree", W()), P.const(2)))
    ok = len(alts) == 2 and any(a == ("const", None, 1) for a in alts) and any(unify(want, a) is not None for a in alts)
    ctx.ob(ok, "split-degree", csw.loc, "degree in {%s} ; required {1, max(simd_degree(), 2)}" % ", ".join(show(a) for a in alts))
