"""T rules: Hash hex / equality / conversions (T1, T2, T3) and trait / guts forwarding."""
from mirlib import *
from absint import Evaluator, AV, enumerate_paths, last_def_on_path


def name_has(s):
    return W(pred=lambda x: isinstance(x, str) and s in norm_path(x))


def name_ends(s):
    return W(pred=lambda x: isinstance(x, str) and norm_path(x).endswith(s))


HEXVAL = "Hash::from_hex::hex_val"


def digit_value(c):
    ch = chr(c)
    if ch in "0123456789":
        return c - 48
    if ch in "abcdef":
        return c - 97 + 10
    if ch in "ABCDEF":
        return c - 65 + 10
    return None


def rule_T1_hexval(ctx, F):
    """from_hex's hex_val: exact partition of u8 (interval path enumeration, no execution)"""
    fn = F.need_fn(HEXVAL)
    ev = Evaluator(F, fn, {"byte": AV(0, 255)})
    paths = enumerate_paths(ev)
    ctx.floor("paths through hex_val", len(paths), 7)
    covered = 0
    for env, path in paths:
        dom = env.get("byte")
        e = val(last_def_on_path(fn, 0, path))
        is_ok = e[0] == "adt" and e[2] == "Ok"
        is_err = e[0] == "adt" and e[2] == "Err"
        covered += dom.hi - dom.lo + 1
        want = [digit_value(c) for c in range(dom.lo, dom.hi + 1)]
        cell = "[%d..%d]" % (dom.lo, dom.hi)
        if all(w is None for w in want):
            ctx.ob(is_err, "hexval-cell:%s" % cell, fn.loc, "bytes %s (not hex digits) => %s ; required Err" % (cell, show(e)))
        elif all(w is not None for w in want):
            ok = is_ok
            got = []
            if is_ok:
                for c in range(dom.lo, dom.hi + 1):
                    ev1 = Evaluator(F, fn, {"byte": AV(c, c)})
                    got.append(ev1.eval(fn_unval(e[4][0]), {"byte": AV(c, c)}).const())
                ok = got == want
            ctx.ob(ok, "hexval-cell:%s" % cell, fn.loc,
                   "bytes %s (%r..%r) => %s ; digit values %s, required %s" % (cell, chr(dom.lo), chr(dom.hi), show(e), got, want))
        else:
            ctx.ob(False, "hexval-cell:%s" % cell, fn.loc, "cell %s mixes hex digits and other bytes => %s" % (cell, show(e)))
    ctx.ob(covered == 256, "hexval-total", fn.loc, "cells cover %d of 256 byte values" % covered)


def fn_unval(e):
    """val() drops operator types; the evaluator accepts 4-tuples (type None) -> exact ints"""
    return e


def rule_T1_tohex(ctx, F):
    fn = F.need_fn("Hash::to_hex")
    pushes = []
    for bi, t in fn.calls():
        e = val(fn.expr_call(t))
        if norm_path(e[1]).endswith("ArrayString::<CAP>::push"):
            pushes.append((bi, e, t.get("s")))
    ctx.ob(len(pushes) == 2, "tohex-two-pushes", fn.loc, "to_hex pushes %d chars per byte" % len(pushes))
    if len(pushes) != 2:
        return
    (b1, e1, s1), (b2, e2, s2) = pushes
    if fn.dominates(b2, b1) and not fn.dominates(b1, b2):
        (b1, e1, s1), (b2, e2, s2) = (b2, e2, s2), (b1, e1, s1)
    ctx.ob(fn.dominates(b1, b2), "tohex-order", s1, "first push dominates second push")
    B = W("byte")
    TABLE = ("const", W(), b"0123456789abcdef")
    hi = P.cast(("path", TABLE, (("idx", P.cast(P.bin("Shr", B, P.const(4)), "usize")),)), "char")
    lo = P.cast(("path", TABLE, (("idx", P.cast(P.bin("BitAnd", B, P.const(15)), "usize")),)), "char")
    m1 = unify(hi, e1[2][1])
    ctx.ob(m1 is not None, "tohex-high-nibble-first", s1, "first char = %s ; required table[(b >> 4)] with table \"0123456789abcdef\"" % show(e1[2][1]))
    m2 = unify(lo, e2[2][1], m1 or {})
    ctx.ob(m2 is not None, "tohex-low-nibble-second", s2, "second char = %s ; required table[(b & 0xf)] of the same byte" % show(e2[2][1]))
    if m2:
        src = val(fn.expand_built(m2["byte"]))
        ok = find_sub(src, P.cast(P.self_("0"), W())) is not None or find_sub(src, P.self_("0")) is not None
        ctx.ob(ok, "tohex-source", s1, "bytes iterated come from self.0: %s" % show(src)[:160])


def rule_T1_fromhex(ctx, F):
    fn = F.need_fn("Hash::from_hex")
    HEXB = W("hexbytes")
    I = W("i")
    branch = lambda x: ("path", ("call", name_has("Try>::branch"), (x,)), (("as", "Continue"), "0"))
    hv = lambda idx: ("call", HEXVAL, (("path", HEXB, (("idx", idx),)),))
    want = P.bin("Add", P.bin("Mul", P.const(16), branch(hv(P.bin("Mul", P.const(2), I)))),
                 branch(hv(P.bin("Add", P.bin("Mul", P.const(2), I), P.const(1)))))
    lenguard = P.bin("Ne", ("call", name_ends("::len"), (HEXB,)), P.bin("Mul", P.named("OUT_LEN"), P.const(2)))
    stores = []
    for bi, si, s in fn.stmts():
        pl = s["place"]
        if s["k"] == "assign" and pl["p"] and isinstance(pl["p"][-1], dict) and "idx" in pl["p"][-1] and pl["ty"] == "u8":
            stores.append((bi, s))
    ctx.ob(len(stores) == 1, "fromhex-one-store", fn.loc, "%d element store(s) into the output array" % len(stores))
    for bi, s in stores:
        v = val(fn.expr_rvalue(s["rv"]))
        m = unify(want, v)
        ctx.ob(m is not None, "fromhex-byte-formula", s.get("s"),
               "out[i] = %s ; required 16*hex_val(hex[2i])? + hex_val(hex[2i+1])?" % show(v)[:300])
        if m is None:
            continue
        tgt = val(fn.expr_place(s["place"]))
        root, el = path_fields(tgt)
        idx = [x for x in el if isinstance(x, tuple) and x[0] == "idx"]
        ctx.ob(bool(idx) and idx[-1][1] == m["i"], "fromhex-store-index", s.get("s"), "stored at index %s, digits read at 2i, 2i+1 of i=%s" % (show(idx[-1][1]) if idx else "?", show(m["i"])[:80]))
        gs = guards_at(fn, bi)
        ok = any((not tr) and unify(lenguard, c, {"hexbytes": m["hexbytes"]}) is not None for c, tr in gs)
        ctx.ob(ok, "fromhex-length-guard", s.get("s"), "every digit access is dominated by the false edge of len != 2*OUT_LEN: %s" % ok)
    # the Ok value is built from the filled array only
    oks = [(b, e) for b, g, e in ret_alternatives(fn) if e[0] == "adt" and e[2] == "Ok"]
    ctx.ob(len(oks) == 1 and find_sub(oks[0][1], ("built", W(), "hash_bytes")) is not None, "fromhex-ok-value", fn.loc,
           "Ok(..) = %s" % (show(oks[0][1])[:160] if oks else "none"))


def rule_T2(ctx, F):
    impls = [p for p in F.fns if norm_path(p).startswith("<Hash as core::cmp::PartialEq") and p.endswith("::eq")]
    ctx.floor("PartialEq impls of Hash", len(impls), 3)
    for p in sorted(impls):
        fn = F.fn(p)
        e = val(fn.expr_local(0))
        S = P.self_("0")
        O1 = ("path", ("arg", 2, "other"), ("0",))
        O2 = ("arg", 2, "other")
        ok = False
        if e[0] == "call" and norm_path(e[1]).startswith("constant_time_eq::constant_time_eq") and len(e[2]) == 2:
            a, b = e[2]
            def strip(x):
                # casts, `.as_slice()` / `.as_bytes()` / `[..]` views of the 32 bytes are the bytes themselves
                while isinstance(x, tuple) and x:
                    if x[0] == "cast":
                        x = x[1]
                    elif x[0] == "call" and len(x[2]) == 1 and (x[1] in ("Hash::as_slice", "Hash::as_bytes") or norm_path(x[1]).endswith("::as_slice")):
                        x = x[2][0] if x[1] not in ("Hash::as_slice", "Hash::as_bytes") else ("path", x[2][0], ("0",))
                    else:
                        break
                return val(x) if isinstance(x, tuple) else x
            a, b = strip(a), strip(b)
            ok = (a == S and b in (O1, O2)) or (b == S and a in (O1, O2))
            if "[u8]>" in p:  # slices need the length-aware comparison
                ok = ok and norm_path(e[1]) == "constant_time_eq::constant_time_eq"
        ctx.ob(ok, "eq-compares-self-with-other:%s" % p, fn.loc, "eq = %s ; required constant_time_eq*(self.0, other[.0])" % show(e))


FORWARD = [
    # (function, required return expression pattern, text)
    ("<Hash as core::str::FromStr>::from_str", P.call("Hash::from_hex", P.arg("s")), "Hash::from_hex(s)"),
    ("<Hash as core::convert::From<[u8; OUT_LEN]>>::from", P.call("Hash::from_bytes", P.arg("bytes")), "Hash::from_bytes(bytes)"),
    ("<impl core::convert::From<Hash> for [u8; OUT_LEN]>::from", ("path", P.arg("hash"), ("0",)), "hash.0"),
    ("Hash::from_bytes", ("adt", "Hash", "Hash", ("0",), (P.arg("bytes"),)), "Hash(bytes)"),
    ("Hash::as_bytes", P.self_("0"), "&self.0"),
    ("Hash::as_slice", ("call", name_ends("::as_slice"), (P.self_("0"),)), "self.0.as_slice()"),
    ("<Hash as core::fmt::Display>::fmt", ("call", name_ends("Formatter::<'a>::write_str"), (P.arg("f"), ("call", name_ends("::as_str"), (P.call("Hash::to_hex", ("arg", 1, "self")),)))), "f.write_str(self.to_hex().as_str())"),
]


def find_fn_norm(F, npath):
    for p, f in F.fns.items():
        if f.has_body and norm_path(p) == norm_path(npath):
            return f
    raise MissingAnchor("function %s" % npath)


def _display_alternative(e):
    """second accepted form of Display for Hash: `write!(f, "{}", hex)` -- write_fmt with the template of exactly one default
    placeholder and the hex string as its only (Display) argument.  A fresh Arguments carries its own default spec, so the outer
    formatter's width / precision are ignored, exactly as with write_str.  (f.pad(hex) and hex.fmt(f) are NOT equivalent: they
    apply the caller's precision as truncation.)"""
    if not (isinstance(e, tuple) and e[0] == "call" and norm_path(e[1]).endswith("Formatter::<'a>::write_fmt") and len(e[2]) == 2 and unify(P.arg("f"), e[2][0]) is not None):
        return False
    a = e[2][1]
    if not (isinstance(a, tuple) and a[0] == "call" and norm_path(a[1]).endswith("Arguments::<'a>::new") and len(a[2]) == 2):
        return False
    tmpl, args = a[2]
    if not (tmpl[0] == "const" and tmpl[2] == b"\xc0\x00" and args[0] == "array" and len(args[1]) == 1):
        return False        # the compiled template of "{}": one placeholder with the default spec, no literal text
    arg = args[1][0]
    return arg[0] == "call" and arg[1].endswith("::new_display") and find_sub(arg, P.call("Hash::to_hex", ("arg", 1, "self"))) is not None


def rule_T3_hash(ctx, F):
    for path, pat, text in FORWARD:
        fn = find_fn_norm(F, path)
        e = val(fn.expr_local(0))
        ncalls = sum(1 for _ in fn.calls())
        want_calls = count_calls(e)
        if path.endswith("Display>::fmt") and unify(pat, e) is None and _display_alternative(e):
            ctx.ob(ncalls == want_calls, "forward:%s" % path, fn.loc, "%s is write!(f, \"{}\", self.to_hex()...) (%d call(s) in body, %d in the returned expression)" % (path, ncalls, want_calls))
            continue
        ctx.ob(unify(pat, e) is not None and ncalls == want_calls, "forward:%s" % path, fn.loc,
               "%s returns %s (%d call(s) in body, %d in the returned expression) ; required exactly %s" % (path, show(e)[:200], ncalls, want_calls, text))
    # Debug prints the hex string
    fn = find_fn_norm(F, "<Hash as core::fmt::Debug>::fmt")
    e = val(fn.expr_local(0))
    hit = find_sub(e, ("call", name_ends("::as_str"), (P.call("Hash::to_hex", ("arg", 1, "self")),)))
    reads = [x for x in all_self_paths(fn)]
    ctx.ob(hit is not None, "forward:Debug(Hash)", fn.loc, "Debug prints %s ; required the to_hex() string" % show(e)[:200])
    # from_slice: length enforced by the array conversion, bytes moved unchanged
    fn = F.need_fn("Hash::from_slice")
    calls = [val(fn.expr_call(t)) for _, t in fn.calls()]
    tryinto = [c for c in calls if "TryInto" in c[1] and c[2] == (("arg", 1, "bytes"),)]
    ctx.ob(bool(tryinto), "from_slice-tryinto", fn.loc, "from_slice converts `bytes` with TryInto<[u8; 32]> (rejects every other length)")
    oks = [e for b, g, e in ret_alternatives(fn) if e[0] == "adt" and e[2] == "Ok"]
    want = ("adt", W(), "Ok", ("0",), (P.call("Hash::from_bytes", ("path", ("call", name_has("Try>::branch"), (W("conv"),)), (("as", "Continue"), "0"))),))
    m = unify(want, oks[0]) if len(oks) == 1 else None
    okv = m is not None and "TryInto" in m["conv"][1]
    if not okv and oks:
        # the same through an explicit match / map on the conversion's result: every Ok carries from_bytes(<the converted array>)
        okv = all(o[4] and find_sub(o[4][0], ("call", "Hash::from_bytes", (W(),))) is not None and any("TryInto" in show(c_) or "TryFrom" in show(c_) for c_ in calls) for o in oks)
    if not okv and not oks:
        # `bytes.try_into().map(Self::from_bytes)`: Result::map applies from_bytes to the Ok payload and passes Err through
        e0 = val(fn.expr_local(0))
        okv = e0[0] == "call" and norm_path(e0[1]).endswith("Result::<T, E>::map") and len(e0[2]) == 2 and e0[2][0][0] == "call" and "TryInto" in e0[2][0][1] \
            and e0[2][0][2] == (("arg", 1, "bytes"),) and "from_bytes" in show(e0[2][1])
    ctx.ob(okv, "from_slice-ok-value", fn.loc, "Ok value = %s" % (show(oks[0])[:200] if oks else show(val(fn.expr_local(0)))[:120]))
    ret = fn.j.get("ret", "")
    ctx.ob("TryFromSliceError" in ret, "from_slice-error-type", fn.loc, "return type %s" % ret)


def count_calls(e):
    n = [0]

    def v(x):
        if x and x[0] == "call":
            n[0] += 1
    walk_expr(e, v)
    return n[0]


def all_self_paths(fn):
    out = []
    for bi, si, s in fn.stmts():
        pass
    return out


def rule_T3_serde(ctx, F):
    ser = [i for i in F.impls if i["self"] == "Hash" and i["trait"] and i["trait"].endswith("Serialize") and i["derived"]]
    de = [i for i in F.impls if i["self"] == "Hash" and i["trait"] and "Deserialize" in i["trait"] and i["derived"]]
    ctx.ob(len(ser) == 1 and len(de) == 1, "serde-derived", (ser or de or [{"s": ""}])[0]["s"],
           "serde Serialize/Deserialize for Hash are #[derive]d on the newtype (%d/%d)" % (len(ser), len(de)))
    # the derived visitor must offer the sequence form and the newtype form; byte-string form: visit_bytes absent
    # in a derive => the legacy byte-string form is NOT structurally visible here (reported as information)
    names = [p for p in F.fns if "Visitor" in p and "Hash" in p]
    ctx.info("derived Deserialize visitor methods: %s" % sorted(set(n.rsplit("::", 1)[-1] for n in names)))


TRAIT_FORWARD = [
    # (trait fn path, [(required call pattern)], order constraints)
    ("traits::<impl digest::Update for Hasher>::update", [P.call("Hasher::update", ("arg", 1, "self"), P.arg("data"))]),
    ("traits::<impl digest::Reset for Hasher>::reset", [P.call("Hasher::reset", ("arg", 1, "self"))]),
    ("traits::<impl digest::XofReader for OutputReader>::read", [P.call("OutputReader::fill", ("arg", 1, "self"), P.arg("buffer"))]),
]


def calls_of(fn):
    return [(bi, val(fn.expr_call(t)), t.get("s")) for bi, t in fn.calls()]


def rule_T3_traits(ctx, F):
    for path, pats in TRAIT_FORWARD:
        fn = F.need_fn(path)
        cs = calls_of(fn)
        for pat in pats:
            hit = [c for c in cs if unify(pat, c[1]) is not None]
            ctx.ob(len(hit) == 1 and len(cs) == 1, "trait-forward:%s" % path.split(" for ")[0].split("digest::")[-1], fn.loc,
                   "%s calls %s ; required exactly the inherent method with its own arguments" % (path, [show(c[1]) for c in cs]))
    SELF = ("arg", 1, "self")
    # FixedOutput::finalize_into(self, out): out.copy_from_slice(self.finalize().as_bytes())
    fin_bytes = P.cast(("path", P.call("Hasher::finalize", SELF), ("0",)), W())      # finalize().as_bytes() is finalize().0 (accessor seen through)
    for path, resets in (("traits::<impl digest::FixedOutput for Hasher>::finalize_into", False),
                         ("traits::<impl digest::FixedOutputReset for Hasher>::finalize_into_reset", True)):
        fn = F.need_fn(path)
        cs = calls_of(fn)
        copy = [c for c in cs if norm_path(c[1][1]).endswith("copy_from_slice")]
        ok = len(copy) == 1 and unify(fin_bytes, copy[0][1][2][1]) is not None and find_sub(copy[0][1][2][0], P.arg("out")) is not None
        tag = path.split("digest::")[1].split(" for")[0]
        ctx.ob(ok, "trait-forward:%s" % tag, fn.loc, "%s: %s ; required out.copy_from_slice(self.finalize().as_bytes())"
               % (tag, [show(c[1])[:120] for c in copy]))
        rs = [c for c in cs if unify(P.call("Hasher::reset", SELF), c[1]) is not None]
        if resets:
            fins = [c for c in cs if unify(P.call("Hasher::finalize", SELF), c[1]) is not None]
            ok = len(rs) == 1 and len(fins) == 1 and len(copy) == 1 and fn.dominates(fins[0][0], rs[0][0]) and fn.dominates(copy[0][0], rs[0][0])
            ctx.ob(ok, "trait-output-before-reset:%s" % tag, fn.loc, "finalize() and the copy-out dominate reset(): %s" % ok)
        else:
            ctx.ob(not rs, "trait-no-reset:%s" % tag, fn.loc, "non-resetting variant does not call reset")
    fn = F.need_fn("traits::<impl digest::ExtendableOutput for Hasher>::finalize_xof")
    e = val(fn.expr_local(0))
    ctx.ob(unify(P.call("Hasher::finalize_xof", SELF), e) is not None, "trait-forward:ExtendableOutput", fn.loc, "returns %s" % show(e))
    fn = F.need_fn("traits::<impl digest::ExtendableOutputReset for Hasher>::finalize_xof_reset")
    e = val(fn.expr_local(0))
    cs = calls_of(fn)
    xo = [c for c in cs if unify(P.call("Hasher::finalize_xof", SELF), c[1]) is not None]
    rs = [c for c in cs if unify(P.call("Hasher::reset", SELF), c[1]) is not None]
    ok = unify(P.call("Hasher::finalize_xof", SELF), e) is not None and len(xo) == 1 and len(rs) == 1 and fn.dominates(xo[0][0], rs[0][0]) and xo[0][0] != rs[0][0]
    ctx.ob(ok, "trait-output-before-reset:ExtendableOutputReset", fn.loc, "returns %s ; finalize_xof dominates reset: %s" % (show(e), ok))
    fn = F.need_fn("traits::<impl digest::KeyInit for Hasher>::new")
    e = val(fn.expr_local(0))
    want = P.call("Hasher::new_keyed", ("call", name_has("Into<"), (P.arg("key"),)))
    ctx.ob(unify(want, e) is not None, "trait-forward:KeyInit", fn.loc, "returns %s ; required Hasher::new_keyed(key.into())" % show(e))
    # an override of the provided KeyInit::new_from_slice must keep the exact-length contract: Ok only for a 32-byte slice.  Accepted
    # evidence: the slice goes through TryFrom/TryInto<[u8; 32]> (exact by construction) or the Ok path is under len == KEY_LEN.
    for p, f in F.fns.items():
        if "KeyInit for Hasher>::new_from_slice" in p and f.has_body:
            conv = [show(c[1]) for c in calls_of(f)]
            exact = any(("try_from" in c or "try_into" in c or "TryFrom" in c or "TryInto" in c) for c in conv)
            lenguard = False
            for b_, gs, e_ in ret_alternatives(f):
                if e_[0] == "adt" and e_[2] == "Ok":
                    for c, tr in gs:
                        sc = show(c) if isinstance(c, tuple) else str(c)
                        if "len(" in sc and " Eq " in sc and ("32" in sc or "KEY_LEN" in sc) and tr is True:
                            lenguard = True
            inexact = [c for c in conv if any(k in c for k in ("first_chunk", "split_first_chunk", "last_chunk", "split_at", "get(", "index("))]
            ctx.ob(exact or lenguard, "trait-keyinit-from-slice-exact-length", f.loc,
                   "new_from_slice %s" % ("converts the slice with an exact-length conversion" if exact else "returns Ok only under len == KEY_LEN" if lenguard
                                          else "accepts a slice without an exact-length test (prefix-taking calls: %s): longer keys would be truncated silently" % [c[:40] for c in inexact]))
    # no trait method resolves to itself
    n = 0
    for p, f in F.fns.items():
        if p.startswith("traits::") and f.has_body:
            n += 1
            rec = [c for c in calls_of(f) if c[1][1] == p]
            ctx.ob(not rec, "trait-no-self-recursion:%s" % p.split("digest::")[-1], f.loc, "%d self call(s)" % len(rec))
    ctx.floor("trait methods in traits.rs", n, 8)
    # marker/assoc-type impls: OutputSize = U32, KeySize = U32, BlockSize = U64 are types; the impl list must exist
    have = set((i["self"], i["trait"]) for i in F.impls)
    for tr in ("digest::OutputSizeUser", "digest::crypto_common::KeySizeUser", "digest::block_api::BlockSizeUser", "digest::HashMarker", "digest::MacMarker"):
        ctx.ob(("Hasher", tr) in have, "trait-impl-present:%s" % tr.split("::")[-1], "", "impl %s for Hasher present" % tr)


def rule_T3_guts(ctx, F):
    fn = F.need_fn("guts::ChunkState::new")
    e = val(fn.expr_local(0))
    want = ("adt", "guts::ChunkState", W(), ("0",), (P.call("ChunkState::new", P.named("IV"), P.arg("chunk_counter"), P.const(0), P.call("platform::Platform::detect")),))
    ctx.ob(unify(want, e) is not None, "guts-new", fn.loc, "guts::ChunkState::new = %s ; required ChunkState::new(IV, chunk_counter, 0, detect())" % show(e))
    fn = F.need_fn("guts::ChunkState::update")
    cs = calls_of(fn)
    ok = len(cs) == 1 and unify(P.call("ChunkState::update", P.self_("0"), P.arg("input")), cs[0][1]) is not None
    ctx.ob(ok, "guts-update", fn.loc, "calls %s" % [show(c[1]) for c in cs])
    fn = F.need_fn("guts::ChunkState::len")
    e = val(fn.expr_local(0))
    ctx.ob(unify(P.call("ChunkState::count", P.self_("0")), e) is not None, "guts-len", fn.loc, "len = %s" % show(e))
    out_chunk = P.call("ChunkState::output", P.self_("0"))
    out_parent = P.call("parent_node_output", ("path", P.arg("left_child"), ("0",)), ("path", P.arg("right_child"), ("0",)),
                        P.named("IV"), P.const(0), P.call("platform::Platform::detect"))
    for path, outp in (("guts::ChunkState::finalize", out_chunk), ("guts::parent_cv", out_parent)):
        fn = F.need_fn(path)
        alts = ret_alternatives(fn)
        seen = {}
        for b, gs, e in alts:
            pol = [tr for c, tr in gs if c == ("arg", 2 if path.endswith("finalize") else 3, "is_root")]
            if len(pol) == 1:
                seen[pol[0]] = e
        t_ok = True in seen and unify(P.call("Output::root_hash", outp), seen[True]) is not None
        f_ok = False in seen and unify(("call", name_has("Into<"), (P.call("Output::chaining_value", outp),)), seen[False]) is not None
        ctx.ob(t_ok, "guts-root-polarity:%s:true" % path, fn.loc, "is_root=true => %s ; required root_hash()" % (show(seen.get(True)) if True in seen else "?"))
        ctx.ob(f_ok, "guts-root-polarity:%s:false" % path, fn.loc, "is_root=false => %s ; required chaining_value()" % (show(seen.get(False)) if False in seen else "?"))
