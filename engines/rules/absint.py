"""Expression-based abstract interpretation for the small pure helpers (H1, X3, T1, P4c).

Domain: interval x congruence over mathematical integers for every *leaf* of the value-flow
expressions (parameters, fields of parameters, opaque call results).  A site (arithmetic
operator, division, callee precondition, explicit panic) at block B is evaluated under the
declared input domain refined by every branch edge / passed assertion that dominates B.
Loop-carried locals are evaluated as the join of their definitions, each under the guards of
its own definition site; a cyclic dependency yields the type's full range (sound, imprecise)."""
import math
from mirlib import *

INT_BITS = {"u8": 8, "u16": 16, "u32": 32, "u64": 64, "u128": 128, "usize": 64,
            "i8": 8, "i16": 16, "i32": 32, "i64": 64, "i128": 128, "isize": 64}


def set_usize_bits(bits):
    """pointer width of the configuration being analysed (framework.run_rule sets it from extract.CONFIGS[cfg]["ptr"])"""
    INT_BITS["usize"] = bits
    INT_BITS["isize"] = bits


def ty_range(ty, usize_bits=None):
    if ty in ("usize", "isize"):
        bits = usize_bits or INT_BITS["usize"]
    else:
        bits = INT_BITS.get(ty)
    if bits is None:
        if ty == "bool":
            return (0, 1)
        if ty == "char":
            return (0, 0x10FFFF)
        return None
    if ty.startswith("u"):
        return (0, (1 << bits) - 1)
    return (-(1 << (bits - 1)), (1 << (bits - 1)) - 1)


class AV:
    """abstract value: interval [lo,hi] (None = empty) and congruence (m, r): x = r mod m (m=1: any)"""
    __slots__ = ("lo", "hi", "m", "r")

    def __init__(self, lo, hi, m=1, r=0):
        self.lo, self.hi, self.m, self.r = lo, hi, m, r % m if m else 0
        self._reduce()

    def _reduce(self):
        if self.lo is None:
            return
        if self.m > 1:
            lo = self.lo + ((self.r - self.lo) % self.m)
            hi = self.hi - ((self.hi - self.r) % self.m)
            self.lo, self.hi = lo, hi
        if self.lo > self.hi:
            self.lo = self.hi = None

    @property
    def empty(self):
        return self.lo is None

    def const(self):
        return self.lo if (not self.empty and self.lo == self.hi) else None

    def join(self, o):
        if self.empty:
            return o
        if o.empty:
            return self
        m = math.gcd(math.gcd(self.m if self.m > 1 else 0, o.m if o.m > 1 else 0), abs(self.r - o.r)) if (self.m > 1 and o.m > 1) else 1
        if m == 0:
            m = max(self.m, 1)
        return AV(min(self.lo, o.lo), max(self.hi, o.hi), m if m > 0 else 1, self.r)

    def meet(self, o):
        if self.empty or o.empty:
            return AV(None, None)
        lo, hi = max(self.lo, o.lo), min(self.hi, o.hi)
        m, r = self.m, self.r
        if o.m > 1:
            if m > 1:
                # keep the stronger when compatible (one modulus divides the other); else keep ours
                if o.m % m == 0 and o.r % m == r:
                    m, r = o.m, o.r
                elif m % o.m == 0 and r % o.m == o.r:
                    pass
                elif m % o.m == 0 or o.m % m == 0:
                    return AV(None, None)
            else:
                m, r = o.m, o.r
        return AV(lo, hi, m, r)

    def __repr__(self):
        if self.empty:
            return "EMPTY"
        s = "[%d, %d]" % (self.lo, self.hi) if self.lo != self.hi else "{%d}" % self.lo
        if self.m > 1:
            s += " =%d mod %d" % (self.r, self.m)
        return s


def top(ty):
    r = ty_range(ty)
    if r is None:
        return AV(-(1 << 200), 1 << 200)
    return AV(r[0], r[1])


def floor_log2(x):
    return x.bit_length() - 1


class Site:
    def __init__(self, kind, where, detail, ok, block):
        self.kind, self.where, self.detail, self.ok, self.block = kind, where, detail, ok, block


class Evaluator:
    def __init__(self, F, fn, domain, ret_ranges=None):
        """domain: {show(leaf expr) or param name: AV}; ret_ranges: callee path -> AV of result"""
        self.F, self.fn = F, fn
        self.domain = dict(domain)
        self.ret_ranges = ret_ranges or {}
        self._guards = {}
        self._phi_busy = set()

    # ---------- guards ----------
    def guards(self, b):
        """[(cond expr, truth)] for every switch edge / passed assert dominating block b"""
        if b in self._guards:
            return self._guards[b]
        fn = self.fn
        out = []
        dom = fn.dominators().get(b, set())
        for s in sorted(dom):
            t = fn.blocks[s]["term"]
            if t["k"] == "switch":
                discr = fn.expr_operand(t["op"])
                listed = [v for v, _ in t["targets"]]
                for v, tgt in t["targets"]:
                    if tgt != t["otherwise"] and sum(1 for _, t2 in t["targets"] if t2 == tgt) == 1 and fn.edge_dominates(s, tgt, b) and s != b:
                        out.append(("eqval", discr, v, t["opty"]))
                o = t["otherwise"]
                if all(o != tgt for _, tgt in t["targets"]) and fn.edge_dominates(s, o, b) and s != b:
                    out.append(("notin", discr, tuple(listed), t["opty"]))
            elif t["k"] == "assert" and s != b:
                out.append(("eqval", fn.expr_operand(t["cond"]), 1 if t["expected"] else 0, "bool"))
        self._guards[b] = out
        return out

    # ---------- environment ----------
    def env_at(self, b):
        env = dict(self.domain)
        gs = self.guards(b)
        for _ in range(4):
            before = {k: (v.lo, v.hi, v.m, v.r) for k, v in env.items()}
            for g in gs:
                self.apply_guard(env, g)
            if before == {k: (v.lo, v.hi, v.m, v.r) for k, v in env.items()}:
                break
        return env

    def feasible(self, env):
        return not any(v.empty for v in env.values())

    def leaf_key(self, e):
        return show(deref_strip(e))

    def get_leaf(self, env, e, ty=None):
        k = self.leaf_key(e)
        if k in env:
            return env[k]
        return None

    def refine_leaf(self, env, e, av, ty=None):
        k = self.leaf_key(e)
        cur = env.get(k)
        if cur is None:
            cur = self.eval(e, env)
        env[k] = cur.meet(av)

    def apply_guard(self, env, g):
        kind, e, v = g[0], g[1], g[2]
        e = deref_strip(e)
        if kind == "notin":
            vals = v
            if g[3] == "bool" and set(vals) == {0}:
                return self.apply_truth(env, e, True)
            if g[3] == "bool" and set(vals) == {1}:
                return self.apply_truth(env, e, False)
            # integer switch otherwise: shave listed values off the ends
            cur = self.eval(e, env)
            if cur.empty:
                return
            lo, hi = cur.lo, cur.hi
            changed = True
            while changed and lo <= hi:
                changed = False
                if lo in vals:
                    lo += 1
                    changed = True
                if hi in vals and hi >= lo:
                    hi -= 1
                    changed = True
            if is_leaf(e):
                self.refine_leaf(env, e, AV(lo, hi) if lo <= hi else AV(None, None))
            return
        if g[3] == "bool":
            return self.apply_truth(env, e, bool(v))
        self.apply_cmp(env, "Eq", e, ("const", None, v, g[3]), True)

    def apply_truth(self, env, e, truth):
        e = deref_strip(e)
        if e[0] == "un" and e[1] == "Not":
            return self.apply_truth(env, e[2], not truth)
        if e[0] == "bin" and e[1] in ("Eq", "Ne", "Lt", "Le", "Gt", "Ge"):
            return self.apply_cmp(env, e[1], e[2], e[3], truth)
        if e[0] == "call" and e[1].endswith("::eq") and len(e[2]) == 2:
            return self.apply_cmp(env, "Eq", e[2][0], e[2][1], truth)
        if e[0] == "call" and e[1].endswith("::ne") and len(e[2]) == 2:
            return self.apply_cmp(env, "Ne", e[2][0], e[2][1], truth)
        if is_leaf(e):
            self.refine_leaf(env, e, AV(1, 1) if truth else AV(0, 0))

    NEG = {"Eq": "Ne", "Ne": "Eq", "Lt": "Ge", "Ge": "Lt", "Gt": "Le", "Le": "Gt"}
    SWAP = {"Eq": "Eq", "Ne": "Ne", "Lt": "Gt", "Gt": "Lt", "Le": "Ge", "Ge": "Le"}

    def apply_cmp(self, env, op, a, b, truth):
        if not truth:
            op = self.NEG[op]
        a, b = deref_strip(a), deref_strip(b)
        self._refine_side(env, op, a, self.eval(b, env))
        self._refine_side(env, self.SWAP[op], b, self.eval(a, env))

    def _refine_side(self, env, op, x, other):
        """x <op> other holds; refine what can be refined in x"""
        if other.empty:
            return
        x = deref_strip(x)
        big = 1 << 200
        if op == "Eq":
            want = AV(other.lo, other.hi, other.m, other.r)
        elif op == "Ne":
            c = other.const()
            cur = self.eval(x, env)
            if c is None or cur.empty:
                return
            lo, hi = cur.lo, cur.hi
            if lo == c:
                lo += 1
            if hi == c:
                hi -= 1
            want = AV(lo, hi) if lo <= hi else AV(None, None)
            if want.empty and not is_leaf(x):
                env["#infeasible"] = AV(None, None)      # the expression is exactly c: `!= c` cannot hold
                return
            if x[0] == "bin" and x[1] == "Rem" and c is not None:
                mc = self.eval(x[3], env).const()
                if mc and mc > 1 and is_leaf(deref_strip(x[2])):
                    cur2 = self.eval(x[2], env)
                    # x % m != c : if the dividend is known = c mod m the branch is infeasible
                    if cur2.m > 1 and cur2.m % mc == 0 and cur2.r % mc == c:
                        self.refine_leaf(env, deref_strip(x[2]), AV(None, None))
                    return
        elif op == "Lt":
            want = AV(-big, other.hi - 1)
        elif op == "Le":
            want = AV(-big, other.hi)
        elif op == "Gt":
            want = AV(other.lo + 1, big)
        elif op == "Ge":
            want = AV(other.lo, big)
        else:
            return
        if is_leaf(x):
            self.refine_leaf(env, x, want)
            return
        if not want.empty:
            # whatever x is: if its value set cannot meet the requirement the guarded path is infeasible
            cur0 = self.eval(x, env)
            if not cur0.empty and cur0.meet(AV(max(want.lo, -(1 << 199)), min(want.hi, 1 << 199), want.m, want.r)).empty:
                env["#infeasible"] = AV(None, None)
                return
        if x[0] == "cast" and is_intlike(x[3]) and is_intlike(x[4]):
            src = ty_range(x[3])
            dst = ty_range(x[4])
            if src and dst and dst[0] <= src[0] and src[1] <= dst[1]:  # lossless widening
                return self._refine_side(env, "Eq", x[2], want.meet(top(x[3]))) if True else None
            return
        if x[0] == "bin" and x[1] == "Rem" and op == "Eq":
            mc = self.eval(x[3], env).const()
            c = other.const()
            if mc and mc > 1 and c is not None:
                cur = self.eval(x[2], env)
                if not cur.empty and cur.lo >= 0 and is_leaf(deref_strip(x[2])):
                    self.refine_leaf(env, deref_strip(x[2]), AV(cur.lo, cur.hi, mc, c))
            return
        if x[0] == "bin" and x[1] in ("Add", "Sub") and op in ("Eq", "Lt", "Le", "Gt", "Ge"):
            c = self.eval(x[3], env).const()
            if c is not None and not want.empty:
                d = -c if x[1] == "Add" else c
                self._refine_side(env, "Eq", x[2], AV(want.lo + d, want.hi + d))
            return

    @staticmethod
    def _is_pow2_of_tz(b, a):
        """b is `1 << trailing_zeros(a)` (modulo casts / derefs)"""
        def strip(x):
            x = deref_strip(x)
            while isinstance(x, tuple) and x and x[0] == "cast":
                x = deref_strip(x[2] if len(x) > 3 else x[1])
            return x
        b, a = strip(b), strip(a)
        if not (isinstance(b, tuple) and b and b[0] == "bin" and b[1] == "Shl"):
            return False
        one, sh = strip(b[2]), strip(b[3])
        if not (one[0] == "const" and one[2] == 1):
            return False
        return isinstance(sh, tuple) and sh and sh[0] == "call" and sh[1].endswith("trailing_zeros") and len(sh[2]) == 1 and show(strip(sh[2][0])) == show(a)

    # ---------- evaluation ----------
    def eval(self, e, env, sites=None, block=None):
        e0 = e
        e = deref_strip(e)
        k = e[0]
        key = show(e)
        if key in env:
            return env[key]
        if k == "const":
            v = e[2]
            if isinstance(v, int):
                return AV(v, v)
            return top(e[3])
        if k == "arg":
            ty = self.fn.locals[e[1]]["ty"]
            return top(ty)
        if k == "cast" and len(e) == 3:   # value-normalised form ('cast', x, to)
            a = self.eval(e[1], env)
            dst = ty_range(e[2])
            if a.empty or dst is None:
                return top(e[2])
            return a if (dst[0] <= a.lo and a.hi <= dst[1]) else AV(dst[0], dst[1])
        if k == "cast":
            a = self.eval(e[2], env)
            dst = ty_range(e[4])
            if is_intlike(e[3]) and not a.empty:
                a = a.meet(top(e[3]))  # the operand is a value of its static type
            if a.empty or dst is None or not is_intlike(e[3]):
                return top(e[4])
            if dst[0] <= a.lo and a.hi <= dst[1]:
                return a
            return AV(dst[0], dst[1])
        if k == "bin":
            if e[1] == "Rem" and self._is_pow2_of_tz(e[3], e[2]):
                return AV(0, 0)          # x % (1 << x.trailing_zeros()) == 0 for every x != 0 (and the shift is checked separately)
            return self.eval_bin(e, env)
        if k == "un":
            a = self.eval(e[2], env)
            if e[1] == "Not" and e[3] == "bool" and not a.empty:
                c = a.const()
                return AV(1 - c, 1 - c) if c is not None else AV(0, 1)
            if e[1] == "Neg" and not a.empty:
                return AV(-a.hi, -a.lo)
            return top(e[3] or "?")
        if k == "overflowed":
            b = e[1]
            exact = self.eval_bin(b, env, exact=True)
            rng = ty_range(b[4]) if len(b) > 4 and b[4] else None
            if exact.empty or rng is None:
                return AV(0, 1)
            if rng[0] <= exact.lo and exact.hi <= rng[1]:
                return AV(0, 0)
            if exact.hi < rng[0] or exact.lo > rng[1]:
                return AV(1, 1)
            return AV(0, 1)
        if k == "phi":
            return self.eval_phi(e, env)
        if k == "call":
            return self.eval_call(e, env)
        if k == "path":
            root, el = path_fields(e)
            ty = None
            if isinstance(root, tuple) and root and root[0] == "call" and root[1] in self.ret_ranges and \
                    all((isinstance(x, tuple) and x[0] == "as") or x == "0" for x in el):
                return self.ret_ranges[root[1]]  # payload of an Option/Result returned by a summarised callee
            return AV(-(1 << 200), 1 << 200) if ty is None else top(ty)
        return AV(-(1 << 200), 1 << 200)

    def eval_phi(self, e, env):
        l = e[1]
        ty = self.fn.locals[l]["ty"]
        if l in self._phi_busy:
            return top(ty)
        self._phi_busy.add(l)
        try:
            acc = AV(None, None)
            fn = self.fn
            for d in fn.defs().get(l, []):
                if d[0] == "call":
                    envd = self.env_at(d[1])
                    if not self.feasible(envd):
                        continue
                    v = self.eval(fn.expr_call(d[2]), envd)
                elif d[0] == "assign" and not d[3]["place"]["p"]:
                    envd = self.env_at(d[1])
                    if not self.feasible(envd):
                        continue
                    v = self.eval(fn.expr_rvalue(d[3]["rv"]), envd)
                else:
                    continue
                acc = acc.join(v)
            if 1 <= l <= fn.argc:
                acc = acc.join(self.domain.get(fn.names.get(l, ""), top(ty)))
            r = ty_range(ty)
            if acc.empty:
                return top(ty)
            return acc
        finally:
            self._phi_busy.discard(l)

    def eval_bin(self, e, env, exact=False):
        op, a, b = e[1], self.eval(e[2], env), self.eval(e[3], env)
        ty = e[4] if len(e) > 4 else None
        rng = ty_range(ty) if ty else None
        if a.empty or b.empty:
            return AV(None, None)
        if op in ("Eq", "Ne", "Lt", "Le", "Gt", "Ge"):
            if op == "Lt":
                return AV(1, 1) if a.hi < b.lo else AV(0, 0) if a.lo >= b.hi else AV(0, 1)
            if op == "Le":
                return AV(1, 1) if a.hi <= b.lo else AV(0, 0) if a.lo > b.hi else AV(0, 1)
            if op == "Gt":
                return AV(1, 1) if a.lo > b.hi else AV(0, 0) if a.hi <= b.lo else AV(0, 1)
            if op == "Ge":
                return AV(1, 1) if a.lo >= b.hi else AV(0, 0) if a.hi < b.lo else AV(0, 1)
            if op == "Eq":
                if a.const() is not None and a.const() == b.const():
                    return AV(1, 1)
                if a.hi < b.lo or b.hi < a.lo:
                    return AV(0, 0)
                return AV(0, 1)
            if op == "Ne":
                if a.const() is not None and a.const() == b.const():
                    return AV(0, 0)
                if a.hi < b.lo or b.hi < a.lo:
                    return AV(1, 1)
                return AV(0, 1)
        r = None
        if op in ("Add", "AddUnchecked", "AddWithOverflow"):
            m = math.gcd(a.m, b.m) if (a.m > 1 and b.m > 1) else 1
            r = AV(a.lo + b.lo, a.hi + b.hi, m, (a.r + b.r) if m > 1 else 0)
        elif op in ("Sub", "SubUnchecked", "SubWithOverflow"):
            r = AV(a.lo - b.hi, a.hi - b.lo)
        elif op in ("Mul", "MulUnchecked", "MulWithOverflow"):
            c = [a.lo * b.lo, a.lo * b.hi, a.hi * b.lo, a.hi * b.hi]
            bc, ac = b.const(), a.const()
            m, rr = 1, 0
            if bc is not None and bc > 0:
                m, rr = (a.m if a.m > 1 else 1) * bc, a.r * bc if a.m > 1 else 0
            elif ac is not None and ac > 0:
                m, rr = (b.m if b.m > 1 else 1) * ac, b.r * ac if b.m > 1 else 0
            r = AV(min(c), max(c), m, rr)
        elif op == "Div":
            if b.lo <= 0 <= b.hi:
                if b.lo == b.hi:
                    return top(ty or "?")
                # divisor may be 0: handled as a site; for the value use the non-zero part
                blo = max(b.lo, 1) if b.hi > 0 else b.lo
                bhi = b.hi if b.hi > 0 else min(b.hi, -1)
            else:
                blo, bhi = b.lo, b.hi
            if a.lo >= 0 and blo > 0:
                if blo == bhi and a.m > 1 and a.m % blo == 0 and a.r % blo == 0:
                    # exact division of a congruence class: x = r (mod m), c | m, c | r  =>  x/c = r/c (mod m/c)
                    r = AV(a.lo // blo, a.hi // blo, a.m // blo, a.r // blo)
                else:
                    r = AV(a.lo // bhi, a.hi // blo)
            else:
                c = [int(a.lo / blo), int(a.lo / bhi), int(a.hi / blo), int(a.hi / bhi)]
                r = AV(min(c), max(c))
        elif op == "Rem":
            bc = b.const()
            if bc and bc > 0 and a.lo >= 0:
                if a.m > 1 and a.m % bc == 0:
                    return AV(a.r % bc, a.r % bc)
                if a.hi < bc:
                    return a
                r = AV(0, bc - 1)
            elif b.lo > 0 and a.lo >= 0:
                r = AV(0, b.hi - 1)
            else:
                return top(ty or "?")
        elif op in ("Shl", "ShlUnchecked"):
            if a.lo >= 0 and b.lo >= 0 and b.hi <= 256:
                r = AV(a.lo << b.lo, a.hi << b.hi)
            else:
                return top(ty or "?")
        elif op in ("Shr", "ShrUnchecked"):
            if a.lo >= 0 and b.lo >= 0 and b.hi <= 256:
                r = AV(a.lo >> b.hi, a.hi >> b.lo)
            else:
                return top(ty or "?")
        elif op == "BitAnd":
            if a.lo >= 0 and b.lo >= 0:
                r = AV(0, min(a.hi, b.hi))
            else:
                return top(ty or "?")
        elif op in ("BitOr", "BitXor"):
            if a.lo >= 0 and b.lo >= 0:
                bits = max(a.hi.bit_length(), b.hi.bit_length())
                r = AV(0, (1 << bits) - 1)
            else:
                return top(ty or "?")
        else:
            return top(ty or "?")
        if exact or rng is None or r.empty:
            return r
        if rng[0] <= r.lo and r.hi <= rng[1]:
            return r
        # wraps (unchecked build) -- value after wrap is anywhere in the type
        return AV(rng[0], rng[1])

    # spec facts about core integer methods (transfer functions); None => unknown callee
    def eval_call(self, e, env):
        name = norm_path(e[1])
        args = [self.eval(a, env) for a in e[2]]
        base = name.rsplit("::", 1)[-1]
        m = re.match(r"core::num::<impl (\w+)>::(\w+)$", name)
        if m:
            ty, meth = m.group(1), m.group(2)
            rng = ty_range(ty)
            bits = INT_BITS.get(ty, 64)
            a = args[0] if args else None
            if a is None or a.empty:
                return top(ty)
            if meth == "next_power_of_two":
                lo = 1 if a.lo <= 1 else 1 << (a.lo - 1).bit_length()
                hi = 1 if a.hi <= 1 else 1 << (a.hi - 1).bit_length()
                if hi > rng[1]:
                    hi = rng[1]
                return AV(lo, hi)
            if meth in ("trailing_zeros", "leading_zeros"):
                if meth == "trailing_zeros" and a.m > 1 and a.m & (a.m - 1) == 0 and a.r % a.m != 0:
                    r = a.r % a.m       # x = r (mod 2^j), r != 0  =>  tz(x) = tz(r) exactly
                    tz = (r & -r).bit_length() - 1
                    return AV(tz, tz)
                if meth == "trailing_zeros" and a.lo >= 1:
                    return AV(0, floor_log2(a.hi))
                return AV(0, bits)
            if meth == "count_ones":
                return AV(0 if a.lo == 0 else 1, min(bits, a.hi.bit_length()))
            if meth == "div_ceil" and len(args) == 2 and args[1].lo > 0:
                b = args[1]
                return AV(-((-a.lo) // b.hi), -((-a.hi) // b.lo))
            if meth in ("min",) and len(args) == 2:
                return AV(min(a.lo, args[1].lo), min(a.hi, args[1].hi))
            if meth in ("max",) and len(args) == 2:
                return AV(max(a.lo, args[1].lo), max(a.hi, args[1].hi))
            if meth == "saturating_add" and len(args) == 2:
                return AV(min(a.lo + args[1].lo, rng[1]), min(a.hi + args[1].hi, rng[1]))
            if meth in ("max_value",):
                return AV(rng[1], rng[1])
            return top(ty)
        if name in ("core::cmp::min", "core::cmp::Ord::min") and len(args) == 2 and not args[0].empty and not args[1].empty:
            return AV(min(args[0].lo, args[1].lo), min(args[0].hi, args[1].hi))
        if name in ("core::cmp::max", "core::cmp::Ord::max") and len(args) == 2 and not args[0].empty and not args[1].empty:
            return AV(max(args[0].lo, args[1].lo), max(args[0].hi, args[1].hi))
        if e[1] in self.ret_ranges:
            return self.ret_ranges[e[1]]
        return AV(-(1 << 200), 1 << 200)

    # ---------- site enumeration ----------
    def check_sites(self):
        """Evaluate every panic-capable site of the function under domain+guards.
        Returns list of Site."""
        fn = self.fn
        sites = []
        reach = fn.reachable()
        for b in sorted(reach):
            blk = fn.blocks[b]
            if blk.get("cleanup"):
                continue
            env = None
            t = blk["term"]

            def get_env():
                nonlocal env
                if env is None:
                    env = self.env_at(b)
                return env
            for si, s in enumerate(blk["stmts"]):
                if s["k"] != "assign":
                    continue
                rv = s["rv"]
                if rv["k"] == "bin" and is_intlike(rv.get("ty", "")):
                    op = rv["op"]
                    base = op.replace("WithOverflow", "").replace("Unchecked", "")
                    if base in ("Add", "Sub", "Mul", "Shl", "Shr", "Div", "Rem"):
                        e = get_env()
                        if not self.feasible(e):
                            continue
                        ex = ("bin", base, fn.expr_operand(rv["a"]), fn.expr_operand(rv["b"]), rv["ty"])
                        a, bb = self.eval(ex[2], e), self.eval(ex[3], e)
                        rng = ty_range(rv["ty"])
                        ok, why = True, ""
                        if base in ("Div", "Rem"):
                            if bb.lo <= 0 <= bb.hi:
                                ok, why = False, "divisor %s may be 0" % bb
                        elif base in ("Shl", "Shr"):
                            bits = INT_BITS.get(rv["ty"], 64)
                            if bb.hi >= bits or bb.lo < 0:
                                ok, why = False, "shift amount %s may reach the width %d" % (bb, bits)
                        else:
                            r = self.eval_bin(ex, e, exact=True)
                            if not r.empty and (r.lo < rng[0] or r.hi > rng[1]):
                                ok, why = False, "result range %s exceeds %s (operands %s, %s)" % (r, rv["ty"], a, bb)
                        sites.append(Site("arith:%s" % base, s.get("s"),
                                          "%s : %s" % (show(ex), why or "in range for %s" % rv["ty"]), ok, b))
            if t["k"] == "call":
                name = norm_path(callee_name(t["callee"]))
                e = get_env()
                if not self.feasible(e):
                    continue
                if name.endswith("::next_power_of_two") and name.startswith("core::num::<impl"):
                    ty = re.match(r"core::num::<impl (\w+)>", name).group(1)
                    a = self.eval(fn.expr_operand(t["args"][0]), e)
                    rng = ty_range(ty)
                    lim = (rng[1] + 1) // 2
                    ok = (not a.empty) and a.hi <= lim
                    sites.append(Site("call:next_power_of_two", t.get("s"),
                                      "argument %s : %s" % (show(fn.expr_operand(t["args"][0])),
                                                            "<= 2^%d" % floor_log2(lim) if ok else
                                                            "range %s exceeds 2^%d: result not representable in %s" % (a, floor_log2(lim), ty)), ok, b))
                if t.get("t") is None and ("panic" in name or "assert_failed" in name or "unwrap_failed" in name
                                             or "expect_failed" in name or "slice_index" in name or "index_fail" in name):
                    sites.append(Site("panic", t.get("s"),
                                      "explicit panic path (%s) is reachable under the declared domain; guards: %s"
                                      % (name.rsplit("::", 1)[-1], "; ".join(self.show_guard(g) for g in self.guards(b)) or "none"),
                                      False, b))
        return sites

    def show_guard(self, g):
        if g[0] == "eqval":
            return "%s == %s" % (show(deref_strip(g[1])), g[2])
        return "%s not in %s" % (show(deref_strip(g[1])), list(g[2]))


def is_intlike(ty):
    return ty in INT_BITS or ty in ("bool", "char")


def deref_strip(e):
    """drop ref wrappers and '*' path marks at the top levels (values, not addresses)"""
    while isinstance(e, tuple) and e:
        if e[0] == "ref":
            e = e[1]
            continue
        if e[0] == "path" and all(x == "*" for x in e[2]):
            e = e[1]
            continue
        break
    return e


def is_leaf(e):
    return isinstance(e, tuple) and e and e[0] in ("arg", "path", "phi", "local", "call")


def enumerate_paths(ev, max_paths=4000):
    """Path enumeration over a loop-free CFG with interval refinement on every branch edge (no
    solver): yields (env, blocks) for every feasible entry->return path.  Raises on a cycle."""
    fn = ev.fn
    out = []

    def rec(b, env, path):
        if len(out) > max_paths:
            raise RuntimeError("too many paths")
        if b in path:
            raise RuntimeError("loop in CFG: path enumeration not applicable")
        path = path + [b]
        t = fn.blocks[b]["term"]
        k = t["k"]
        if k == "return":
            out.append((env, path))
            return
        if k == "switch":
            discr = fn.expr_operand(t["op"])
            listed = [v for v, _ in t["targets"]]
            for v, tgt in t["targets"]:
                e2 = dict(env)
                ev.apply_guard(e2, ("eqval", discr, v, t["opty"]))
                if ev.feasible(e2):
                    rec(tgt, e2, path)
            e2 = dict(env)
            ev.apply_guard(e2, ("notin", discr, tuple(listed), t["opty"]))
            if ev.feasible(e2):
                # bool switch with one listed value: otherwise is the other value
                rec(t["otherwise"], e2, path)
            return
        if k == "assert":
            e2 = dict(env)
            ev.apply_guard(e2, ("eqval", fn.expr_operand(t["cond"]), 1 if t["expected"] else 0, "bool"))
            if ev.feasible(e2):
                rec(t["t"], e2, path)
            return
        for s in fn.succ(b):
            rec(s, env, path)
    rec(0, dict(ev.domain), [])
    return out


def last_def_on_path(fn, local, path):
    """value-flow expression of the last whole definition of `local` along a block path"""
    res = None
    for b in path:
        for s in fn.blocks[b]["stmts"]:
            if s["k"] == "assign" and s["place"]["l"] == local and not s["place"]["p"]:
                res = fn.expr_rvalue(s["rv"])
        t = fn.blocks[b]["term"]
        if t["k"] == "call" and t["dest"]["l"] == local and not t["dest"]["p"]:
            res = fn.expr_call(t)
    return res
