"""M2 FFI signature agreement (Rust extern items <-> C prototypes <-> wrapper call sites) and
M3 length guards dominating FFI calls."""
import re
from mirlib import *
from r_hash import name_has, name_ends, calls_of
from r_io import has_guard, has_cmp_guard
import r_c


def c_to_rust(ty):
    t = ty.strip()
    t = re.sub(r"\[\d*\]$", " *", t).strip()          # array parameters decay to pointers
    m = {"uint8_t": "u8", "uint32_t": "u32", "uint64_t": "u64", "size_t": "usize", "bool": "bool", "_Bool": "bool"}
    if t in m:
        return m[t]
    if t == "const uint8_t *const *":
        return "*const *const u8"
    mm = re.fullmatch(r"(const )?(uint8_t|uint32_t) \*", t)
    if mm:
        return ("*const " if mm.group(1) else "*mut ") + m[mm.group(2)]
    return "?" + t


def rule_M2(ctx, F):
    if F.cfg_flavour() == "neon1":
        import r_round
        t = r_c.tu("c/blake3.c", (), extra_args=r_round.NEON)      # aarch64 preprocessing: BLAKE3_USE_NEON prototypes
    else:
        t = r_c.tu("c/blake3.c")
    n = 0
    for name, fi in sorted(F.foreign.items()):
        n += 1
        proto = t.protos.get(name)
        if proto is None:
            ctx.ob(False, "ffi-prototype-exists:%s" % name, fi["s"], "extern item %s has no C prototype in blake3_impl.h" % name)
            continue
        cnames = [p[0] for p in proto["params"]]
        ctys = [c_to_rust(p[1]) for p in proto["params"]]
        ctx.ob(fi["param_names"] == cnames, "ffi-param-names:%s" % name, fi["s"], "Rust (%s) ; C (%s)" % (", ".join(fi["param_names"]), ", ".join(cnames)))
        ctx.ob(fi["params"] == ctys, "ffi-param-types:%s" % name, fi["s"], "Rust (%s) ; C (%s)" % (", ".join(fi["params"]), ", ".join("%s=%s" % (p[1], c) for p, c in zip(proto["params"], ctys))))
        ctx.ob(fi["ret"] == "()" and proto["ret"].replace("INLINE", "").strip() in ("void",), "ffi-return:%s" % name, fi["s"], "Rust -> %s ; C %s" % (fi["ret"], proto["ret"]))
    ctx.floor("extern kernel symbols", n, {"asm": 11, "neon1": 1}.get(F.cfg_flavour(), 4))
    # wrapper call sites: argument i derives from the wrapper parameter of the same meaning
    sites = 0
    for p, fn in F.fns.items():
        if not fn.has_body:
            continue
        for bi, tcall in fn.calls():
            c = tcall["callee"]
            if not c.get("foreign"):
                continue
            sites += 1
            sym = c["path"].split("::")[-1]
            fi = F.foreign.get(sym)
            e = val(fn.expr_call(tcall))
            args = e[2]
            pn = {nm: ("arg", i, nm) for i, nm in fn.names.items() if 1 <= i <= fn.argc}
            want = {}
            def oc(x):
                """x itself or its unsizing coercion to a slice"""
                return W(pred=lambda e, x=x: x is not None and (unify(x, e) is not None or (isinstance(e, tuple) and e and e[0] == "cast" and unify(x, e[1]) is not None)))
            AP = lambda x: ("call", name_has("as_ptr"), (oc(x),))
            AMP = lambda x: ("call", name_has("as_mut_ptr"), (oc(x),))
            for nm in fi["param_names"] if fi else []:
                if nm in ("block_len", "counter", "flags", "flags_start", "flags_end"):
                    want[nm] = pn.get(nm)
                elif nm == "cv":
                    want[nm] = (AMP if fi["params"][fi["param_names"].index(nm)].startswith("*mut") else AP)(pn.get("cv"))
                elif nm == "block":
                    want[nm] = AP(pn.get("block"))
                elif nm == "key":
                    want[nm] = AP(pn.get("key"))
                elif nm == "inputs":
                    want[nm] = P.cast(AP(pn.get("inputs")), W())
                elif nm == "num_inputs":
                    want[nm] = ("call", name_ends("::len"), (pn.get("inputs"),))
                elif nm == "blocks":
                    want[nm] = P.bin("Div", ("const", W(), W(pred=lambda v: True)), P.named("BLOCK_LEN"))
                elif nm == "increment_counter":
                    want[nm] = P.call("IncrementCounter::yes", pn.get("increment_counter"))
                elif nm == "out":
                    want[nm] = AMP(pn["out"]) if "out" in pn else AMP(("built", W(), "out"))
                elif nm == "outblocks":
                    want[nm] = P.bin("Div", ("call", name_ends("::len"), (pn.get("out"),)), P.named("BLOCK_LEN"))
            for i, nm in enumerate(fi["param_names"] if fi else []):
                pat = want.get(nm)
                ok = pat is not None and i < len(args) and unify(pat, args[i]) is not None
                if nm == "blocks" and i < len(args):
                    ok = args[i][0] == "bin" and args[i][1] == "Div" and args[i][3] == ("const", "BLOCK_LEN", 64) and args[i][2][0] == "const" and args[i][2][1] is None
                ctx.ob(ok, "ffi-arg:%s:%s" % (sym, nm), tcall.get("s"), "argument `%s` = %s" % (nm, show(args[i])[:100] if i < len(args) else "missing"))
            # M3: length guard before hash_many
            if "hash_many" in sym:
                gs = guards_at(fn, bi)
                OUT, INP = pn.get("out"), pn.get("inputs")
                need = P.bin("Mul", ("call", name_ends("::len"), (INP,)), P.named("OUT_LEN"))
                ok = has_cmp_guard(gs, "Le", need, ("call", name_ends("::len"), (OUT,))) is not None or has_guard(gs, P.bin("Ge", ("call", name_ends("::len"), (OUT,)), need), True) is not None
                ctx.ob(ok, "ffi-out-length-guard:%s" % sym, tcall.get("s"), "assert!(out.len() >= inputs.len() * OUT_LEN) dominates the FFI call: %s" % ok)
    ctx.floor("FFI call sites", sites, {"asm": 11, "neon1": 1}.get(F.cfg_flavour(), 4))


def rule_M3(ctx, F):
    """Rust intrinsics kernels: slice -> fixed array reinterpretation is guarded by the same DEGREE"""
    n = 0
    for mod in ("sse2", "sse41", "avx2"):
        fn = F.fn("%s::hash_many" % mod)
        if fn is None or any(t["callee"].get("foreign") for _, t in fn.calls()):
            continue
        deg = F.consts.get("%s::DEGREE" % mod, {}).get("val")
        for bi, si, s in fn.stmts():
            if s["k"] != "assign" or s["rv"]["k"] != "cast" or "PtrToPtr" not in s["rv"]["kind"]:
                continue
            m = re.match(r"\*const \[\*const u8; (\d+)\]", s["rv"]["ty"])
            if not m:
                continue
            n += 1
            k = int(m.group(1))
            gs = guards_at(fn, bi)
            INP = ("phi", W(), "inputs")
            ok = has_cmp_guard(gs, "Le", ("const", W(), W(pred=lambda v: v == k)), ("call", name_ends("::len"), (W(),))) is not None or \
                has_guard(gs, P.bin("Ge", ("call", name_ends("::len"), (W(),)), ("const", W(), W(pred=lambda v: v == k))), True) is not None
            ctx.ob(ok and (k == deg or k < (deg or 0)), "reinterpret-guard:%s:%d" % (mod, k), s.get("s"),
                   "&*(inputs.as_ptr() as *const [*const u8; %d]) dominated by inputs.len() >= %d (module DEGREE %s): %s" % (k, k, deg, ok))
    if F.cfg_flavour() in ("pure", "intrinsics"):
        ctx.floor("slice->array reinterpretations in the Rust kernels", n, 3)
