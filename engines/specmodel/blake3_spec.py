"""Checker-side BLAKE3 model written from the BLAKE3 paper (sections 2.1-2.6), NOT from the
repository.  Used only for artefacts that are *data* (constants, tables, test_vectors.json).
Pure Python, no dependencies."""
import math

MASK = 0xFFFFFFFF
PRIMES = [2, 3, 5, 7, 11, 13, 17, 19]
# IV = first 32 bits of the fractional parts of the square roots of the first 8 primes
IV = [math.isqrt(p << 64) & MASK for p in PRIMES]
# Table 2 of the paper: the message word permutation applied between rounds
SIGMA = [2, 6, 3, 10, 7, 0, 4, 13, 1, 11, 12, 5, 9, 14, 15, 8]
ROUNDS = 7
CHUNK_START, CHUNK_END, PARENT, ROOT, KEYED_HASH, DERIVE_KEY_CONTEXT, DERIVE_KEY_MATERIAL = (1 << i for i in range(7))
BLOCK_LEN, CHUNK_LEN, OUT_LEN, KEY_LEN = 64, 1024, 32, 32
ROTATIONS = (16, 12, 8, 7)
# G is applied to the 4 columns, then the 4 diagonals (state index quadruples)
G_INDEX = [(0, 4, 8, 12), (1, 5, 9, 13), (2, 6, 10, 14), (3, 7, 11, 15),
           (0, 5, 10, 15), (1, 6, 11, 12), (2, 7, 8, 13), (3, 4, 9, 14)]


def msg_schedule():
    """MSG_SCHEDULE[r][i] = index into the ORIGINAL block words used as word i in round r"""
    s = [list(range(16))]
    for _ in range(ROUNDS - 1):
        prev = s[-1]
        s.append([prev[SIGMA[i]] for i in range(16)])
    return s


def rotr(x, n):
    return ((x >> n) | (x << (32 - n))) & MASK


def g(v, a, b, c, d, mx, my):
    v[a] = (v[a] + v[b] + mx) & MASK
    v[d] = rotr(v[d] ^ v[a], 16)
    v[c] = (v[c] + v[d]) & MASK
    v[b] = rotr(v[b] ^ v[c], 12)
    v[a] = (v[a] + v[b] + my) & MASK
    v[d] = rotr(v[d] ^ v[a], 8)
    v[c] = (v[c] + v[d]) & MASK
    v[b] = rotr(v[b] ^ v[c], 7)


def compress(cv, block_words, counter, block_len, flags):
    v = list(cv) + IV[:4] + [counter & MASK, (counter >> 32) & MASK, block_len, flags]
    m = list(block_words)
    for r in range(ROUNDS):
        for i, (a, b, c, d) in enumerate(G_INDEX):
            g(v, a, b, c, d, m[2 * i], m[2 * i + 1])
        if r != ROUNDS - 1:
            m = [m[SIGMA[i]] for i in range(16)]
    out = [v[i] ^ v[i + 8] for i in range(8)] + [v[i + 8] ^ cv[i] for i in range(8)]
    return out


def words(b):
    b = b + bytes(-len(b) % 4)
    return [int.from_bytes(b[i:i + 4], "little") for i in range(0, len(b), 4)]


def unwords(w):
    return b"".join(x.to_bytes(4, "little") for x in w)


class Output:
    def __init__(self, cv, block_words, counter, block_len, flags):
        self.cv, self.bw, self.counter, self.block_len, self.flags = cv, block_words, counter, block_len, flags

    def chaining_value(self):
        return compress(self.cv, self.bw, self.counter, self.block_len, self.flags)[:8]

    def root_bytes(self, n, seek=0):
        out = b""
        blk = seek // 64
        while len(out) < n + (seek % 64):
            out += unwords(compress(self.cv, self.bw, blk, self.block_len, self.flags | ROOT))
            blk += 1
        return out[seek % 64: seek % 64 + n]


def chunk_output(key, chunk, counter, flags):
    cv = list(key)
    blocks = [chunk[i:i + 64] for i in range(0, len(chunk), 64)] or [b""]
    for i, blk in enumerate(blocks):
        f = flags | (CHUNK_START if i == 0 else 0)
        bw = words(blk.ljust(64, b"\0"))
        if i == len(blocks) - 1:
            return Output(cv, bw, counter, len(blk), f | CHUNK_END)
        cv = compress(cv, bw, counter, 64, f)[:8]


def parent_output(left_cv, right_cv, key, flags):
    return Output(list(key), left_cv + right_cv, 0, 64, flags | PARENT)


def subtree_output(key, data, first_chunk, flags):
    """section 2.1: left subtree = largest power of two of chunks strictly less than the total"""
    if len(data) <= CHUNK_LEN:
        return chunk_output(key, data, first_chunk, flags)
    nchunks = (len(data) + CHUNK_LEN - 1) // CHUNK_LEN
    left_chunks = 1 << ((nchunks - 1).bit_length() - 1)
    left = data[:left_chunks * CHUNK_LEN]
    right = data[left_chunks * CHUNK_LEN:]
    l = subtree_output(key, left, first_chunk, flags).chaining_value()
    r = subtree_output(key, right, first_chunk + left_chunks, flags).chaining_value()
    return parent_output(l, r, key, flags)


def blake3(data, n=32, key=None, context=None, seek=0):
    if key is not None:
        kw, flags = words(key), KEYED_HASH
    elif context is not None:
        ck = subtree_output(IV, context.encode(), 0, DERIVE_KEY_CONTEXT).root_bytes(32)
        kw, flags = words(ck), DERIVE_KEY_MATERIAL
    else:
        kw, flags = IV, 0
    return subtree_output(kw, data, 0, flags).root_bytes(n, seek)


if __name__ == "__main__":
    # self-consistency anchors taken from the paper / RFC-style known answers
    assert IV == [0x6A09E667, 0xBB67AE85, 0x3C6EF372, 0xA54FF53A, 0x510E527F, 0x9B05688C, 0x1F83D9AB, 0x5BE0CD19]
    # BLAKE3("") known answer (published on the BLAKE3 README)
    assert blake3(b"").hex() == "af1349b9f5f9a1a6a0404dea36dcc9499bcb25c9adc112b7cc9a93cae41f3262", blake3(b"").hex()
    print("spec model ok")
