"""E4: assembly ABI analyser.  Each c/*.S is ASSEMBLED (clang -c), never run; llvm-objdump's
disassembly is parsed into per-symbol CFGs and a forward dataflow tracks stack height, pushes,
callee-saved register saves/restores, caller-frame accesses and alignment-sensitive accesses."""
import hashlib
import os
import re
import subprocess
import sys

VERIF = os.path.dirname(os.path.dirname(os.path.dirname(os.path.abspath(__file__))))
REPO = os.environ.get("VERIF_REPO", "/repo")
sys.path.insert(0, os.path.join(VERIF, "engines"))
import extract  # noqa: E402

ISAS = ["sse2", "sse41", "avx2", "avx512"]
FLAVOURS = {"unix": [], "windows_gnu": ["--target=x86_64-pc-windows-gnu"], "windows_msvc": ["--target=x86_64-pc-windows-gnu"]}


def obj_for(isa, flavour):
    src = os.path.join(REPO, "c", "blake3_%s_x86-64_%s.%s" % (isa, flavour, "asm" if flavour == "windows_msvc" else "S"))
    if not os.path.exists(src):
        raise FileNotFoundError(src)
    d = os.path.join(extract.cache_dir(), "asm")
    os.makedirs(d, exist_ok=True)
    o = os.path.join(d, "%s_%s.o" % (isa, flavour))
    if not os.path.exists(o) and flavour == "windows_msvc":
        # MASM source: rewritten directive-by-directive into GNU intel syntax (masm2gas.py), then assembled like the others
        import masm2gas
        gas = os.path.join(d, "%s_%s.S" % (isa, flavour))
        with open(gas, "w") as fh:
            fh.write(masm2gas.translate(open(src).read()))
        r = subprocess.run(["clang", "-c"] + FLAVOURS[flavour] + [gas, "-o", o + ".tmp"], capture_output=True, text=True)
        if r.returncode:
            raise SystemExit("EXTRACTION-FAILED assembling the translation of %s: %s" % (src, r.stderr[-800:]))
        os.rename(o + ".tmp", o)
    if not os.path.exists(o):
        r = subprocess.run(["clang", "-c"] + FLAVOURS[flavour] + [src, "-o", o + ".tmp"], capture_output=True, text=True)
        if r.returncode:
            raise SystemExit("EXTRACTION-FAILED assembling %s: %s" % (src, r.stderr[-800:]))
        os.rename(o + ".tmp", o)
    return o, src


def run(cmd):
    return subprocess.run(cmd, capture_output=True, text=True, check=True).stdout


class Insn:
    __slots__ = ("addr", "mn", "ops", "reloc", "raw", "size", "reloc_addr", "reloc_type")

    def __init__(self, addr, mn, ops, raw):
        self.addr, self.mn, self.ops, self.raw, self.reloc, self.size = addr, mn, ops, raw, None, 0
        self.reloc_addr = self.reloc_type = None


def split_ops(s):
    out, depth, cur = [], 0, ""
    for ch in s:
        if ch in "[{":
            depth += 1
        if ch in "]}":
            depth -= 1
        if ch == "," and depth == 0:
            out.append(cur.strip())
            cur = ""
        else:
            cur += ch
    if cur.strip():
        out.append(cur.strip())
    return out


class Obj:
    def __init__(self, isa, flavour):
        self.isa, self.flavour = isa, flavour
        self.path, self.src = obj_for(isa, flavour)
        self.funcs = {}      # name -> [Insn]
        self.sections = {}   # name -> (size, type)
        self.symbols = {}    # name -> (section, value)
        self._parse()

    def _parse(self):
        txt = run(["llvm-objdump", "-d", "-r", "--x86-asm-syntax=intel", "--no-show-raw-insn", self.path])
        cur = None
        last = None
        for line in txt.splitlines():
            m = re.match(r"^([0-9a-f]+) <([^>]+)>:$", line)
            if m:
                cur = m.group(2)
                self.funcs[cur] = []
                continue
            m = re.match(r"^\s+([0-9a-f]+):\s+(IMAGE_REL_\w+|R_X86_64_\w+)\s+(\S+)", line)
            if m and last is not None:
                last.reloc = m.group(3)
                last.reloc_addr = int(m.group(1), 16)
                last.reloc_type = m.group(2)
                continue
            m = re.match(r"^\s+([0-9a-f]+):\s*\t([a-z0-9]+)(?:\t(.*))?$", line)
            if m and cur is not None:
                ops = m.group(3) or ""
                ops = ops.split("#")[0].strip()
                ins = Insn(int(m.group(1), 16), m.group(2), split_ops(ops), line.strip())
                self.funcs[cur].append(ins)
                last = ins
        for name, ins in self.funcs.items():
            for a, b in zip(ins, ins[1:]):
                a.size = b.addr - a.addr
        h = run(["llvm-objdump", "-h", self.path])
        for line in h.splitlines():
            m = re.match(r"^\s*\d+\s+(\S+)\s+([0-9a-f]{8})\s+[0-9a-f]+\s*(.*)$", line)
            if m:
                self.sections[m.group(1)] = (int(m.group(2), 16), m.group(3).strip())
        t = run(["llvm-objdump", "-t", self.path])
        for line in t.splitlines():
            m = re.match(r"^([0-9a-f]{16})\s+\S+\s+\S*\s*(\.\w+)\s+[0-9a-f]+\s+(\S+)$", line) or re.match(r"^([0-9a-f]{16})\s+\S+\s+(\.\w+)\s+[0-9a-f]+\s+(\S+)$", line)
            if m:
                self.symbols[m.group(3)] = (m.group(2), int(m.group(1), 16))
            else:
                m = re.match(r"^\[\s*\d+\]\(sec\s+(-?\d+)\).*0x([0-9a-f]+)\s+(\S+)$", line)
                if m:
                    self.symbols[m.group(3)] = (int(m.group(1)), int(m.group(2), 16))

    def section_bytes(self, name):
        if not hasattr(self, "_secbytes"):
            self._secbytes = {}
        if name not in self._secbytes:
            self._secbytes[name] = self._section_bytes(name)
        return self._secbytes[name]

    def _section_bytes(self, name):
        out = run(["llvm-objdump", "-s", "-j", name, self.path])
        data = bytearray()
        for line in out.splitlines():
            m = re.match(r"^\s([0-9a-f]+)\s((?:[0-9a-f]+\s)+)", line)
            if m:
                data += bytes.fromhex(m.group(2).replace(" ", ""))
        return bytes(data)


# ---------------------------------------------------------------- registers / operands ----
GPR64 = ["rax", "rbx", "rcx", "rdx", "rsi", "rdi", "rbp", "rsp"] + ["r%d" % i for i in range(8, 16)]
SUB = {}
for r in ["ax", "bx", "cx", "dx"]:
    SUB["e" + r] = "r" + r
    SUB[r] = "r" + r
    SUB[r[0] + "l"] = "r" + r
    SUB[r[0] + "h"] = "r" + r
for r in ["si", "di", "bp", "sp"]:
    SUB["e" + r] = "r" + r
    SUB[r] = "r" + r
    SUB[r + "l"] = "r" + r
for i in range(8, 16):
    for suf in ("d", "w", "b"):
        SUB["r%d%s" % (i, suf)] = "r%d" % i


def canon_reg(x):
    x = x.strip()
    x = re.sub(r"\s*\{[^}]*\}", "", x)      # EVEX mask / zeroing decorations
    if x in GPR64:
        return x
    if x in SUB:
        return SUB[x]
    m = re.fullmatch(r"[xyz]mm(\d+)", x)
    if m:
        return "xmm%s" % m.group(1)
    m = re.fullmatch(r"k(\d)", x)
    if m:
        return x
    return None


def mem_operand(x):
    """('mem', base, index, disp, width) or None"""
    m = re.search(r"(?:(byte|word|dword|qword|xmmword|ymmword|zmmword)\s+ptr\s+)?\[([^\]]+)\]", x)
    if not m:
        return None
    width = {"byte": 1, "word": 2, "dword": 4, "qword": 8, "xmmword": 16, "ymmword": 32, "zmmword": 64, None: 0}[m.group(1)]
    inner = m.group(2)
    base = index = None
    disp = 0
    for tok in re.findall(r"[+-]?\s*[^+-]+", inner):
        t = tok.replace(" ", "")
        sign = -1 if t.startswith("-") else 1
        t = t.lstrip("+-")
        if re.fullmatch(r"(0x[0-9a-f]+|\d+)", t):
            disp += sign * int(t, 0)
        elif "*" in t:
            index = t
        elif base is None:
            base = t
        else:
            index = t
    return ("mem", base, index, disp, width)


NO_WRITE = {"cmp", "test", "push", "ret", "nop", "vzeroupper", "ucomiss", "bt", "jmp", "prefetcht0", "prefetcht1", "prefetcht2", "prefetchnta"}


def is_jump(mn):
    return mn == "jmp" or (mn.startswith("j") and mn not in ("jmp",))


def writes(ins):
    """registers (canonical) written by the instruction -- destination-first convention of Intel syntax"""
    mn = ins.mn
    if mn in NO_WRITE or is_jump(mn):
        return set()
    if mn == "pop":
        return {canon_reg(ins.ops[0])} if ins.ops else set()
    if mn == "xchg":
        return set(r for r in (canon_reg(o) for o in ins.ops) if r)
    if mn in ("mul", "div", "imul") and len(ins.ops) == 1:
        return {"rax", "rdx"}
    if mn in ("cpuid",):
        return {"rax", "rbx", "rcx", "rdx"}
    if not ins.ops:
        return set()
    d = ins.ops[0]
    if mem_operand(d) is not None and canon_reg(d) is None:
        return set()
    r = canon_reg(d)
    return {r} if r else set()


KNOWN_MNEMONICS = None


# ---------------------------------------------------------------- ABI dataflow ----
CALLEE_GPR = {"unix": ["rbx", "rbp", "r12", "r13", "r14", "r15"], "windows_gnu": ["rbx", "rbp", "rsi", "rdi", "r12", "r13", "r14", "r15"]}
CALLEE_XMM = {"unix": [], "windows_gnu": ["xmm%d" % i for i in range(6, 16)]}
CALLEE_GPR["windows_msvc"] = CALLEE_GPR["windows_gnu"]      # the same Win64 convention
CALLEE_XMM["windows_msvc"] = CALLEE_XMM["windows_gnu"]
ALIGN_AGNOSTIC = {"mov", "movzx", "movd", "movq", "movdqu", "movups", "prefetcht0", "prefetcht1", "prefetcht2", "prefetchnta", "lea", "cmp", "add", "movsx"}


class State:
    __slots__ = ("base", "delta", "rbp", "pushed", "saved_x", "dirty", "nframe", "loaded")

    def __init__(self):
        self.base, self.delta = "E", 0        # rsp = <base> - delta ; base 'E' = rsp at entry
        self.rbp = None                        # (base, delta) captured by `mov rbp, rsp`
        self.pushed = ()                       # ((reg, (base, delta_after_push)), ...)
        self.saved_x = ()                      # ((xmmN, (base, addr)), ...)  addr relative to base
        self.dirty = frozenset()               # callee-saved regs written and not yet restored
        self.nframe = 0
        self.loaded = ()                       # ((reg, slot), ...): reg holds an unmodified copy of frame slot

    def key(self):
        return (self.base, self.delta, self.rbp, self.pushed, self.saved_x, self.dirty, self.nframe)

    def copy(self):
        s = State()
        for a in State.__slots__:
            setattr(s, a, getattr(self, a))
        return s


def slot_addr(st, mem):
    """address of an rsp-/rbp-relative memory operand as (base, offset) with offset relative to base"""
    if mem[1] == "rsp" and mem[2] is None:
        return (st.base, mem[3] - st.delta)
    if mem[1] == "rbp" and mem[2] is None and st.rbp is not None:
        return (st.rbp[0], mem[3] - st.rbp[1])
    return None


def analyse(obj, fname, stack_args):
    """stack_args: {entry-relative offset: (width, name)} of the C prototype for this flavour.
    Returns list of (rule, instance, ok, where, detail)."""
    ins = obj.funcs[fname]
    fl = obj.flavour
    idx = {i.addr: n for n, i in enumerate(ins)}
    res = []
    seen_issue = set()

    def issue(rule, inst, where, detail):
        k = (rule, inst)
        if k not in seen_issue:
            seen_issue.add(k)
            res.append((rule, inst, False, where, detail))
    cg, cx = CALLEE_GPR[fl], CALLEE_XMM[fl]
    work = [(0, State())]
    visited = {}
    nret = 0
    arg_reads = {}
    caller_mem_kinds = set()
    rets_ok = []
    while work:
        n, st = work.pop()
        while True:
            if n >= len(ins):
                issue("A2", "falls-off-end", "%s+0x%x" % (fname, ins[-1].addr - ins[0].addr), "control flow runs past the last instruction")
                break
            k = st.key()
            if n in visited:
                old = visited[n]
                if old[:5] + old[6:] != k[:5] + k[6:]:
                    issue("A2", "inconsistent-state-at-merge", "%s+0x%x" % (fname, ins[n].addr - ins[0].addr),
                          "paths reach this instruction with different stack heights / save areas: %s vs %s" % (old[:2], k[:2]))
                    break
                if k[5] <= old[5]:
                    break
                # more callee-saved registers are dirty on this path: join (union) and re-propagate
                st = st.copy()
                st.dirty = old[5] | k[5]
                k = st.key()
            visited[n] = k
            i = ins[n]
            where = "%s:%s+0x%x" % (os.path.basename(obj.src), fname, i.addr - ins[0].addr)
            mn, ops = i.mn, i.ops
            st = st.copy()
            w = writes(i)
            if w:
                st.loaded = tuple(x for x in st.loaded if x[0] not in w)
            # ---- memory operands: caller frame, alignment, stores
            for oi, o in enumerate(ops):
                mem = mem_operand(o)
                if mem is None or mn == "lea":
                    continue
                is_store = oi == 0 and canon_reg(o) is None and mn not in NO_WRITE
                base = mem[1]
                if base in ("rsp", "rbp"):
                    sa = slot_addr(st, mem)
                    if sa is not None and sa[0] == "E" and sa[1] >= 8:
                        exp = stack_args.get(sa[1])
                        if exp is None:
                            issue("A4", "caller-frame-access@%d" % sa[1], where, "%s touches [entry_rsp+%d], which is not a stack argument of the prototype (%s)" % (i.raw.split("\t", 1)[-1], sa[1], sorted(stack_args)))
                        else:
                            arg_reads[sa[1]] = max(arg_reads.get(sa[1], 0), mem[4])
                            if not is_store and mem[4] > exp[0] and not (mem[4] and exp[0] == 8 and mem[4] <= 8):
                                issue("A4", "arg-width:%s" % exp[1], where, "reads %d bytes of stack argument `%s` (prototype width %d): upper bytes are unspecified" % (mem[4], exp[1], exp[0]))
                    # A9: redundant self-copy of a frame slot (load r<-S ... store S<-r, r unmodified)
                    if sa is not None and len(ops) == 2:
                        other = canon_reg(ops[1 - oi])
                        if other:
                            if not is_store and oi == 1:
                                st.loaded = tuple(x for x in st.loaded if x[0] != other) + ((other, sa),)
                            elif is_store and (other, sa) not in st.loaded:
                                st.loaded = tuple(x for x in st.loaded if x[1] != sa)
                            elif is_store and (other, sa) in st.loaded:
                                issue("A9", "self-copy", where, "%s stores back the value just loaded from the same frame slot -- the neighbouring slot was probably meant" % i.raw.split("\t", 1)[-1].strip())
                elif base == "rip":
                    pass
                else:
                    caller_mem_kinds.add(mn)
                    vex = mn.startswith("v")
                    bad = (not vex and mn not in ALIGN_AGNOSTIC and mem[4] >= 16) or (vex and (mn.startswith("vmovdqa") or mn.startswith("vmovap") or mn.startswith("vmovnt")))
                    if bad:
                        issue("A7", "aligned-access:%s" % mn, where, "%s requires an aligned address but the base register %s is caller memory" % (i.raw.split("\t", 1)[-1].strip(), base))
            # ---- forbidden
            if mn in ("std", "call", "syscall", "int", "cld") or mn.startswith("wr") or mn in ("cli", "sti"):
                issue("A5", "forbidden:%s" % mn, where, "%s in a leaf kernel" % mn)
            # ---- stack pointer arithmetic
            if mn == "push":
                st.delta += 8
                r = canon_reg(ops[0])
                st.pushed = st.pushed + ((r, (st.base, st.delta)),)
            elif mn == "pop":
                r = canon_reg(ops[0])
                if not st.pushed or st.pushed[-1][1] != (st.base, st.delta):
                    issue("A1", "pop-mismatch:%s" % r, where, "pop %s with stack top %s at height %s" % (r, st.pushed[-1:] , (st.base, st.delta)))
                else:
                    pr = st.pushed[-1][0]
                    if pr != r:
                        issue("A1", "pop-wrong-register:%s" % r, where, "pop %s restores the slot that saved %s" % (r, pr))
                    st.pushed = st.pushed[:-1]
                    st.dirty = st.dirty - {r}
                st.delta -= 8
            elif mn in ("sub", "add") and ops and canon_reg(ops[0]) == "rsp":
                m = re.fullmatch(r"-?(0x[0-9a-f]+|\d+)", ops[1])
                if not m:
                    issue("A2", "rsp-arith-nonconstant", where, i.raw)
                else:
                    v = int(ops[1], 0)
                    st.delta += v if mn == "sub" else -v
            elif mn == "and" and ops and canon_reg(ops[0]) == "rsp":
                if st.rbp is None:
                    issue("A2", "realign-without-frame-pointer", where, "and rsp, .. without a saved frame pointer")
                st.nframe += 1
                st.base, st.delta = "A%d" % st.nframe, 0
            elif mn == "mov" and len(ops) == 2 and canon_reg(ops[0]) == "rbp" and ops[1] == "rsp":
                st.rbp = (st.base, st.delta)
            elif mn == "mov" and len(ops) == 2 and ops[0] == "rsp" and canon_reg(ops[1]) == "rbp":
                if st.rbp is None:
                    issue("A2", "rsp-from-unset-rbp", where, "mov rsp, rbp before rbp was set")
                else:
                    st.base, st.delta = st.rbp
            elif "rsp" in w:
                issue("A2", "rsp-written", where, "unmodelled write to rsp: %s" % i.raw.split("\t", 1)[-1])
            # ---- xmm6-15 saves / reloads (Win64)
            if cx and len(ops) == 2 and (mn.startswith("mov") or mn.startswith("vmov")):
                d, s_ = ops
                dm, sm = mem_operand(d), mem_operand(s_)
                rd, rs = canon_reg(d), canon_reg(s_)
                if dm and rs in cx and canon_reg(d) is None:
                    sa = slot_addr(st, dm)
                    if sa is not None and rs not in st.dirty and rs not in dict(st.saved_x):
                        st.saved_x = st.saved_x + ((rs, sa),)
                if sm and rd in cx and canon_reg(s_) is None:
                    sa = slot_addr(st, sm)
                    sv = dict(st.saved_x).get(rd)
                    if sa is not None and sv == sa:
                        st.dirty = st.dirty - {rd}
                        w = w - {rd}
            # ---- callee-saved writes
            for r in w:
                if r in cg and mn != "pop":
                    if r not in [p[0] for p in st.pushed]:
                        issue("A1", "clobber:%s" % r, where, "%s is callee-saved in the %s convention and is written (%s) without having been pushed" % (r, fl, i.raw.split("\t", 1)[-1].strip()))
                    st.dirty = st.dirty | {r}
                if r in cx:
                    if r not in dict(st.saved_x):
                        issue("A3", "clobber:%s" % r, where, "%s is callee-saved on Win64 and is written (%s) before being spilled to the frame" % (r, i.raw.split("\t", 1)[-1].strip()))
                    st.dirty = st.dirty | {r}
            # ---- control flow
            if mn == "ret":
                nret += 1
                ok = (st.base, st.delta) == ("E", 0)
                if not ok:
                    issue("A2", "ret-stack-height", where, "ret with rsp = %s-%d instead of the entry value" % (st.base, st.delta))
                left = sorted(st.dirty)
                if left:
                    issue("A1" if any(r in cg for r in left) else "A3", "ret-unrestored:%s" % ",".join(left), where, "ret with modified callee-saved register(s) %s not restored" % left)
                if st.pushed:
                    issue("A1", "ret-with-pushes", where, "ret with %d pushed register(s) still on the stack" % len(st.pushed))
                rets_ok.append(ok and not left)
                break
            if is_jump(mn):
                tgt = None
                m = re.match(r"(0x[0-9a-f]+)", ops[0]) if ops else None
                if m:
                    tgt = idx.get(int(m.group(1), 16))
                if tgt is None:
                    issue("A5", "indirect-or-external-jump", where, i.raw)
                    break
                if mn == "jmp":
                    n = tgt
                    continue
                work.append((tgt, st.copy()))
            n += 1
    unvisited = [i for n, i in enumerate(ins) if n not in visited and i.mn != "nop" and not i.mn.startswith("int") and i.mn != "ud2"]
    info = dict(instructions=len(ins), visited=len(visited), rets=nret, stack_args_read=dict(arg_reads), caller_memory_mnemonics=sorted(caller_mem_kinds), unvisited=len(unvisited))
    return res, info
