"""Mechanical MASM -> GNU (intel syntax) translation of c/*_windows_msvc.asm so that the third assembly flavour can be
assembled by clang and analysed like the other two.  Only directives and literal syntax are rewritten; every
instruction line keeps its mnemonic and operands."""
import re


def translate(text):
    lines = text.split("\n")
    # data labels (defined inside the read-only segment) -> rip-relative operands
    data_labels = set()
    in_data = False
    for l in lines:
        s = l.split(";")[0].strip()
        if re.match(r"_RDATA\s+SEGMENT", s):
            in_data = True
        elif re.match(r"_RDATA\s+ENDS", s):
            in_data = False
        elif in_data:
            m = re.match(r"([A-Za-z_][A-Za-z_0-9]*):", s)
            if m:
                data_labels.add(m.group(1))
    # code labels other than the procedure entry points become assembler-local (.L) so that each procedure stays one symbol
    procs = set()
    for l in lines:
        t = l.split(";")[0].strip()
        m = re.match(r"(\S+)\s+PROC$", t) or re.match(r"public\s+(\S+)", t, re.I)
        if m:
            procs.add(m.group(1))
    local = set()
    for l in lines:
        t = l.split(";")[0].strip()
        m = re.match(r"([A-Za-z_][A-Za-z_0-9]*):$", t)
        if m and m.group(1) not in procs and m.group(1) not in data_labels:
            local.add(m.group(1))
    if local:
        pat = re.compile(r"\b(%s)\b" % "|".join(sorted(local, key=len, reverse=True)))
        lines = [pat.sub(lambda mm: ".L_" + mm.group(1), l.split(";")[0]) for l in lines]
    # anonymous labels
    anon = [i for i, l in enumerate(lines) if l.split(";")[0].strip() == "@@:"]
    out = [".intel_syntax noprefix"]

    def hexfix(s):
        return re.sub(r"\b([0-9][0-9A-Fa-f]*)[Hh]\b", lambda m: "0x" + m.group(1), s)
    for i, raw in enumerate(lines):
        s = raw.split(";")[0].rstrip()
        t = s.strip()
        if not t:
            continue
        m = re.match(r"public\s+(\S+)", t, re.I)
        if m:
            out.append(".global %s" % m.group(1))
            continue
        if re.match(r"_TEXT\s+SEGMENT", t):
            out.append(".text")
            continue
        if re.match(r"_RDATA\s+SEGMENT", t):
            out.append('.section .rdata,"dr"')
            continue
        if re.match(r"\S+\s+ENDS$", t) or t == "END":
            continue
        m = re.match(r"(\S+)\s+PROC$", t)
        if m:
            out.append("%s:" % m.group(1))
            continue
        if re.match(r"\S+\s+ENDP$", t):
            continue
        m = re.match(r"ALIGN\s+(\d+)$", t, re.I)
        if m:
            out.append(".p2align %d" % (int(m.group(1)).bit_length() - 1))
            continue
        if t == "@@:":
            out.append(".Lanon_%d:" % anon.index(i))
            continue
        m = re.match(r"(d[bdq])\s+(.*)$", t)
        if m:
            kind = {"db": ".byte", "dd": ".long", "dq": ".quad"}[m.group(1)]
            items = []
            for part in re.split(r",(?![^()]*\))", m.group(2)):
                part = part.strip()
                md = re.match(r"(\d+)\s*dup\s*\(\s*([^)]+?)\s*\)$", part)
                if md:
                    items += [hexfix(md.group(2))] * int(md.group(1))
                else:
                    items.append(hexfix(part))
            out.append("%s %s" % (kind, ", ".join(items)))
            continue
        t2 = hexfix(s)
        if "@F" in t2:
            nxt = [k for k, a in enumerate(anon) if a > i]
            t2 = t2.replace("@F", ".Lanon_%d" % nxt[0])
        if "@B" in t2:
            prv = [k for k, a in enumerate(anon) if a < i]
            t2 = t2.replace("@B", ".Lanon_%d" % prv[-1])

        def riprel(mm):
            inner = mm.group(1)
            lab = re.match(r"([A-Za-z_][A-Za-z_0-9]*)", inner)
            if lab and lab.group(1) in data_labels:
                return "[%s+rip]" % inner
            return mm.group(0)
        t2 = re.sub(r"\[([^\]]+)\]", riprel, t2)
        out.append(t2)
    return "\n".join(out) + "\n"
