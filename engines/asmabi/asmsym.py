"""Lane-precise symbolic value numbering of x86-64 SIMD code regions (engine for R1asm).

Nothing is executed and no solver is involved: a region (a basic block, or a function whose only
loops have a constant trip count decided by constant propagation) is evaluated over hash-consed
terms -- every vector register is 16 lanes of 32-bit terms, every general register a linear form
over opaque 64-bit symbols -- with the exact lane semantics of every shuffle / blend / permute /
broadcast / insert / extract instruction the kernels use.  An instruction or operand form that is
not modelled raises Unsupported (the rule fails closed).  The resulting output terms are compared
structurally with the terms the spec model generates."""
import os
import re
import struct
import sys

VERIF = os.path.dirname(os.path.dirname(os.path.dirname(os.path.abspath(__file__))))
sys.path.insert(0, os.path.join(VERIF, "engines", "rules"))
from symexec import Terms  # noqa: E402
import asmabi  # noqa: E402
from asmabi import canon_reg, mem_operand  # noqa: E402

M64 = (1 << 64) - 1
M32 = (1 << 32) - 1


class Unsupported(Exception):
    pass


class Stop(Exception):
    """evaluation reached an undecidable branch or a stop address"""
    def __init__(self, why, insn=None, cond=None, target=None):
        Exception.__init__(self, why)
        self.why, self.insn, self.cond, self.target = why, insn, cond, target


class G:
    """64-bit value: linear form sum(coeff * sym) + const (mod 2^64); syms are Terms ids"""
    __slots__ = ("items", "c")

    def __init__(self, items=None, c=0):
        self.items = {k: v % (1 << 64) for k, v in (items or {}).items() if v % (1 << 64)}
        self.c = c & M64

    def is_const(self):
        return not self.items

    def key(self):
        return (tuple(sorted(self.items.items())), self.c)

    def add(self, o, sign=1):
        it = dict(self.items)
        for k, v in o.items.items():
            it[k] = (it.get(k, 0) + sign * v) % (1 << 64)
        return G(it, self.c + sign * o.c)

    def scale(self, m):
        return G({k: v * m for k, v in self.items.items()}, self.c * m)

    def __repr__(self):
        return "G(%s,%#x)" % (self.items, self.c)


def vec_width(name):
    return {"x": 4, "y": 8, "z": 16}[name[0]]


class Machine:
    def __init__(self, obj, T=None, frame_base="rsp", arg_base="rbp"):
        self.obj = obj
        self.T = T or Terms()
        self.gpr = {}
        self.vec = {}
        self.k = {}
        self.flags = None
        self.lowbyte = {}          # reg -> concrete low byte set by `mov al, imm`
        self.small = set()         # syms known < 2^32
        self.frame = {}            # (basekey, off) -> 32-bit term   (dword granular)
        self.frame64 = {}          # (basekey, off) -> G
        self.stores = []           # (addr G, [lane terms]) to non-frame memory, in order
        self.loads = []            # (addr key, width) external loads
        self.frame_syms = {}
        self.rodata = None
        self.trace = 0
        self.frame_regs = {}       # symbol id -> name for frame bases
        self.executed = 0
        self.scalar_frame_log = []  # every 32-bit scalar value stored to the frame, in order: (slot, term)
        self.def_values = None      # optional: (insn addr, gpr) -> value right after that instruction

    def clone(self):
        M = Machine(self.obj, self.T)
        M.gpr = dict(self.gpr)
        M.vec = {k: list(v) for k, v in self.vec.items()}
        M.k = {k: list(v) for k, v in self.k.items()}
        M.flags = self.flags
        M.lowbyte = dict(self.lowbyte)
        M.small = set(self.small)
        M.frame = dict(self.frame)
        M.frame64 = dict(self.frame64)
        M.frame_regs = dict(self.frame_regs)
        M.rodata = self.rodata
        return M

    # ---------------------------------------------------------------- symbols ----
    def sym64(self, name, small=False):
        s = self.T.sym(name)
        if small:
            self.small.add(s)
        return G({s: 1})

    def reg(self, r):
        if r not in self.gpr:
            self.gpr[r] = self.sym64(r)
        return self.gpr[r]

    def vreg(self, r):
        if r not in self.vec:
            self.vec[r] = [self.T.sym("%s.%d" % (r, i)) for i in range(16)]
        return self.vec[r]

    def kreg(self, r):
        if r not in self.k:
            self.k[r] = [self.T.sym("%s.%d" % (r, i)) for i in range(16)]
        return self.k[r]

    # ---------------------------------------------------------------- 32-bit views ----
    def lo32(self, g):
        T = self.T
        if g.is_const():
            return T.const(g.c & M32)
        acc = T.const(g.c & M32)
        for s, co in sorted(g.items.items()):
            co32 = co & M32
            if co32 == 0:
                continue
            t = self.sym_lo32(s)
            if co32 == 1:
                acc = T.add(acc, t)
            else:
                acc = T.add(acc, T.mk("mul", co32, t))
        return acc

    def sym_lo32(self, s):
        T = self.T
        t = T.rev[s]
        if t[0] == "z32":          # zero-extended 32-bit term
            return t[1]
        if s in self.small:
            return T.mk("lo", s) if t[0] not in ("sym",) else s
        if t[0] == "shr64" and t[2] == 32:
            return T.mk("hi", t[1])
        return T.mk("lo", s)

    def hi32(self, g):
        """bits 32..63, decided only when no carry out of the low half is possible"""
        T = self.T
        lows = [(s, co) for s, co in g.items.items() if co & M32]
        highs = {s: co >> 32 for s, co in g.items.items() if not (co & M32)}
        lowc = g.c & M32
        if len(lows) + (1 if lowc else 0) > 1:
            raise Unsupported("high half of a sum whose low half may carry: %r" % g)
        if lows:
            s, co = lows[0]
            if co != 1:
                raise Unsupported("high half of %r" % g)
            if s in self.small or T.rev[s][0] == "z32":
                base = T.const(0)
            else:
                base = T.mk("hi", s)
        else:
            base = T.const(0)
        acc = T.add(base, T.const((g.c >> 32) & M32))
        for s, co in sorted(highs.items()):
            t = self.sym_lo32(s)
            acc = T.add(acc, t if co == 1 else T.mk("mul", co & M32, t))
        return acc

    def from32(self, t):
        """zero-extend a 32-bit term into a G"""
        T = self.T
        if T.is_const(t):
            return G({}, T.cval(t))
        s = T.mk("z32", t)
        self.small.add(s)
        return G({s: 1})

    # ---------------------------------------------------------------- memory ----
    def addr(self, mem):
        _, base, index, disp, width = mem
        g = G({}, disp)
        if base == "rip":
            return None
        if base:
            g = g.add(self.reg(canon_reg(base)))
        if index:
            if "*" in index:
                r, sc = index.split("*")
                if re.fullmatch(r"\d+", r.strip()):
                    r, sc = sc, r
                g = g.add(self.reg(canon_reg(r)).scale(int(sc)))
            else:
                g = g.add(self.reg(canon_reg(index)))
        return g

    def split_frame(self, g):
        """(base key, offset) when the address is <single unit-coefficient frame symbol> + const"""
        if len(g.items) == 1:
            (s, co), = g.items.items()
            if co == 1 and s in self.frame_regs:
                off = g.c if g.c < (1 << 63) else g.c - (1 << 64)
                return s, off
        return None

    def const_bytes(self, ins, n, disp):
        """bytes of a rip-relative operand (read-only pool of the object file)"""
        o = self.obj
        if ins.reloc is None:
            raise Unsupported("rip-relative operand without relocation: %s" % ins.raw)
        if self.rodata is None:
            ro = [s for s in o.sections if s in (".rodata", ".rdata")]
            self.rodata = (ro[0], o.section_bytes(ro[0])) if ro else (None, b"")
        secname, data = self.rodata
        m = re.fullmatch(r"([.\w]+)([+-]0x[0-9a-f]+)?", ins.reloc)
        name, addend = m.group(1), int(m.group(2) or "0", 16)
        if ins.reloc_type.startswith("R_X86_64"):
            nxt = ins.addr + ins.size
            base = 0 if name == secname else o.symbols[name][1]
            off = base + addend + (nxt - ins.reloc_addr)
        else:
            # COFF IMAGE_REL_AMD64_REL32: the field holds the addend relative to the end of the 4-byte field; bytes that
            # follow the field (an immediate) move the real next-instruction pointer by t
            t = (ins.addr + ins.size) - (ins.reloc_addr + 4)
            m2 = re.fullmatch(r"IMAGE_REL_AMD64_REL32(?:_(\d))?", ins.reloc_type)
            if not m2:
                raise Unsupported("relocation type %s" % ins.reloc_type)
            if m2.group(1):
                t -= int(m2.group(1))
            off = o.symbols[name][1] + disp + t
        if off < 0 or off + n > len(data):
            raise Unsupported("pool access out of the read-only section: %s" % ins.raw)
        return data[off:off + n]

    def load_lanes(self, ins, op, nlanes):
        """list of nlanes 32-bit terms read from a memory operand"""
        T = self.T
        mem = mem_operand(op)
        bc = re.search(r"\{1to(\d+)\}", op)
        if mem[1] == "rip":
            if bc:
                raw = self.const_bytes(ins, 4, mem[3])
                return [T.const(struct.unpack("<I", raw)[0])] * nlanes
            raw = self.const_bytes(ins, 4 * nlanes, mem[3])
            return [T.const(x) for x in struct.unpack("<%dI" % nlanes, raw)]
        a = self.addr(mem)
        if bc:
            return [self.load32(a, 0)] * nlanes
        return [self.load32(a, 4 * i) for i in range(nlanes)]

    def load32(self, a, off):
        T = self.T
        g = a.add(G({}, off))
        fr = self.split_frame(g)
        if fr:
            if fr in self.frame:
                return self.frame[fr]
            for d in (0, -4):
                k64 = (fr[0], fr[1] + d)
                if k64 in self.frame64:
                    return self.lo32(self.frame64[k64]) if d == 0 else self.hi32(self.frame64[k64])
            s = T.sym("%s[%s]" % (self.frame_regs[fr[0]], hex(fr[1])))
            self.frame[fr] = s
            return s
        self.loads.append((g.key(), 4))
        return T.mk("ld32", g.key())

    def load64(self, a):
        fr = self.split_frame(a)
        if fr:
            if fr in self.frame64:
                return self.frame64[fr]
            if fr in self.frame or (fr[0], fr[1] + 4) in self.frame:
                lo, hi = self.load32(a, 0), self.load32(a, 4)
                return self.from32(lo).add(self.from32(hi).scale(1 << 32))
            g = self.sym64("%s[%s]:q" % (self.frame_regs[fr[0]], hex(fr[1])))
            self.frame64[fr] = g
            return g
        self.loads.append((a.key(), 8))
        return G({self.T.mk("ld64", a.key()): 1})

    def load_small(self, a, width):
        fr = self.split_frame(a)
        name = "%s[%s]:%d" % (self.frame_regs[fr[0]], hex(fr[1]), width) if fr else None
        if fr:
            if width == 4 or fr in self.frame:
                return self.load32(a, 0)
            return self.T.sym(name)
        self.loads.append((a.key(), width))
        return self.T.mk("ld%d" % (8 * width), a.key())

    def store_lanes(self, a, lanes):
        fr = self.split_frame(a)
        if fr:
            for i, t in enumerate(lanes):
                k = (fr[0], fr[1] + 4 * i)
                self.frame[k] = t
                self.frame64.pop(k, None)
                self.frame64.pop((k[0], k[1] - 4), None)
            return
        self.stores.append((a, list(lanes)))

    # ---------------------------------------------------------------- operand access ----
    def vsrc(self, ins, op, nlanes):
        r = canon_reg(op)
        if r and r.startswith("xmm"):
            return self.vreg(r)[:nlanes]
        if mem_operand(op):
            return self.load_lanes(ins, op, nlanes)
        raise Unsupported("vector source %s in %s" % (op, ins.raw))

    def vdst(self, ins, op, lanes, vex):
        """write `lanes` (len = operand width) to a vector register, honouring {k}{z}; VEX/EVEX zero the rest"""
        T = self.T
        r = canon_reg(op)
        n = len(lanes)
        old = self.vreg(r)
        km = re.search(r"\{(k\d)\}", op)
        if km:
            kb = self.kreg(km.group(1))
            z = "{z}" in op
            lanes = [self.select(kb[i], lanes[i], T.const(0) if z else old[i]) for i in range(n)]
        if vex:
            self.vec[r] = list(lanes) + [T.const(0)] * (16 - n)
        else:
            self.vec[r] = list(lanes) + old[n:]

    def select(self, bit, a, b):
        T = self.T
        if T.is_const(bit):
            return a if T.cval(bit) else b
        if a == b:
            return a
        return T.mk("sel", bit, a, b)

    def gsrc(self, ins, op, width=None):
        """general source operand as (G, width in bytes)"""
        op = op.strip()
        if re.fullmatch(r"-?(0x[0-9a-f]+|\d+)", op):
            return G({}, int(op, 0)), 0
        r = canon_reg(op)
        if r and not r.startswith("xmm") and not r.startswith("k"):
            w = reg_width(op)
            g = self.reg(r)
            if w == 8:
                return g, 8
            if w == 4:
                return self.from32(self.lo32(g)), 4
            if w == 1:
                if r in self.lowbyte and op in LOW8:
                    return G({}, self.lowbyte[r]), 1
                return self.from32(self.T.mk("b0", self.lo32(g))) if not self.is_byte(g) else g, 1
            raise Unsupported("16-bit register operand %s" % op)
        mem = mem_operand(op)
        if mem:
            a = self.addr(mem)
            w = mem[4] or width
            if w == 8:
                return self.load64(a), 8
            t = self.load_small(a, w)
            return self.from32(t), w
        raise Unsupported("operand %s" % op)

    def is_byte(self, g):
        if g.is_const():
            return g.c < 256
        if len(g.items) == 1 and g.c == 0:
            (s, co), = g.items.items()
            t = self.T.rev[s]
            if co == 1 and t[0] == "sym":
                return t[1].startswith("arg8:") or t[1].endswith(":1")
            if co == 1 and t[0] == "z32":
                tt = self.T.rev[t[1]]
                return tt[0] in ("b0", "ld8") or (tt[0] == "sym" and (tt[1].endswith(":1") or tt[1].startswith("arg8:")))
        return False

    def gdst(self, op, g, width):
        r = canon_reg(op)
        if r is None:
            raise Unsupported("destination %s" % op)
        self.lowbyte.pop(r, None)
        if width == 8:
            self.gpr[r] = g
        elif width == 4:
            self.gpr[r] = self.from32(self.lo32(g))
        else:
            raise Unsupported("partial register write to %s" % op)

    # ---------------------------------------------------------------- conditions ----
    def cond(self, cc):
        """True / False / None (undecided)"""
        f = self.flags
        if f is None:
            raise Unsupported("condition on unknown flags")
        kind = f[0]
        if kind == "cmp":
            a, b = f[1], f[2]
            d = a.add(b, -1)
            if d.is_const():
                av, bv = None, None
                if a.is_const() and b.is_const():
                    av, bv = a.c, b.c
                if cc in ("e", "z"):
                    return d.c == 0
                if cc in ("ne", "nz"):
                    return d.c != 0
                if av is not None:
                    return {"b": av < bv, "c": av < bv, "ae": av >= bv, "nc": av >= bv, "a": av > bv, "be": av <= bv}.get(cc)
                if d.c == 0:
                    return {"b": False, "c": False, "ae": True, "nc": True, "a": False, "be": True}.get(cc)
            return None
        if kind == "res":
            g = f[1]
            if g.is_const():
                if cc in ("e", "z"):
                    return g.c == 0
                if cc in ("ne", "nz"):
                    return g.c != 0
            return None
        if kind == "test":
            a, b = f[1], f[2]
            if a.is_const() and b.is_const():
                v = a.c & b.c
                return (v == 0) if cc in ("e", "z") else (v != 0) if cc in ("ne", "nz") else None
            return None
        return None

    def cond_term(self, cc):
        f = self.flags
        neg = cc in ("ne", "nz", "ae", "nc", "be")
        base = {"ne": "e", "nz": "e", "z": "e", "nc": "b", "ae": "b", "c": "b", "be": "a"}.get(cc, cc)
        t = self.T.mk("cc", base, f[0], f[1].key(), f[2].key() if len(f) > 2 and isinstance(f[2], G) else None)
        return t, neg

    # ---------------------------------------------------------------- execution ----
    def run(self, insns, start_idx, stop_addrs=(), max_steps=200000, follow=None):
        """execute from insns[start_idx]; returns ('ret'|'stop'|'branch', info)"""
        by_addr = {i.addr: n for n, i in enumerate(insns)}
        pc = start_idx
        steps = 0
        while True:
            if pc >= len(insns):
                return "end", None
            ins = insns[pc]
            if steps and ins.addr in stop_addrs:
                return "stop", ins.addr
            steps += 1
            self.executed += 1
            if steps > max_steps:
                raise Unsupported("step limit")
            mn = ins.mn
            if mn == "ret":
                return "ret", None
            if mn == "jmp":
                tgt = jump_target(ins)
                if tgt is None or tgt not in by_addr:
                    raise Unsupported("indirect or external jump: %s" % ins.raw)
                if tgt in stop_addrs:
                    return "stop", tgt
                pc = by_addr[tgt]
                continue
            if asmabi.is_jump(mn):
                cc = mn[1:]
                c = self.cond(cc)
                tgt = jump_target(ins)
                if c is None:
                    if follow is not None:
                        c = follow(self, ins, cc)
                    if c is None:
                        return "branch", (ins, cc, tgt, pc)
                if c:
                    if tgt in stop_addrs:
                        return "stop", tgt
                    pc = by_addr[tgt]
                else:
                    pc += 1
                continue
            self.step(ins)
            pc += 1

    def step(self, ins):
        mn = ins.mn
        h = SEM.get(mn)
        if h is None:
            raise Unsupported("instruction %s (%s)" % (mn, ins.raw))
        h(self, ins)
        if self.def_values is not None:
            for r in asmabi.writes(ins):
                if r in self.gpr:
                    self.def_values[(ins.addr, r)] = self.gpr[r]


LOW8 = {"al", "bl", "cl", "dl", "sil", "dil", "bpl", "spl"} | {"r%db" % i for i in range(8, 16)}


def reg_width(op):
    op = op.strip()
    if op in asmabi.GPR64:
        return 8
    if re.fullmatch(r"e[a-z]{2}|r\d+d", op):
        return 4
    if op in LOW8:
        return 1
    return 2


def jump_target(ins):
    if not ins.ops:
        return None
    m = re.match(r"(0x[0-9a-f]+|[0-9a-f]+)\b", ins.ops[0])
    if not m:
        return None
    return int(m.group(1), 16)


# ==================================================================== instruction semantics ====
SEM = {}


def sem(*names):
    def deco(f):
        for n in names:
            SEM[n] = f
        return f
    return deco


def is_vex(mn):
    return mn.startswith("v")


def opwidth(ins):
    """lane count of the (first register) operand"""
    for o in ins.ops:
        m = re.match(r"\s*([xyz])mm\d+", o)
        if m:
            return vec_width(m.group(1))
    raise Unsupported("no vector register operand in %s" % ins.raw)


def dst_width(ins):
    m = re.match(r"\s*([xyz])mm\d+", ins.ops[0])
    if m:
        return vec_width(m.group(1))
    mem = mem_operand(ins.ops[0])
    if mem and mem[4]:
        return mem[4] // 4
    raise Unsupported("destination width of %s" % ins.raw)


def two_or_three(M, ins):
    """(dst op, a lanes, b lanes, n) for `op dst, src` (legacy) and `op dst, a, b` (VEX)"""
    n = dst_width(ins)
    ops = ins.ops
    if re.fullmatch(r"-?(0x[0-9a-f]+|\d+)", ops[-1].strip()):
        ops = ops[:-1]
    if len(ops) == 2:
        return ops[0], M.vsrc(ins, ops[0], n), M.vsrc(ins, ops[1], n), n
    return ops[0], M.vsrc(ins, ops[1], n), M.vsrc(ins, ops[2], n), n


def lanewise(fn):
    def h(M, ins):
        d, a, b, n = two_or_three(M, ins)
        M.vdst(ins, d, [fn(M.T, x, y) for x, y in zip(a, b)], is_vex(ins.mn))
    return h


def t_and(T, a, b):
    ca, cb = T.cval(a), T.cval(b)
    if ca is not None and cb is not None:
        return T.const(ca & cb)
    for c, o in ((ca, b), (cb, a)):
        if c == 0:
            return T.const(0)
        if c == M32:
            return o
    return T.mk("and", tuple(sorted((a, b))))


def t_or(T, a, b):
    ca, cb = T.cval(a), T.cval(b)
    if ca is not None and cb is not None:
        return T.const(ca | cb)
    for c, o in ((ca, b), (cb, a)):
        if c == 0:
            return o
    return T.bor(a, b)


def t_sub(T, a, b):
    cb = T.cval(b)
    if cb is not None:
        return T.add(a, T.const((-cb) & M32))
    if T.rev[b][0] == "mask":          # x - (all-ones if c else 0)  ==  c ? x + 1 : x
        return T.mk("sel", T.rev[b][1], T.add(a, T.const(1)), a)
    return T.add(a, T.mk("neg", b))


def t_shift(T, kind, x, n):
    c = T.cval(x)
    if c is not None:
        return T.const((c << n) & M32 if kind == "shl" else c >> n)
    if n == 0:
        return x
    if n >= 32:
        return T.const(0)
    return T.mk(kind, n, x)


SEM.update({k: lanewise(lambda T, a, b: T.add(a, b)) for k in ("paddd", "vpaddd")})
def t_xor(T, a, b):
    # xor of the two complementary shifts of one value is a rotation (their set bits are disjoint)
    ta, tb = T.rev[a], T.rev[b]
    for p, q in ((ta, tb), (tb, ta)):
        if p[0] == "shr" and q[0] == "shl" and p[2] == q[2] and p[1] + q[1] == 32:
            return T.rotr(p[1], p[2])
    return T.xor(a, b)


SEM.update({k: lanewise(t_xor) for k in ("pxor", "vpxor", "vpxord", "xorps", "vxorps")})
SEM.update({k: lanewise(t_or) for k in ("por", "vpor", "vpord")})
SEM.update({k: lanewise(t_and) for k in ("pand", "vpand", "vpandd")})
SEM.update({k: lanewise(t_sub) for k in ("psubd", "vpsubd")})
def t_gts(T, a, b):
    """signed a > b as an all-ones/zero lane; the MSB-flipped form is the unsigned comparison: mask(ltu(b', a'))"""
    ta, tb = T.rev[a], T.rev[b]
    MSB = 0x80000000

    def unflip(x, t):
        c = T.cval(x)
        if c is not None:
            return T.const(c ^ MSB)
        if t[0] == "xor":
            items = list(t[1])
            cs = [y for y in items if T.rev[y] == ("c", MSB)]
            if cs:
                items.remove(cs[0])
                return items[0] if len(items) == 1 else T.mk("xor", tuple(items))
        return None
    ua, ub = unflip(a, ta), unflip(b, tb)
    if ua is not None and ub is not None:
        if ua == ub:
            return T.const(0)
        ca, cb = T.cval(ua), T.cval(ub)
        if ca is not None and cb is not None:
            return T.const(M32 if ca > cb else 0)
        if ca == 0:
            return T.const(0)          # nothing is below zero (unsigned)
        return T.mk("mask", T.mk("ltu", ub, ua))
    return T.mk("gts", a, b)


SEM.update({k: lanewise(t_gts) for k in ("pcmpgtd", "vpcmpgtd")})


@sem("pslld", "psrld", "vpslld", "vpsrld", "vprord", "vprold")
def _shift(M, ins):
    T = M.T
    n = dst_width(ins)
    if len(ins.ops) == 2:
        src, imm = M.vsrc(ins, ins.ops[0], n), ins.ops[1]
    else:
        src, imm = M.vsrc(ins, ins.ops[1], n), ins.ops[2]
    if not re.fullmatch(r"(0x[0-9a-f]+|\d+)", imm.strip()):
        raise Unsupported("shift by a register: %s" % ins.raw)
    k = int(imm, 0)
    mn = ins.mn
    if mn in ("vprord", "vprold"):
        r = k % 32 if mn == "vprord" else (32 - k) % 32
        out = [rot(T, r, x) for x in src]
    else:
        kind = "shl" if "sll" in mn else "shr"
        out = [t_shift(T, kind, x, k) for x in src]
    M.vdst(ins, ins.ops[0], out, is_vex(mn))


def rot(T, r, x):
    c = T.cval(x)
    if c is not None:
        return T.const(((c >> r) | (c << (32 - r))) & M32) if r else x
    t = T.rev[x]
    if t[0] == "rotr":
        return T.rotr((t[1] + r) % 32, t[2])
    return T.rotr(r, x)


@sem("movdqa", "movdqu", "movaps", "movups", "vmovdqa", "vmovdqu", "vmovaps", "vmovups", "vmovdqa32", "vmovdqu32", "vmovdqa64", "vmovdqu64", "lddqu", "vlddqu")
def _mov(M, ins):
    d, s = ins.ops
    if canon_reg(d) and canon_reg(d).startswith("xmm"):
        n = dst_width(ins)
        M.vdst(ins, d, M.vsrc(ins, s, n), is_vex(ins.mn))
    else:
        n = opwidth(ins)
        lanes = M.vsrc(ins, s, n)
        km = re.search(r"\{(k\d)\}", d)
        if km:
            raise Unsupported("masked store: %s" % ins.raw)
        M.store_lanes(M.addr(mem_operand(d)), lanes)


@sem("movd", "vmovd", "movq", "vmovq")
def _movd(M, ins):
    T = M.T
    d, s = ins.ops
    q = ins.mn.endswith("q")
    dr, sr = canon_reg(d), canon_reg(s)
    if dr and dr.startswith("xmm"):
        if sr and sr.startswith("xmm"):
            src = M.vreg(sr)
            lanes = [src[0], src[1] if q else T.const(0)]
        elif sr:
            g = M.reg(sr)
            lanes = [M.lo32(g), M.hi32(g) if q else T.const(0)]
            M.scalar_frame_log.append((("gpr", sr), lanes[0]))
            if q:
                M.scalar_frame_log.append((("gpr", sr), lanes[1]))
        else:
            a = M.addr(mem_operand(s))
            lanes = [M.load32(a, 0), M.load32(a, 4) if q else T.const(0)]
        M.vec[dr] = lanes + [T.const(0)] * 14      # movd/movq to xmm zero-extend to the full register
        return
    src = M.vreg(sr)
    if dr:
        g = M.from32(src[0])
        if q:
            g = g.add(M.from32(src[1]).scale(1 << 32))
        M.gdst(d, g, 8 if q else 4)
    else:
        M.store_lanes(M.addr(mem_operand(d)), src[:2 if q else 1])


@sem("pinsrd", "vpinsrd")
def _pinsrd(M, ins):
    if len(ins.ops) == 3:
        d, a, s, imm = ins.ops[0], ins.ops[0], ins.ops[1], ins.ops[2]
    else:
        d, a, s, imm = ins.ops
    lanes = list(M.vsrc(ins, a, 4))
    sr = canon_reg(s)
    if sr:
        t = M.lo32(M.reg(sr))
        M.scalar_frame_log.append((("gpr", sr), t))
    else:
        t = M.load_lanes(ins, s, 1)[0]
    lanes[int(imm, 0) & 3] = t
    M.vdst(ins, d, lanes, is_vex(ins.mn))


def per128(n, fn):
    out = []
    for g in range(n // 4):
        out += fn(4 * g)
    return out


@sem("pshufd", "vpshufd")
def _pshufd(M, ins):
    n = dst_width(ins)
    src = M.vsrc(ins, ins.ops[1], n)
    imm = int(ins.ops[2], 0)
    M.vdst(ins, ins.ops[0], per128(n, lambda b: [src[b + ((imm >> (2 * i)) & 3)] for i in range(4)]), is_vex(ins.mn))


@sem("shufps", "vshufps")
def _shufps(M, ins):
    d, a, b, n = two_or_three(M, ins)
    imm = int(ins.ops[-1], 0)
    M.vdst(ins, d, per128(n, lambda o: [a[o + (imm & 3)], a[o + ((imm >> 2) & 3)], b[o + ((imm >> 4) & 3)], b[o + ((imm >> 6) & 3)]]), is_vex(ins.mn))


def unpack(fn):
    def h(M, ins):
        d, a, b, n = two_or_three(M, ins)
        M.vdst(ins, d, per128(n, lambda o: fn(a, b, o)), is_vex(ins.mn))
    return h


SEM.update({k: unpack(lambda a, b, o: [a[o], b[o], a[o + 1], b[o + 1]]) for k in ("punpckldq", "vpunpckldq", "unpcklps", "vunpcklps")})
SEM.update({k: unpack(lambda a, b, o: [a[o + 2], b[o + 2], a[o + 3], b[o + 3]]) for k in ("punpckhdq", "vpunpckhdq", "unpckhps", "vunpckhps")})
SEM.update({k: unpack(lambda a, b, o: [a[o], a[o + 1], b[o], b[o + 1]]) for k in ("punpcklqdq", "vpunpcklqdq", "unpcklpd", "vunpcklpd", "movlhps")})
SEM.update({k: unpack(lambda a, b, o: [a[o + 2], a[o + 3], b[o + 2], b[o + 3]]) for k in ("punpckhqdq", "vpunpckhqdq", "unpckhpd", "vunpckhpd")})


@sem("pblendw", "vpblendw")
def _pblendw(M, ins):
    d, a, b, n = two_or_three(M, ins)
    imm = int(ins.ops[-1], 0)
    out = []
    for i in range(n):
        bits = (imm >> (2 * (i % 4))) & 3
        if bits == 0:
            out.append(a[i])
        elif bits == 3:
            out.append(b[i])
        else:
            raise Unsupported("pblendw splitting a dword: %s" % ins.raw)
    M.vdst(ins, d, out, is_vex(ins.mn))


@sem("vpblendd", "blendps", "vblendps")
def _pblendd(M, ins):
    d, a, b, n = two_or_three(M, ins)
    imm = int(ins.ops[-1], 0)
    if ins.mn == "blendps" or n == 4:
        out = [b[i] if (imm >> (i % 4)) & 1 else a[i] for i in range(n)]
    else:
        out = [b[i] if (imm >> (i % 8)) & 1 else a[i] for i in range(n)]
    M.vdst(ins, d, out, is_vex(ins.mn))


@sem("blendvps", "vblendvps", "pblendvb", "vpblendvb")
def _blendv(M, ins):
    T = M.T
    n = dst_width(ins)
    if len(ins.ops) == 4:
        d, a, b, mk = ins.ops[0], M.vsrc(ins, ins.ops[1], n), M.vsrc(ins, ins.ops[2], n), M.vsrc(ins, ins.ops[3], n)
    else:
        d, a, b = ins.ops[0], M.vsrc(ins, ins.ops[0], n), M.vsrc(ins, ins.ops[1], n)
        mk = M.vsrc(ins, ins.ops[2], n) if len(ins.ops) == 3 else M.vreg("xmm0")[:n]
    out = []
    for i in range(n):
        c = T.cval(mk[i])
        if c is not None:
            if ins.mn.endswith("b") and c not in (0, M32):
                raise Unsupported("byte blend with a mixed mask")
            out.append(b[i] if c >> 31 else a[i])
        else:
            mt = T.rev[mk[i]]
            if ins.mn.endswith("b") and mt[0] != "gts":
                raise Unsupported("byte blend with a non-boolean mask")
            out.append(M.select(T.mk("msb", mk[i]), b[i], a[i]))
    M.vdst(ins, d, out, is_vex(ins.mn))


@sem("vpblendmd")
def _blendm(M, ins):
    n = dst_width(ins)
    km = re.search(r"\{(k\d)\}", ins.ops[0])
    a, b = M.vsrc(ins, ins.ops[1], n), M.vsrc(ins, ins.ops[2], n)
    kb = M.kreg(km.group(1))
    r = canon_reg(ins.ops[0])
    M.vec[r] = [M.select(kb[i], b[i], a[i]) for i in range(n)] + [M.T.const(0)] * (16 - n)


@sem("pshufb", "vpshufb")
def _pshufb(M, ins):
    T = M.T
    d, a, mk, n = two_or_three(M, ins)
    out = []
    for i in range(n):
        c = T.cval(mk[i])
        if c is None:
            raise Unsupported("pshufb with a non-constant mask: %s" % ins.raw)
        bs = [(c >> (8 * j)) & 0xff for j in range(4)]
        base = 4 * (i % 4)
        if any(b & 0x80 for b in bs):
            raise Unsupported("pshufb zeroing mask")
        src_lane = [(b & 15) // 4 for b in bs]
        src_byte = [(b & 15) % 4 for b in bs]
        if len(set(src_lane)) != 1:
            raise Unsupported("pshufb gathers bytes of several dwords")
        x = a[4 * (i // 4) + src_lane[0]]
        r = src_byte[0]
        if src_byte != [(r + j) % 4 for j in range(4)]:
            raise Unsupported("pshufb mask is not a byte rotation")
        out.append(rot(T, 8 * r, x))
    M.vdst(ins, d, out, is_vex(ins.mn))


@sem("pshuflw", "pshufhw", "vpshuflw", "vpshufhw")
def _pshufw(M, ins):
    T = M.T
    n = dst_width(ins)
    src = M.vsrc(ins, ins.ops[1], n)
    imm = int(ins.ops[2], 0)
    if imm != 0xB1:
        raise Unsupported("word shuffle other than 0xB1: %s" % ins.raw)
    hi = "h" in ins.mn[-3:]
    out = []
    for i in range(n):
        in_half = (i % 4) >= 2 if hi else (i % 4) < 2
        out.append(rot(T, 16, src[i]) if in_half else src[i])
    M.vdst(ins, ins.ops[0], out, is_vex(ins.mn))


@sem("vinserti128", "vinsertf128", "vinserti32x4", "vinserti64x4", "vinsertf32x4", "vinsertf64x4")
def _vinsert(M, ins):
    d, a, s, imm = ins.ops
    n = dst_width(ins)
    chunk = 8 if "64x4" in ins.mn else 4
    lanes = list(M.vsrc(ins, a, n))
    src = M.vsrc(ins, s, chunk)
    k = int(imm, 0) % (n // chunk)
    lanes[chunk * k:chunk * k + chunk] = src
    M.vdst(ins, d, lanes, True)


@sem("vextracti128", "vextractf128", "vextracti32x4", "vextracti64x4", "vextractf32x4")
def _vextract(M, ins):
    d, s, imm = ins.ops
    chunk = 8 if "64x4" in ins.mn else 4
    sr = canon_reg(s)
    m = re.match(r"\s*([xyz])mm", s)
    n = vec_width(m.group(1))
    src = M.vreg(sr)[:n]
    k = int(imm, 0) % (n // chunk)
    lanes = src[chunk * k:chunk * k + chunk]
    if canon_reg(d):
        M.vdst(ins, d, lanes, True)
    else:
        M.store_lanes(M.addr(mem_operand(d)), lanes)


@sem("vperm2f128", "vperm2i128")
def _vperm2(M, ins):
    d, a, b, imm = ins.ops
    A, B = M.vsrc(ins, a, 8), M.vsrc(ins, b, 8)
    imm = int(imm, 0)
    out = []
    for half in range(2):
        c = (imm >> (4 * half)) & 0xf
        if c & 8:
            out += [M.T.const(0)] * 4
        else:
            src = (A, A, B, B)[c & 3]
            o = 4 * (c & 1)
            out += src[o:o + 4]
    M.vdst(ins, d, out, True)


@sem("vpermq", "vpermpd")
def _vpermq(M, ins):
    d, s, imm = ins.ops
    n = dst_width(ins)
    src = M.vsrc(ins, s, n)
    imm = int(imm, 0)
    out = []
    for blk in range(n // 8):
        for i in range(4):
            j = (imm >> (2 * i)) & 3
            out += src[8 * blk + 2 * j:8 * blk + 2 * j + 2]
    M.vdst(ins, d, out, True)


@sem("vshufi32x4", "vshuff32x4", "vshufi64x2", "vshuff64x2")
def _vshuf128(M, ins):
    d, a, b, imm = ins.ops
    n = dst_width(ins)
    A, B = M.vsrc(ins, a, n), M.vsrc(ins, b, n)
    imm = int(imm, 0)
    out = []
    if n == 16:
        for i in range(4):
            sel = (imm >> (2 * i)) & 3
            src = A if i < 2 else B
            out += src[4 * sel:4 * sel + 4]
    elif n == 8:
        for i in range(2):
            sel = (imm >> i) & 1
            src = A if i < 1 else B
            out += src[4 * sel:4 * sel + 4]
    else:
        raise Unsupported(ins.raw)
    M.vdst(ins, d, out, True)


@sem("vpermt2d", "vpermi2d")
def _vperm2d(M, ins):
    T = M.T
    d, x, y = ins.ops
    n = dst_width(ins)
    D, X, Y = M.vsrc(ins, d, n), M.vsrc(ins, x, n), M.vsrc(ins, y, n)
    if ins.mn == "vpermt2d":
        idx, ta, tb = X, D, Y
    else:
        idx, ta, tb = D, X, Y
    out = []
    for i in range(n):
        c = T.cval(idx[i])
        if c is None:
            raise Unsupported("permute with a non-constant index vector: %s" % ins.raw)
        sel = c & (n - 1)
        out.append(tb[sel] if c & n else ta[sel])
    M.vdst(ins, d, out, True)


@sem("vpbroadcastd", "vbroadcastss")
def _bcastd(M, ins):
    d, s = ins.ops
    n = dst_width(ins)
    sr = canon_reg(s)
    if sr and sr.startswith("xmm"):
        t = M.vreg(sr)[0]
    elif sr:
        t = M.lo32(M.reg(sr))
        M.scalar_frame_log.append((("gpr", sr), t))
    else:
        t = M.load_lanes(ins, s, 1)[0]
    M.vdst(ins, d, [t] * n, True)


@sem("vbroadcasti128", "vbroadcastf128", "vbroadcasti32x4", "vbroadcastf32x4")
def _bcast128(M, ins):
    d, s = ins.ops
    n = dst_width(ins)
    src = M.load_lanes(ins, s, 4)
    M.vdst(ins, d, src * (n // 4), True)


@sem("vpcmpltud", "vpcmpud", "vpcmpeqd_k")
def _vpcmpu(M, ins):
    T = M.T
    kd = canon_reg(ins.ops[0])
    n = opwidth(ins)
    a, b = M.vsrc(ins, ins.ops[1], n), M.vsrc(ins, ins.ops[2], n)
    if ins.mn == "vpcmpud":
        pred = int(ins.ops[3], 0)
        if pred != 1:
            raise Unsupported("vpcmpud predicate %d" % pred)
    def ltu(x, y):
        if x == y:
            return T.const(0)
        cx, cy = T.cval(x), T.cval(y)
        if cx is not None and cy is not None:
            return T.const(1 if cx < cy else 0)
        return T.mk("ltu", x, y)
    M.k[kd] = [ltu(a[i], b[i]) for i in range(n)] + [T.const(0)] * (16 - n)


@sem("kmovw")
def _kmovw(M, ins):
    T = M.T
    d, s = ins.ops
    dr, sr = canon_reg(d), canon_reg(s)
    if dr and dr.startswith("k") and sr and not sr.startswith("k"):
        g = M.reg(sr)
        if g.is_const():
            M.k[dr] = [T.const((g.c >> i) & 1) for i in range(16)]
        else:
            t = M.lo32(g)
            M.k[dr] = [T.mk("bit", i, t) for i in range(16)]
    elif dr and dr.startswith("k") and sr and sr.startswith("k"):
        M.k[dr] = list(M.kreg(sr))
    else:
        raise Unsupported(ins.raw)


@sem("knotw")
def _knotw(M, ins):
    T = M.T
    d, s = ins.ops
    src = M.kreg(canon_reg(s))
    out = []
    for b in src:
        c = T.cval(b)
        out.append(T.const(1 - c) if c is not None else (T.rev[b][1] if T.rev[b][0] == "knot" else T.mk("knot", b)))
    M.k[canon_reg(d)] = out


@sem("vzeroupper", "nop", "prefetcht0", "prefetcht1", "prefetcht2", "prefetchnta", "endbr64", "cld")
def _nop(M, ins):
    pass


# ---------------------------------------------------------------- scalar ----
@sem("mov")
def _movg(M, ins):
    d, s = ins.ops
    dr = canon_reg(d)
    if dr and d.strip() in LOW8:
        g, _ = M.gsrc(ins, s)
        if not g.is_const():
            raise Unsupported("byte move of a non-constant: %s" % ins.raw)
        M.lowbyte[dr] = g.c & 0xff
        return
    if dr:
        w = reg_width(d)
        g, _ = M.gsrc(ins, s, w)
        M.gdst(d, g, w)
        return
    mem = mem_operand(d)
    a = M.addr(mem)
    w = mem[4]
    g, sw = M.gsrc(ins, s, w)
    w = w or sw
    if w == 8:
        fr = M.split_frame(a)
        if fr:
            M.frame64[fr] = g
            M.frame.pop(fr, None)
            M.frame.pop((fr[0], fr[1] + 4), None)
        else:
            M.stores.append((a, [M.lo32(g), M.hi32(g)]))
    elif w == 4:
        t32 = M.lo32(g)
        fr = M.split_frame(a)
        if fr:
            M.scalar_frame_log.append((fr, t32))
        M.store_lanes(a, [t32])
    else:
        raise Unsupported("narrow store: %s" % ins.raw)


@sem("movzx")
def _movzx(M, ins):
    d, s = ins.ops
    g, w = M.gsrc(ins, s, 1)
    if w != 1:
        raise Unsupported("movzx from %d bytes" % w)
    M.gdst(d, g, 4 if reg_width(d) == 4 else 8)


@sem("lea")
def _lea(M, ins):
    d, s = ins.ops
    M.gdst(d, M.addr(mem_operand(s)), reg_width(d))


def arith(op):
    def h(M, ins):
        d, s = ins.ops
        dr = canon_reg(d)
        if dr is None:
            raise Unsupported("memory destination: %s" % ins.raw)
        w = reg_width(d)
        a, _ = M.gsrc(ins, d, w)
        b, _ = M.gsrc(ins, s, w)
        T = M.T
        if op in ("add", "sub"):
            r = a.add(b, 1 if op == "add" else -1)
            if w == 4:
                r = M.from32(M.lo32(r))
            M.flags = ("cmp", a, b) if op == "sub" else ("res", r)
        else:
            if a.is_const() and b.is_const():
                r = G({}, {"and": a.c & b.c, "or": a.c | b.c, "xor": a.c ^ b.c}[op])
            elif op == "xor" and a.key() == b.key():
                r = G({}, 0)
            elif op == "or" and w == 8 and b.is_const() and b.c <= M32 and a.c & M32 == 0 and all(co & M32 == 0 for co in a.items.values()):
                r = a.add(b)          # the operands occupy disjoint halves: or == add
            elif op == "or" and w == 8 and a.is_const() and a.c <= M32 and b.c & M32 == 0 and all(co & M32 == 0 for co in b.items.values()):
                r = a.add(b)
            elif op == "and" and b.is_const() and is_align_mask(b.c):
                sid = T.mk("and64", a.key(), b.c)
                r = G({sid: 1})
                if dr == "rsp":
                    M.frame_regs[sid] = "frame"      # the realigned stack pointer is the base of the local frame
            elif w == 4 or (M.is_small(a) and M.is_small(b)):
                ta, tb = M.lo32(a), M.lo32(b)
                t = {"and": t_and, "or": t_or, "xor": lambda T, x, y: T.xor(x, y)}[op](T, ta, tb)
                r = M.from32(t)
            else:
                r = G({T.mk(op + "64", a.key(), b.key()): 1})
            M.flags = ("res", r)
        M.gdst(d, r, w)
    return h


def is_align_mask(c):
    return c >= (1 << 63) and ((~c) & M64) + 1 & ((~c) & M64) == 0


for _op in ("add", "sub", "and", "or", "xor"):
    SEM[_op] = arith(_op)


def _is_small(self, g):
    return all((s in self.small or self.T.rev[s][0] == "z32") and co == 1 for s, co in g.items.items()) and g.c <= M32 and len(g.items) <= 1


Machine.is_small = _is_small


@sem("shl", "shr")
def _shl(M, ins):
    d, s = ins.ops
    w = reg_width(d)
    a, _ = M.gsrc(ins, d, w)
    n = int(s, 0)
    if ins.mn == "shl":
        r = a.scale(1 << n)
        if w == 4:
            r = M.from32(M.lo32(r))
    else:
        if a.is_const():
            r = G({}, a.c >> n)
        elif w == 8 and n == 32:
            r = M.from32(M.hi32(a))
        else:
            r = G({M.T.mk("shr64", a.key(), n): 1})
    M.flags = ("res", r)
    M.gdst(d, r, w)


@sem("neg")
def _neg(M, ins):
    d = ins.ops[0]
    w = reg_width(d)
    a, _ = M.gsrc(ins, d, w)
    r = G({}, 0).add(a, -1)
    M.flags = ("res", r)
    M.gdst(d, r, w)


@sem("dec", "inc")
def _dec(M, ins):
    d = ins.ops[0]
    r = canon_reg(d)
    delta = -1 if ins.mn == "dec" else 1
    if d.strip() in LOW8:
        if r not in M.lowbyte:
            raise Unsupported("byte counter with unknown value: %s" % ins.raw)
        M.lowbyte[r] = (M.lowbyte[r] + delta) & 0xff
        M.flags = ("res", G({}, M.lowbyte[r]))
        return
    w = reg_width(d)
    a, _ = M.gsrc(ins, d, w)
    res = a.add(G({}, delta))
    M.flags = ("res", res)
    M.gdst(d, res, w)


@sem("cmp")
def _cmp(M, ins):
    a, wa = M.gsrc(ins, ins.ops[0])
    b, _ = M.gsrc(ins, ins.ops[1], wa)
    M.flags = ("cmp", a, b)


@sem("test")
def _test(M, ins):
    a, wa = M.gsrc(ins, ins.ops[0])
    b, _ = M.gsrc(ins, ins.ops[1], wa)
    if a.key() == b.key():
        M.flags = ("res", a)
    else:
        M.flags = ("test", a, b)


def cmov(cc):
    def h(M, ins):
        d, s = ins.ops
        w = reg_width(d)
        c = M.cond(cc)
        a, _ = M.gsrc(ins, d, w)
        b, _ = M.gsrc(ins, s, w)
        if c is True:
            r = b
        elif c is False:
            r = a
        else:
            t, neg = M.cond_term(cc)
            x, y = (a, b) if neg else (b, a)
            r = M.from32(M.T.mk("ite", t, M.lo32(x), M.lo32(y))) if w == 4 else G({M.T.mk("ite64", t, x.key(), y.key()): 1})
        saved = M.flags
        M.gdst(d, r, w)
        M.flags = saved
    return h


for _cc in ("e", "ne", "z", "nz", "b", "ae", "c", "nc", "a", "be"):
    SEM["cmov" + _cc] = cmov(_cc)


@sem("push")
def _push(M, ins):
    M.gpr["rsp"] = M.reg("rsp").add(G({}, -8))


@sem("pop")
def _pop(M, ins):
    M.gpr["rsp"] = M.reg("rsp").add(G({}, 8))
    r = canon_reg(ins.ops[0])
    M.gpr[r] = M.sym64("popped:" + r)
