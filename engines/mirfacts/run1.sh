#!/bin/bash
# usage: run1.sh <crate-dir> <crate-name> <out.json> [cargo args...]
set -e
DIR=$1; CR=$2; OUT=$3; shift 3
T=$(mktemp -d /tmp/mf_XXXXXX)
trap 'rm -rf "$T"' EXIT
export RUST_BACKTRACE=0
cd "$DIR"
LD_LIBRARY_PATH=$(rustc +nightly --print sysroot)/lib RUSTFLAGS="-Zmir-opt-level=0 -Awarnings $EXTRA_RUSTFLAGS" \
RUSTC_WORKSPACE_WRAPPER=/verif/engines/mirfacts/target/release/mirfacts MIRFACTS_CRATE=$CR MIRFACTS_OUT=$OUT \
CARGO_TARGET_DIR=$T/target cargo +nightly check --offline "$@" 2>&1 | tail -3
test -s "$OUT"
