// mirfacts: rustc_private driver that serialises the resolved program (items, ADTs,
// statics, impls, evaluated constants and span-tagged MIR) of ONE crate as JSON.
// Engine E1 of /verif/DESIGN.md. Nothing of the analysed crate is executed; only
// rustc's front end, type checker, borrow checker and MIR builder run.
//
// Used as RUSTC_WORKSPACE_WRAPPER:   mirfacts rustc <args...>
//   MIRFACTS_CRATE = crate name to dump (others are compiled normally)
//   MIRFACTS_OUT   = output file (one write, atomic rename)
#![feature(rustc_private)]
#![feature(box_patterns)]
#![allow(clippy::all)]

extern crate rustc_abi;
extern crate rustc_ast;
extern crate rustc_driver;
extern crate rustc_hir;
extern crate rustc_interface;
extern crate rustc_middle;
extern crate rustc_session;
extern crate rustc_span;
extern crate rustc_infer;
extern crate rustc_trait_selection;

use rustc_driver::Compilation;
use rustc_hir::def::DefKind;
use rustc_hir::def_id::{DefId, LocalDefId, LOCAL_CRATE};
use rustc_middle::mir::{self, interpret::GlobalAlloc, Body, Operand, Place, ProjectionElem, Rvalue, StatementKind, TerminatorKind};
use rustc_middle::ty::{self, Instance, Ty, TyCtxt, TypingEnv};
use rustc_middle::ty::print::PrintTraitRefExt;
use rustc_span::Span;
use rustc_infer::infer::TyCtxtInferExt;
use rustc_trait_selection::infer::InferCtxtExt;
use std::collections::BTreeSet;
use std::fmt::Write as _;

// ---------------------------------------------------------------- JSON ----
enum J {
    Null,
    Bool(bool),
    Int(i128),
    UInt(u128),
    Str(String),
    Arr(Vec<J>),
    Obj(Vec<(&'static str, J)>),
}
fn s<T: Into<String>>(x: T) -> J {
    J::Str(x.into())
}
fn esc(out: &mut String, st: &str) {
    out.push('"');
    for c in st.chars() {
        match c {
            '"' => out.push_str("\\\""),
            '\\' => out.push_str("\\\\"),
            '\n' => out.push_str("\\n"),
            '\r' => out.push_str("\\r"),
            '\t' => out.push_str("\\t"),
            c if (c as u32) < 0x20 => {
                let _ = write!(out, "\\u{:04x}", c as u32);
            }
            c => out.push(c),
        }
    }
    out.push('"');
}
impl J {
    fn write(&self, out: &mut String) {
        match self {
            J::Null => out.push_str("null"),
            J::Bool(b) => out.push_str(if *b { "true" } else { "false" }),
            J::Int(i) => {
                let _ = write!(out, "{}", i);
            }
            J::UInt(i) => {
                let _ = write!(out, "{}", i);
            }
            J::Str(st) => esc(out, st),
            J::Arr(v) => {
                out.push('[');
                for (i, x) in v.iter().enumerate() {
                    if i > 0 {
                        out.push(',');
                    }
                    x.write(out);
                }
                out.push(']');
            }
            J::Obj(v) => {
                out.push('{');
                for (i, (k, x)) in v.iter().enumerate() {
                    if i > 0 {
                        out.push(',');
                    }
                    esc(out, k);
                    out.push(':');
                    x.write(out);
                }
                out.push('}');
            }
        }
    }
}

// ------------------------------------------------------------- helpers ----
struct Cx<'tcx> {
    tcx: TyCtxt<'tcx>,
}

fn path_of(tcx: TyCtxt<'_>, did: DefId) -> String {
    ty::print::with_no_trimmed_paths!(tcx.def_path_str(did))
}
fn ty_str<'tcx>(t: Ty<'tcx>) -> String {
    ty::print::with_no_trimmed_paths!(format!("{}", t))
}

impl<'tcx> Cx<'tcx> {
    fn loc(&self, sp: Span) -> String {
        let sm = self.tcx.sess.source_map();
        // outermost call-site so that a report points into the analysed crate's file
        let sp = sp.source_callsite();
        let lo = sm.lookup_char_pos(sp.lo());
        let name = format!("{}", lo.file.name.prefer_local_unconditionally());
        format!("{}:{}", name, lo.line)
    }
    fn macro_chain(&self, sp: Span) -> J {
        // names of the macros this span was expanded from (innermost first)
        let mut v = Vec::new();
        let mut cur = sp;
        let mut n = 0;
        while cur.from_expansion() && n < 8 {
            let ed = cur.ctxt().outer_expn_data();
            v.push(s(format!("{}", ed.kind.descr())));
            cur = ed.call_site;
            n += 1;
        }
        J::Arr(v)
    }

    fn scalar_int_of_const(&self, c: &mir::Const<'tcx>, env: TypingEnv<'tcx>) -> Option<J> {
        let ty = c.ty();
        if !(ty.is_integral() || ty.is_bool() || ty.is_char()) {
            return None;
        }
        let si = c.try_eval_scalar_int(self.tcx, env)?;
        let size = si.size();
        if ty.is_signed() {
            Some(J::Int(si.to_int(size)))
        } else {
            Some(J::UInt(si.to_uint(size)))
        }
    }

    // bytes behind a constant: handles Scalar(ptr) -> memory, Slice, Indirect
    fn bytes_of_constvalue(&self, cv: mir::ConstValue, ty: Ty<'tcx>, env: TypingEnv<'tcx>) -> Option<Vec<u8>> {
        let tcx = self.tcx;
        match cv {
            mir::ConstValue::Slice { alloc_id, meta } => {
                let alloc = tcx.global_alloc(alloc_id).unwrap_memory();
                let a = alloc.inner();
                // meta = element count; for str/[u8] it is the byte length
                let elem_size = match ty.builtin_deref(true).map(|t| t.kind()) {
                    Some(ty::Slice(e)) => tcx.layout_of(env.as_query_input(*e)).ok()?.size.bytes(),
                    _ => 1,
                };
                let len = (meta * elem_size) as usize;
                let all = a.inspect_with_uninit_and_ptr_outside_interpreter(0..a.len());
                if len <= all.len() {
                    Some(all[..len].to_vec())
                } else {
                    None
                }
            }
            mir::ConstValue::Indirect { alloc_id, offset } => {
                let alloc = tcx.global_alloc(alloc_id).unwrap_memory();
                let a = alloc.inner();
                let size = tcx.layout_of(env.as_query_input(ty)).ok()?.size.bytes() as usize;
                let off = offset.bytes() as usize;
                if off + size <= a.len() {
                    Some(a.inspect_with_uninit_and_ptr_outside_interpreter(off..off + size).to_vec())
                } else {
                    None
                }
            }
            mir::ConstValue::Scalar(mir::interpret::Scalar::Ptr(ptr, _)) => {
                let pointee = ty.builtin_deref(true)?;
                let (prov, off) = ptr.prov_and_relative_offset();
                let alloc_id = prov.alloc_id();
                match tcx.global_alloc(alloc_id) {
                    GlobalAlloc::Memory(alloc) => {
                        let a = alloc.inner();
                        let size = if pointee.is_sized(tcx, env) {
                            tcx.layout_of(env.as_query_input(pointee)).ok()?.size.bytes() as usize
                        } else {
                            a.len() - off.bytes() as usize
                        };
                        let off = off.bytes() as usize;
                        if off + size <= a.len() {
                            Some(a.inspect_with_uninit_and_ptr_outside_interpreter(off..off + size).to_vec())
                        } else {
                            None
                        }
                    }
                    _ => None,
                }
            }
            mir::ConstValue::Scalar(mir::interpret::Scalar::Int(si)) => {
                let v = si.to_bits(si.size());
                Some(v.to_le_bytes()[..si.size().bytes() as usize].to_vec())
            }
            mir::ConstValue::ZeroSized => Some(vec![]),
        }
    }

    fn konst(&self, c: &mir::ConstOperand<'tcx>, env: TypingEnv<'tcx>) -> J {
        let tcx = self.tcx;
        let k = &c.const_;
        let ty = k.ty();
        let mut o: Vec<(&'static str, J)> = vec![("k", s("const")), ("ty", s(ty_str(ty)))];
        // identity: fn item, named const, static
        match ty.kind() {
            ty::FnDef(did, args) => {
                o.push(("fn", s(path_of(tcx, *did))));
                o.push(("fnargs", J::Arr(args.iter().map(|a| s(ty::print::with_no_trimmed_paths!(format!("{}", a)))).collect())));
            }
            _ => {}
        }
        if let mir::Const::Unevaluated(u, _) = k {
            if u.promoted.is_none() {
                o.push(("name", s(path_of(tcx, u.def))));
            } else {
                o.push(("promoted", J::Bool(true)));
            }
        }
        if let mir::Const::Ty(_, tc) = k {
            if let ty::ConstKind::Param(p) = tc.kind() {
                o.push(("param", s(p.name.to_string())));
            }
        }
        if let Some(v) = self.scalar_int_of_const(k, env) {
            o.push(("val", v));
        } else if !matches!(ty.kind(), ty::FnDef(..)) {
            // static reference?
            let evald = k.eval(tcx, env, c.span).ok();
            if let Some(cv) = evald {
                if let mir::ConstValue::Scalar(mir::interpret::Scalar::Ptr(ptr, _)) = cv {
                    let (prov, _) = ptr.prov_and_relative_offset();
                    if let GlobalAlloc::Static(did) = tcx.global_alloc(prov.alloc_id()) {
                        o.push(("static", s(path_of(tcx, did))));
                    }
                }
                if let Some(b) = self.bytes_of_constvalue(cv, ty, env) {
                    // fieldless enum constants: name the variant
                    let inner = ty.builtin_deref(true).unwrap_or(ty);
                    if let ty::Adt(adt, _) = inner.kind() {
                        if adt.is_enum() && adt.is_payloadfree() && b.len() <= 16 && !b.is_empty() {
                            let mut v: u128 = 0;
                            for (i, x) in b.iter().enumerate() {
                                v |= (*x as u128) << (8 * i);
                            }
                            for (vi, d) in adt.discriminants(tcx) {
                                let mask = if b.len() == 16 { u128::MAX } else { (1u128 << (8 * b.len())) - 1 };
                                if d.val & mask == v {
                                    o.push(("variant", s(adt.variant(vi).name.to_string())));
                                }
                            }
                        }
                    }
                    if b.len() <= 4096 {
                        o.push(("bytes", J::Arr(b.iter().map(|x| J::UInt(*x as u128)).collect())));
                    }
                }
            }
        }
        J::Obj(o)
    }

    fn place(&self, body: &Body<'tcx>, p: &Place<'tcx>) -> J {
        let tcx = self.tcx;
        let mut proj = Vec::new();
        let mut pty = mir::PlaceTy::from_ty(body.local_decls[p.local].ty);
        for elem in p.projection.iter() {
            let j = match elem {
                ProjectionElem::Deref => s("deref"),
                ProjectionElem::Field(f, fty) => {
                    let mut name = format!("{}", f.index());
                    let mut owner = String::new();
                    match pty.ty.kind() {
                        ty::Adt(adt, _) => {
                            let vi = pty.variant_index.unwrap_or(rustc_abi::FIRST_VARIANT);
                            let v = adt.variant(vi);
                            name = v.fields[f].name.to_string();
                            owner = path_of(tcx, adt.did());
                            if adt.is_enum() {
                                owner = format!("{}::{}", owner, v.name);
                            }
                        }
                        ty::Closure(did, _) => {
                            owner = path_of(tcx, *did);
                            name = format!("upvar{}", f.index());
                        }
                        ty::Tuple(_) => {
                            owner = "tuple".into();
                        }
                        _ => {}
                    }
                    J::Obj(vec![("f", s(name)), ("of", s(owner)), ("ty", s(ty_str(fty)))])
                }
                ProjectionElem::Index(l) => J::Obj(vec![("idx", J::UInt(l.as_u32() as u128))]),
                ProjectionElem::ConstantIndex { offset, min_length, from_end } => J::Obj(vec![
                    ("cidx", J::UInt(offset as u128)),
                    ("min", J::UInt(min_length as u128)),
                    ("from_end", J::Bool(from_end)),
                ]),
                ProjectionElem::Subslice { from, to, from_end } => J::Obj(vec![
                    ("sub_from", J::UInt(from as u128)),
                    ("sub_to", J::UInt(to as u128)),
                    ("from_end", J::Bool(from_end)),
                ]),
                ProjectionElem::Downcast(name, vi) => J::Obj(vec![
                    ("down", s(name.map(|n| n.to_string()).unwrap_or_default())),
                    ("vi", J::UInt(vi.as_u32() as u128)),
                ]),
                other => s(format!("{:?}", other)),
            };
            proj.push(j);
            pty = pty.projection_ty(tcx, elem);
        }
        J::Obj(vec![("l", J::UInt(p.local.as_u32() as u128)), ("p", J::Arr(proj)), ("ty", s(ty_str(pty.ty)))])
    }

    fn operand(&self, body: &Body<'tcx>, op: &Operand<'tcx>, env: TypingEnv<'tcx>) -> J {
        match op {
            Operand::Copy(p) => J::Obj(vec![("k", s("copy")), ("place", self.place(body, p))]),
            Operand::Move(p) => J::Obj(vec![("k", s("move")), ("place", self.place(body, p))]),
            Operand::Constant(c) => self.konst(c, env),
            other => J::Obj(vec![("k", s("other")), ("dbg", s(format!("{:?}", other)))]),
        }
    }

    fn rvalue(&self, body: &Body<'tcx>, rv: &Rvalue<'tcx>, env: TypingEnv<'tcx>) -> J {
        let tcx = self.tcx;
        match rv {
            Rvalue::Use(op, ..) => J::Obj(vec![("k", s("use")), ("op", self.operand(body, op, env))]),
            Rvalue::Repeat(op, n) => {
                let nv = n.try_to_target_usize(tcx).map(|x| J::UInt(x as u128)).unwrap_or(s(format!("{}", n)));
                J::Obj(vec![("k", s("repeat")), ("op", self.operand(body, op, env)), ("n", nv)])
            }
            Rvalue::Ref(_, bk, p) => {
                let m = matches!(bk, mir::BorrowKind::Mut { .. });
                J::Obj(vec![("k", s("ref")), ("mut", J::Bool(m)), ("bk", s(format!("{:?}", bk))), ("place", self.place(body, p))])
            }
            Rvalue::RawPtr(k, p) => {
                let m = matches!(k, mir::RawPtrKind::Mut);
                J::Obj(vec![("k", s("rawptr")), ("mut", J::Bool(m)), ("place", self.place(body, p))])
            }
            Rvalue::Cast(kind, op, ty) => J::Obj(vec![
                ("k", s("cast")),
                ("kind", s(format!("{:?}", kind))),
                ("op", self.operand(body, op, env)),
                ("from", s(ty_str(op.ty(body, tcx)))),
                ("ty", s(ty_str(*ty))),
            ]),
            Rvalue::BinaryOp(op, box (a, b)) => J::Obj(vec![
                ("k", s("bin")),
                ("op", s(format!("{:?}", op))),
                ("a", self.operand(body, a, env)),
                ("b", self.operand(body, b, env)),
                ("ty", s(ty_str(a.ty(body, tcx)))),
            ]),
            Rvalue::UnaryOp(op, a) => J::Obj(vec![
                ("k", s("un")),
                ("op", s(format!("{:?}", op))),
                ("a", self.operand(body, a, env)),
                ("ty", s(ty_str(a.ty(body, tcx)))),
            ]),
            Rvalue::Discriminant(p) => J::Obj(vec![("k", s("discr")), ("place", self.place(body, p))]),
            Rvalue::Aggregate(box kind, ops) => {
                let mut o = vec![("k", s("agg"))];
                match kind {
                    mir::AggregateKind::Array(t) => {
                        o.push(("agg", s("array")));
                        o.push(("elem", s(ty_str(*t))));
                    }
                    mir::AggregateKind::Tuple => o.push(("agg", s("tuple"))),
                    mir::AggregateKind::Adt(did, vi, _, _, active) => {
                        let adt = tcx.adt_def(*did);
                        let v = adt.variant(*vi);
                        o.push(("agg", s("adt")));
                        o.push(("adt", s(path_of(tcx, *did))));
                        o.push(("variant", s(v.name.to_string())));
                        o.push(("fields", J::Arr(v.fields.iter().map(|f| s(f.name.to_string())).collect())));
                        if let Some(a) = active {
                            o.push(("active", J::UInt(a.as_u32() as u128)));
                        }
                    }
                    mir::AggregateKind::Closure(did, _) => {
                        o.push(("agg", s("closure")));
                        o.push(("closure", s(path_of(tcx, *did))));
                    }
                    other => {
                        o.push(("agg", s("other")));
                        o.push(("dbg", s(format!("{:?}", other))));
                    }
                }
                o.push(("ops", J::Arr(ops.iter().map(|x| self.operand(body, x, env)).collect())));
                J::Obj(o)
            }
            Rvalue::CopyForDeref(p) => J::Obj(vec![("k", s("use")), ("op", J::Obj(vec![("k", s("copy")), ("place", self.place(body, p))]))]),
            other => J::Obj(vec![("k", s("other")), ("dbg", s(format!("{:?}", other)))]),
        }
    }

    fn callee(&self, body: &Body<'tcx>, func: &Operand<'tcx>, env: TypingEnv<'tcx>) -> J {
        let tcx = self.tcx;
        let fty = func.ty(body, tcx);
        match fty.kind() {
            ty::FnDef(did, args) => {
                let mut o = vec![("k", s("fn")), ("path", s(path_of(tcx, *did)))];
                o.push(("args", J::Arr(args.iter().map(|a| s(ty::print::with_no_trimmed_paths!(format!("{}", a)))).collect())));
                o.push(("local", J::Bool(did.is_local())));
                // trait method? try to resolve to the impl
                if let Some(tr) = tcx.trait_of_assoc(*did) {
                    o.push(("trait", s(path_of(tcx, tr))));
                }
                let resolved = std::panic::catch_unwind(std::panic::AssertUnwindSafe(|| Instance::try_resolve(tcx, env, *did, args)));
                match resolved {
                    Ok(Ok(Some(inst))) => {
                        let rd = inst.def_id();
                        o.push(("resolved", s(path_of(tcx, rd))));
                        o.push(("resolved_local", J::Bool(rd.is_local())));
                        o.push(("inst", s(format!("{:?}", inst.def).split('(').next().unwrap_or("").to_string())));
                        o.push(("rargs", J::Arr(inst.args.iter().map(|a| s(ty::print::with_no_trimmed_paths!(format!("{}", a)))).collect())));
                    }
                    _ => {
                        o.push(("resolved", J::Null));
                    }
                }
                if tcx.is_foreign_item(*did) {
                    o.push(("foreign", J::Bool(true)));
                }
                if tcx.intrinsic(*did).is_some() {
                    o.push(("intrinsic", J::Bool(true)));
                }
                J::Obj(o)
            }
            _ => J::Obj(vec![("k", s("indirect")), ("ty", s(ty_str(fty))), ("op", self.operand(body, func, env))]),
        }
    }

    fn body_json(&self, def: LocalDefId, body: &Body<'tcx>) -> J {
        let tcx = self.tcx;
        let env = TypingEnv::post_analysis(tcx, def);
        let mut locals = Vec::new();
        for (l, d) in body.local_decls.iter_enumerated() {
            let mut o = vec![("ty", s(ty_str(d.ty))), ("mut", J::Bool(d.mutability.is_mut()))];
            if l.as_usize() >= 1 && l.as_usize() <= body.arg_count {
                o.push(("arg", J::Bool(true)));
            }
            locals.push(J::Obj(o));
        }
        let mut names = Vec::new();
        for vdi in &body.var_debug_info {
            if let mir::VarDebugInfoContents::Place(p) = &vdi.value {
                names.push(J::Obj(vec![("name", s(vdi.name.to_string())), ("place", self.place(body, p)), ("argidx", vdi.argument_index.map(|i| J::UInt(i as u128)).unwrap_or(J::Null))]));
            }
        }
        let mut blocks = Vec::new();
        for (_bb, data) in body.basic_blocks.iter_enumerated() {
            let mut stmts = Vec::new();
            for st in &data.statements {
                let sp = st.source_info.span;
                match &st.kind {
                    StatementKind::Assign(box (p, rv)) => {
                        stmts.push(J::Obj(vec![
                            ("k", s("assign")),
                            ("place", self.place(body, p)),
                            ("rv", self.rvalue(body, rv, env)),
                            ("s", s(self.loc(sp))),
                            ("x", if sp.from_expansion() { self.macro_chain(sp) } else { J::Null }),
                        ]));
                    }
                    StatementKind::SetDiscriminant { place, variant_index } => {
                        stmts.push(J::Obj(vec![("k", s("setdiscr")), ("place", self.place(body, place)), ("vi", J::UInt(variant_index.as_u32() as u128)), ("s", s(self.loc(sp)))]));
                    }
                    StatementKind::Intrinsic(box i) => {
                        stmts.push(J::Obj(vec![("k", s("intrinsic")), ("dbg", s(format!("{:?}", i))), ("s", s(self.loc(sp)))]));
                    }
                    _ => {}
                }
            }
            let term = data.terminator();
            let sp = term.source_info.span;
            let mut t: Vec<(&'static str, J)> = Vec::new();
            match &term.kind {
                TerminatorKind::Goto { target } => {
                    t.push(("k", s("goto")));
                    t.push(("t", J::UInt(target.as_u32() as u128)));
                }
                TerminatorKind::SwitchInt { discr, targets } => {
                    t.push(("k", s("switch")));
                    t.push(("op", self.operand(body, discr, env)));
                    t.push(("opty", s(ty_str(discr.ty(body, tcx)))));
                    t.push(("targets", J::Arr(targets.iter().map(|(v, b)| J::Arr(vec![J::UInt(v), J::UInt(b.as_u32() as u128)])).collect())));
                    t.push(("otherwise", J::UInt(targets.otherwise().as_u32() as u128)));
                }
                TerminatorKind::Return => t.push(("k", s("return"))),
                TerminatorKind::Unreachable => t.push(("k", s("unreachable"))),
                TerminatorKind::UnwindResume => t.push(("k", s("resume"))),
                TerminatorKind::UnwindTerminate(_) => t.push(("k", s("abort"))),
                TerminatorKind::Drop { place, target, .. } => {
                    t.push(("k", s("drop")));
                    t.push(("place", self.place(body, place)));
                    t.push(("t", J::UInt(target.as_u32() as u128)));
                }
                TerminatorKind::Call { func, args, destination, target, fn_span, .. } => {
                    t.push(("k", s("call")));
                    t.push(("callee", self.callee(body, func, env)));
                    t.push(("args", J::Arr(args.iter().map(|a| self.operand(body, &a.node, env)).collect())));
                    t.push(("dest", self.place(body, destination)));
                    t.push(("t", target.map(|b| J::UInt(b.as_u32() as u128)).unwrap_or(J::Null)));
                    let _ = fn_span;
                }
                TerminatorKind::TailCall { func, args, .. } => {
                    t.push(("k", s("tailcall")));
                    t.push(("callee", self.callee(body, func, env)));
                    t.push(("args", J::Arr(args.iter().map(|a| self.operand(body, &a.node, env)).collect())));
                }
                TerminatorKind::Assert { cond, expected, msg, target, .. } => {
                    t.push(("k", s("assert")));
                    t.push(("cond", self.operand(body, cond, env)));
                    t.push(("expected", J::Bool(*expected)));
                    let kind = match &**msg {
                        mir::AssertKind::BoundsCheck { .. } => "BoundsCheck".to_string(),
                        mir::AssertKind::Overflow(op, ..) => format!("Overflow({:?})", op),
                        mir::AssertKind::OverflowNeg(..) => "OverflowNeg".to_string(),
                        mir::AssertKind::DivisionByZero(..) => "DivisionByZero".to_string(),
                        mir::AssertKind::RemainderByZero(..) => "RemainderByZero".to_string(),
                        other => format!("{:?}", other).split(|c: char| !c.is_alphanumeric()).next().unwrap_or("").to_string(),
                    };
                    t.push(("kind", s(kind)));
                    t.push(("t", J::UInt(target.as_u32() as u128)));
                }
                other => {
                    t.push(("k", s("other")));
                    t.push(("dbg", s(format!("{:?}", other))));
                    let succ: Vec<J> = other.successors().map(|b| J::UInt(b.as_u32() as u128)).collect();
                    t.push(("succ", J::Arr(succ)));
                }
            }
            t.push(("s", s(self.loc(sp))));
            t.push(("x", if sp.from_expansion() { self.macro_chain(sp) } else { J::Null }));
            blocks.push(J::Obj(vec![("stmts", J::Arr(stmts)), ("term", J::Obj(t)), ("cleanup", J::Bool(data.is_cleanup))]));
        }
        J::Obj(vec![("argc", J::UInt(body.arg_count as u128)), ("locals", J::Arr(locals)), ("names", J::Arr(names)), ("blocks", J::Arr(blocks))])
    }

    // leaf kinds + ADTs met while walking a type structurally (through all fields of all ADTs)
    fn walk_ty(&self, t: Ty<'tcx>, seen: &mut BTreeSet<String>, out: &mut BTreeSet<String>, depth: usize) {
        let tcx = self.tcx;
        if depth > 12 {
            out.insert("depth-limit".into());
            return;
        }
        match t.kind() {
            ty::Bool | ty::Char | ty::Int(_) | ty::Uint(_) | ty::Float(_) | ty::Never | ty::Str => {
                out.insert("scalar".into());
            }
            ty::Ref(_, inner, m) => {
                out.insert(if m.is_mut() { "ref_mut".into() } else { "ref".into() });
                self.walk_ty(*inner, seen, out, depth + 1);
            }
            ty::RawPtr(inner, _) => {
                out.insert("rawptr".into());
                self.walk_ty(*inner, seen, out, depth + 1);
            }
            ty::FnPtr(..) | ty::FnDef(..) => {
                out.insert("fn".into());
            }
            ty::Dynamic(..) => {
                out.insert("dyn".into());
            }
            ty::Array(e, _) | ty::Slice(e) => {
                out.insert("array".into());
                self.walk_ty(*e, seen, out, depth + 1);
            }
            ty::Tuple(ts) => {
                for x in ts.iter() {
                    self.walk_ty(x, seen, out, depth + 1);
                }
            }
            ty::Adt(adt, args) => {
                let name = path_of(tcx, adt.did());
                out.insert(format!("adt:{}", name));
                let key = ty_str(t);
                if !seen.insert(key) {
                    return;
                }
                if adt.is_union() {
                    out.insert("union".into());
                }
                for v in adt.variants() {
                    for f in &v.fields {
                        let fty = f.ty(tcx, args);
                        self.walk_ty(fty, seen, out, depth + 1);
                    }
                }
            }
            ty::Param(_) => {
                out.insert("param".into());
            }
            _ => {
                out.insert(format!("other:{:?}", t.kind()).chars().take(40).collect());
            }
        }
    }
}

// --------------------------------------------------------------- dump ----
fn dump<'tcx>(tcx: TyCtxt<'tcx>) -> J {
    let cx = Cx { tcx };
    let mut fns = Vec::new();
    let mut adts = Vec::new();
    let mut statics = Vec::new();
    let mut consts = Vec::new();
    let mut impls = Vec::new();
    let mut foreign = Vec::new();
    let mut traits = Vec::new();

    let mut all_defs: Vec<LocalDefId> = tcx.hir_crate_items(()).definitions().collect();
    {
        let have: std::collections::HashSet<LocalDefId> = all_defs.iter().copied().collect();
        for o in tcx.hir_body_owners() {
            if !have.contains(&o) {
                all_defs.push(o);
            }
        }
    }
    for ldid in all_defs {
        let did = ldid.to_def_id();
        let kind = tcx.def_kind(did);
        let span = tcx.def_span(did);
        match kind {
            DefKind::Fn | DefKind::AssocFn | DefKind::Closure => {
                if tcx.is_foreign_item(did) {
                    let sig = tcx.fn_sig(did).instantiate_identity().skip_norm_wip().skip_binder();
                    let names: Vec<J> = tcx.fn_arg_idents(did).iter().map(|i| s(i.map(|x| x.name.to_string()).unwrap_or_default())).collect();
                    foreign.push(J::Obj(vec![
                        ("path", s(path_of(tcx, did))),
                        ("name", s(tcx.item_name(did).to_string())),
                        ("params", J::Arr(sig.inputs().iter().map(|t| s(ty_str(*t))).collect())),
                        ("param_names", J::Arr(names)),
                        ("ret", s(ty_str(sig.output()))),
                        ("s", s(cx.loc(span))),
                    ]));
                    continue;
                }
                if !tcx.is_mir_available(did) {
                    // trait method declarations without default body
                    if kind == DefKind::AssocFn {
                        let preds: Vec<J> = tcx.predicates_of(did).predicates.iter().map(|(p, _)| s(ty::print::with_no_trimmed_paths!(format!("{}", p)))).collect();
                        fns.push(J::Obj(vec![("path", s(path_of(tcx, did))), ("kind", s("decl")), ("preds", J::Arr(preds)), ("s", s(cx.loc(span)))]));
                    }
                    continue;
                }
                let mut o: Vec<(&'static str, J)> = vec![("path", s(path_of(tcx, did)))];
                o.push(("kind", s(match kind {
                    DefKind::Closure => "closure",
                    DefKind::AssocFn => "assoc",
                    _ => "fn",
                })));
                o.push(("s", s(cx.loc(span))));
                let file_of = {
                    let sm = tcx.sess.source_map();
                    let lo = sm.lookup_char_pos(span.lo());
                    format!("{}", lo.file.name.prefer_local_unconditionally())
                };
                o.push(("file", s(file_of)));
                if kind != DefKind::Closure {
                    let sig = tcx.fn_sig(did).instantiate_identity().skip_norm_wip().skip_binder();
                    o.push(("params", J::Arr(sig.inputs().iter().map(|t| s(ty_str(*t))).collect())));
                    o.push(("ret", s(ty_str(sig.output()))));
                    o.push(("unsafe", J::Bool(sig.safety().is_unsafe())));
                    o.push(("abi", s(format!("{:?}", sig.abi()))));
                    o.push(("pub", J::Bool(tcx.visibility(did).is_public())));
                    let names: Vec<J> = tcx.fn_arg_idents(did).iter().map(|i| s(i.map(|x| x.name.to_string()).unwrap_or_default())).collect();
                    o.push(("param_names", J::Arr(names)));
                    let g = tcx.generics_of(did);
                    o.push(("generics", J::Arr(g.own_params.iter().map(|p| s(p.name.to_string())).collect())));
                    let preds: Vec<J> = tcx.predicates_of(did).predicates.iter().map(|(p, _)| s(ty::print::with_no_trimmed_paths!(format!("{}", p)))).collect();
                    o.push(("preds", J::Arr(preds)));
                    if let Some(imp) = tcx.impl_of_assoc(did) {
                        o.push(("impl", s(path_of(tcx, imp))));
                        if let Some(tr) = tcx.impl_opt_trait_ref(imp) {
                            let tr = tr.instantiate_identity().skip_norm_wip();
                            o.push(("impl_trait", s(ty::print::with_no_trimmed_paths!(format!("{}", tr.print_only_trait_path())))));
                            o.push(("impl_self", s(ty_str(tr.self_ty()))));
                        } else {
                            o.push(("impl_self", s(ty_str(tcx.type_of(imp).instantiate_identity().skip_norm_wip()))));
                        }
                    }
                } else {
                    o.push(("parent", s(path_of(tcx, tcx.typeck_root_def_id(did)))));
                    // captures
                    let mut caps = Vec::new();
                    for cap in tcx.closure_captures(ldid) {
                        let pl = &cap.place;
                        let mode = match cap.info.capture_kind {
                            ty::UpvarCapture::ByValue => "value".to_string(),
                            ty::UpvarCapture::ByUse => "use".to_string(),
                            ty::UpvarCapture::ByRef(bk) => format!("ref:{:?}", bk),
                        };
                        caps.push(J::Obj(vec![
                            ("var", s(cap.var_ident.name.to_string())),
                            ("mode", s(mode)),
                            ("ty", s(ty_str(pl.ty()))),
                            ("nproj", J::UInt(pl.projections.len() as u128)),
                            ("projs", J::Arr(pl.projections.iter().map(|p| s(format!("{:?}", p.kind))).collect())),
                        ]));
                    }
                    o.push(("captures", J::Arr(caps)));
                }
                let attrs = tcx.codegen_fn_attrs(did);
                o.push(("target_features", J::Arr(attrs.target_features.iter().map(|f| s(f.name.to_string())).collect())));
                o.push(("inline", s(format!("{:?}", attrs.inline))));
                let body = tcx.optimized_mir(did);
                o.push(("mir", cx.body_json(ldid, body)));
                fns.push(J::Obj(o));
            }
            DefKind::Struct | DefKind::Enum | DefKind::Union => {
                let adt = tcx.adt_def(did);
                let env = TypingEnv::post_analysis(tcx, did);
                let self_ty = tcx.type_of(did).instantiate_identity().skip_norm_wip();
                let mut vars = Vec::new();
                for v in adt.variants() {
                    let mut fs = Vec::new();
                    for f in &v.fields {
                        let fty = tcx.type_of(f.did).instantiate_identity().skip_norm_wip();
                        let mut seen = BTreeSet::new();
                        let mut out = BTreeSet::new();
                        cx.walk_ty(fty, &mut seen, &mut out, 0);
                        fs.push(J::Obj(vec![
                            ("name", s(f.name.to_string())),
                            ("ty", s(ty_str(fty))),
                            ("pub", J::Bool(f.vis.is_public())),
                            ("walk", J::Arr(out.into_iter().map(s).collect())),
                        ]));
                    }
                    vars.push(J::Obj(vec![("name", s(v.name.to_string())), ("fields", J::Arr(fs))]));
                }
                let generic = tcx.generics_of(did).own_params.iter().any(|p| !matches!(p.kind, ty::GenericParamDefKind::Lifetime));
                let mut o = vec![
                    ("path", s(path_of(tcx, did))),
                    ("kind", s(format!("{:?}", kind))),
                    ("variants", J::Arr(vars)),
                    ("pub", J::Bool(tcx.visibility(did).is_public())),
                    ("s", s(cx.loc(span))),
                ];
                if !generic {
                    o.push(("freeze", J::Bool(self_ty.is_freeze(tcx, env))));
                    let copy = tcx.type_is_copy_modulo_regions(env, self_ty);
                    o.push(("copy", J::Bool(copy)));
                    if let Ok(l) = tcx.layout_of(env.as_query_input(self_ty)) {
                        o.push(("size", J::UInt(l.size.bytes() as u128)));
                    }
                    // auto traits, decided by rustc's trait solver
                    let infcx = tcx.infer_ctxt().build(ty::TypingMode::PostAnalysis);
                    for (nm, sym) in [("send", rustc_span::sym::Send), ("sync", rustc_span::sym::Sync)] {
                        if let Some(tr) = tcx.get_diagnostic_item(sym) {
                            let r = infcx.type_implements_trait(tr, [self_ty], env.param_env);
                            o.push((nm, J::Bool(r.must_apply_modulo_regions())));
                        }
                    }
                }
                adts.push(J::Obj(o));
            }
            DefKind::Static { mutability, nested, .. } => {
                let ty = tcx.type_of(did).instantiate_identity().skip_norm_wip();
                let env = TypingEnv::fully_monomorphized();
                statics.push(J::Obj(vec![
                    ("path", s(path_of(tcx, did))),
                    ("ty", s(ty_str(ty))),
                    ("mut", J::Bool(mutability.is_mut())),
                    ("nested", J::Bool(nested)),
                    ("freeze", J::Bool(ty.is_freeze(tcx, env))),
                    ("foreign", J::Bool(tcx.is_foreign_item(did))),
                    ("thread_local", J::Bool(tcx.is_thread_local_static(did))),
                    ("s", s(cx.loc(span))),
                ]));
            }
            DefKind::Const { .. } | DefKind::AssocConst { .. } => {
                let g = tcx.generics_of(did);
                if g.own_requires_monomorphization() || g.parent_count > 0 {
                    continue;
                }
                let ty = tcx.type_of(did).instantiate_identity().skip_norm_wip();
                let env = TypingEnv::fully_monomorphized();
                let mut o = vec![("path", s(path_of(tcx, did))), ("ty", s(ty_str(ty))), ("s", s(cx.loc(span)))];
                let r = std::panic::catch_unwind(std::panic::AssertUnwindSafe(|| tcx.const_eval_poly(did)));
                if let Ok(Ok(cv)) = r {
                    if let mir::ConstValue::Scalar(mir::interpret::Scalar::Int(si)) = cv {
                        if ty.is_integral() || ty.is_bool() || ty.is_char() {
                            if ty.is_signed() {
                                o.push(("val", J::Int(si.to_int(si.size()))));
                            } else {
                                o.push(("val", J::UInt(si.to_uint(si.size()))));
                            }
                        }
                    }
                    let mut done = false;
                    // `const X: &[T] = &[..]` / `&str`: a fat pointer stored indirectly -- follow it
                    if let (mir::ConstValue::Indirect { alloc_id, offset }, Some(pointee)) = (cv, ty.builtin_deref(true)) {
                        if matches!(pointee.kind(), ty::Slice(_) | ty::Str) {
                            let a = tcx.global_alloc(alloc_id).unwrap_memory();
                            let a = a.inner();
                            let off = offset.bytes() as usize;
                            let raw = a.inspect_with_uninit_and_ptr_outside_interpreter(0..a.len());
                            if off + 16 <= raw.len() {
                                let mut lenb = [0u8; 8];
                                lenb.copy_from_slice(&raw[off + 8..off + 16]);
                                let n = u64::from_le_bytes(lenb) as usize;
                                let esz = match pointee.kind() {
                                    ty::Slice(e) => tcx.layout_of(env.as_query_input(*e)).map(|l| l.size.bytes() as usize).unwrap_or(1),
                                    _ => 1,
                                };
                                for (po, prov) in a.provenance().ptrs().iter() {
                                    if po.bytes() as usize == off {
                                        if let GlobalAlloc::Memory(t) = tcx.global_alloc(prov.alloc_id()) {
                                            let ti = t.inner();
                                            let mut pb = [0u8; 8];
                                            pb.copy_from_slice(&raw[off..off + 8]);
                                            let start = u64::from_le_bytes(pb) as usize;
                                            let all = ti.inspect_with_uninit_and_ptr_outside_interpreter(0..ti.len());
                                            if start + n * esz <= all.len() && n * esz <= 65536 {
                                                o.push(("bytes", J::Arr(all[start..start + n * esz].iter().map(|x| J::UInt(*x as u128)).collect())));
                                                o.push(("slice_len", J::UInt(n as u128)));
                                                done = true;
                                            }
                                        }
                                    }
                                }
                            }
                        }
                    }
                    if !done {
                        if let Some(b) = cx.bytes_of_constvalue(cv, ty, env) {
                            if b.len() <= 65536 {
                                o.push(("bytes", J::Arr(b.iter().map(|x| J::UInt(*x as u128)).collect())));
                            }
                        }
                    }
                }
                consts.push(J::Obj(o));
            }
            DefKind::Impl { of_trait } => {
                let self_ty = tcx.type_of(did).instantiate_identity().skip_norm_wip();
                let mut o = vec![("path", s(path_of(tcx, did))), ("self", s(ty_str(self_ty))), ("s", s(cx.loc(span)))];
                if of_trait {
                    let tr = tcx.impl_trait_ref(did).instantiate_identity().skip_norm_wip();
                    o.push(("trait", s(ty::print::with_no_trimmed_paths!(format!("{}", tr.print_only_trait_path())))));
                    let hdr = tcx.impl_trait_header(did);
                    o.push(("unsafe", J::Bool(hdr.safety.is_unsafe())));
                    o.push(("polarity", s(format!("{:?}", hdr.polarity))));
                } else {
                    o.push(("trait", J::Null));
                }
                o.push(("derived", J::Bool(tcx.is_automatically_derived(did))));
                let items: Vec<J> = tcx.associated_item_def_ids(did).iter().map(|i| s(path_of(tcx, *i))).collect();
                o.push(("items", J::Arr(items)));
                impls.push(J::Obj(o));
            }
            DefKind::Trait => {
                let items: Vec<J> = tcx.associated_item_def_ids(did).iter().map(|i| s(path_of(tcx, *i))).collect();
                traits.push(J::Obj(vec![("path", s(path_of(tcx, did))), ("items", J::Arr(items)), ("s", s(cx.loc(span)))]));
            }
            _ => {}
        }
    }
    J::Obj(vec![
        ("crate", s(tcx.crate_name(LOCAL_CRATE).to_string())),
        ("fns", J::Arr(fns)),
        ("adts", J::Arr(adts)),
        ("statics", J::Arr(statics)),
        ("consts", J::Arr(consts)),
        ("impls", J::Arr(impls)),
        ("foreign", J::Arr(foreign)),
        ("traits", J::Arr(traits)),
    ])
}

struct Cb {
    out: String,
}
impl rustc_driver::Callbacks for Cb {
    fn after_analysis<'tcx>(&mut self, _c: &rustc_interface::interface::Compiler, tcx: TyCtxt<'tcx>) -> Compilation {
        let j = dump(tcx);
        let mut st = String::with_capacity(1 << 22);
        j.write(&mut st);
        let tmp = format!("{}.tmp{}", self.out, std::process::id());
        std::fs::write(&tmp, st).expect("mirfacts: write");
        std::fs::rename(&tmp, &self.out).expect("mirfacts: rename");
        Compilation::Continue
    }
}
struct Plain;
impl rustc_driver::Callbacks for Plain {}

fn main() {
    let mut args: Vec<String> = std::env::args().collect();
    // invoked as: mirfacts rustc <args>  (RUSTC_WORKSPACE_WRAPPER)  -> drop argv[1]
    if args.len() > 1 && (args[1].ends_with("rustc") || args[1].contains("/rustc")) {
        args.remove(1);
    }
    let want = std::env::var("MIRFACTS_CRATE").unwrap_or_default();
    let out = std::env::var("MIRFACTS_OUT").unwrap_or_default();
    let mut crate_name = String::new();
    let mut it = args.iter();
    while let Some(a) = it.next() {
        if a == "--crate-name" {
            if let Some(n) = it.next() {
                crate_name = n.clone();
            }
        }
    }
    let is_target = !want.is_empty() && !out.is_empty() && crate_name == want && !args.iter().any(|a| a == "--print" || a.starts_with("--print="));
    if is_target {
        let mut cb = Cb { out };
        rustc_driver::run_compiler(&args, &mut cb);
    } else {
        rustc_driver::run_compiler(&args, &mut Plain);
    }
}
