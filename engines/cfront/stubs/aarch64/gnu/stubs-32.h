/* empty: lets glibc's x86 multiarch headers be parsed with --target=aarch64 (syntax only) */
