/* minimal stand-in for the MSVC CRT header: syntax/type checking only */
#ifndef VERIF_STUB_STRING_H
#define VERIF_STUB_STRING_H
#include <stddef.h>
void *memcpy(void *, const void *, size_t);
void *memset(void *, int, size_t);
int memcmp(const void *, const void *, size_t);
size_t strlen(const char *);
#endif
