/* minimal stand-in for the MSVC CRT header */
#ifndef VERIF_STUB_SETJMP_H
#define VERIF_STUB_SETJMP_H
typedef struct { unsigned long long _p[32]; } jmp_buf[1];
#endif
