/* minimal stand-in for the MSVC CRT header */
#include <stdlib.h>
