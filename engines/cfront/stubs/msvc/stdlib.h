/* minimal stand-in for the MSVC CRT header: syntax/type checking only */
#ifndef VERIF_STUB_STDLIB_H
#define VERIF_STUB_STDLIB_H
#include <stddef.h>
void *malloc(size_t);
void free(void *);
void *_aligned_malloc(size_t, size_t);
void _aligned_free(void *);
#endif
