/* minimal stand-in for the MSVC CRT header: syntax/type checking only, nothing is linked or run */
#ifndef VERIF_STUB_ASSERT_H
#define VERIF_STUB_ASSERT_H
void _wassert_stub(const char *, const char *, unsigned);
#ifdef NDEBUG
#define assert(e) ((void)0)
#else
#define assert(e) ((e) ? (void)0 : _wassert_stub(#e, __FILE__, __LINE__))
#endif
#endif
