/* minimal stand-in for the Windows SDK header: c/blake3_dispatch.c uses LONG and the Interlocked* names (which the SDK
   defines as the compiler intrinsics declared by <intrin.h>); syntax/type checking only */
#ifndef VERIF_STUB_WINDOWS_H
#define VERIF_STUB_WINDOWS_H
#include <intrin.h>
typedef long LONG;
typedef unsigned long DWORD;
typedef int BOOL;
#define InterlockedOr _InterlockedOr
#define InterlockedExchange _InterlockedExchange
BOOL IsProcessorFeaturePresent(DWORD);
#endif
