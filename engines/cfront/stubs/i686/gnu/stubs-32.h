/* empty stand-in: glibc's 32-bit stub list is not installed; syntax checking only */
