// Checker-side stand-in for <oneapi/tbb/parallel_invoke.h> (oneTBB is not installed in the
// sandbox).  Declares only what c/blake3_tbb.cpp uses, so that clang can type-check and dump it.
#pragma once
#define TBB_USE_EXCEPTIONS 0
namespace oneapi { namespace tbb {
template <typename F1, typename F2> void parallel_invoke(const F1 &f1, const F2 &f2) { (void)f1; (void)f2; }
} }
